"""Reference models ("boring", plain numpy): uncertainty sources, dense covariance sums, documented cost
formulas, constraints, ndf.  Nothing here imports kafe2.
"""
import collections
import math

import numpy as np

# ---------------------------------------------------------------------------------------
# model functions (python callables handed to kafe2 AND evaluated by the reference)


def lin(x, a=1.1, b=0.4):
    return a * x + b


def quad(x, a=0.3, b=0.9, c=0.5):
    return a * x * x + b * x + c


def expo(x, A0=1.4, k=0.25):
    return A0 * np.exp(k * x)


def expc(x, A0=1.4, k=0.25, c=0.2):
    return A0 * np.exp(k * x) + c


_IDX_W = None


def idx_design(n):
    i = np.arange(n, dtype=float)
    return np.array([1.0 + 0.0 * i, 0.5 * i + 0.2, np.cos(1.3 * i)])


def make_indexed_model(n, npar=2):
    W = idx_design(n)
    if npar == 2:

        def imodel(a=1.2, b=0.7):
            return a * W[0] + b * W[1] + 0.3

    else:

        def imodel(a=1.2, b=0.7, c=0.4):
            return a * W[0] + b * W[1] + c * W[2] + 0.3

    return imodel


def normal_density(x, mu=2.9, sigma=1.6):
    return np.exp(-0.5 * ((x - mu) / sigma) ** 2) / np.sqrt(2.0 * np.pi * sigma**2)


def normal_cdf(x, mu=2.9, sigma=1.6):
    return np.array([0.5 * (1.0 + math.erf((xi - mu) / (sigma * math.sqrt(2.0)))) for xi in np.atleast_1d(x)])


def normal_counts(x, A=40.0, mu=2.9, sigma=1.6):
    """count density (for HistFit(density=False)): the model carries its own normalisation parameter"""
    return A * np.exp(-0.5 * ((x - mu) / sigma) ** 2) / np.sqrt(2.0 * np.pi * sigma**2)


def normal_counts_cdf(x, A=40.0, mu=2.9, sigma=1.6):
    return A * np.array([0.5 * (1.0 + math.erf((xi - mu) / (sigma * math.sqrt(2.0)))) for xi in np.atleast_1d(x)])


def linoff(x, a=0.8, b=1.5):
    return a * x + b + 0.7


def quadoff(x, a=0.05, b=0.7, c=1.2):
    return a * x * x + b * x + c + 0.3


def basis3(x, a=1.1, b=0.9, c=0.4):
    return a + b * x + c * np.sin(x) - 0.5


def powerlaw(x, A0=1.3, n=0.8):
    return A0 * np.power(x, n)


def peak(x, A0=3.0, mu=4.0, w=1.5, c=1.0):
    return A0 * np.exp(-0.5 * ((x - mu) / w) ** 2) + c


def sinus(x, A0=1.5, om=0.9, c=3.0):
    return A0 * np.sin(om * x) + c


def logistic(x, L=9.0, k=0.6, x0=4.5):
    return L / (1.0 + np.exp(-k * (x - x0)))


def m_ab(x, a=1.0, b=0.7):
    return a * x + b


def m_ac(x, a=1.0, c=0.4):
    return a * x + c * x * x / 10.0 + 0.2


def m_bc(x, b=0.7, c=0.4):
    return b + c * np.sqrt(x) * 2.0


def make_idx_ad(n):
    W = idx_design(n)

    def idx_ad(a=1.0, d=0.9):
        return a * W[1] * 2.0 + d * W[0] + 0.1

    return idx_ad


MODELS = {
    "m_ab": m_ab, "m_ac": m_ac, "m_bc": m_bc,
    "lin": lin, "quad": quad, "expo": expo, "expc": expc, "normal": normal_density, "linoff": linoff, "quadoff": quadoff, "basis3": basis3,
    "powerlaw": powerlaw, "peak": peak, "sinus": sinus, "logistic": logistic,
}

# ---------------------------------------------------------------------------------------
# uncertainty-source kinds: name -> (axis, form, relative, reference container, payload, rho)
# form: 'simple' | 'cov' | 'cor'

KINDS = collections.OrderedDict(
    [
        ("y-abs", ("y", "simple", False, "data", "ey", 0.0)),
        ("y-abs-s", ("y", "simple", False, "data", "ys", 0.0)),
        ("y-abs-rho", ("y", "simple", False, "data", "ey2", "rho")),
        ("y-abs-rho1", ("y", "simple", False, "data", "ys", 1.0)),
        ("y-rel", ("y", "simple", True, "data", "ry", 0.0)),
        ("y-relv-rho", ("y", "simple", True, "data", "ryv", "rho2")),
        ("y-rel-model", ("y", "simple", True, "model", "rm", 0.0)),
        ("y-abs-model", ("y", "simple", False, "model", "ey2", "rho2")),
        ("y-cov", ("y", "cov", False, "data", "My", None)),
        ("y-cor", ("y", "cor", False, "data", ("C", "ey"), None)),
        ("y-cov-rel", ("y", "cov", True, "data", "Mrel", None)),
        ("y-cor-rel", ("y", "cor", True, "data", ("C", "ryv"), None)),
        ("y-cov-model", ("y", "cov", False, "model", "My", None)),
        ("x-abs", ("x", "simple", False, "data", "ex", 0.0)),
        ("x-abs-s", ("x", "simple", False, "data", "xs", 0.0)),
        ("x-abs-rho", ("x", "simple", False, "data", "ex2", "rho2")),
        ("x-rel", ("x", "simple", True, "data", "rx", 0.0)),
        ("x-cov", ("x", "cov", False, "data", "Mx", None)),
        ("x-abs-model", ("x", "simple", False, "model", "ex2", 0.0)),
    ]
)


def kind_call(kind, val, axis_as="str"):
    """-> (method name, kwargs) for the kafe2 call declaring a source of this kind (without name/axis for
    non-xy objects; the caller drops 'axis' / 'reference' where the API has none)."""
    axis, form, rel, ref, payload, rho = KINDS[kind]
    if isinstance(rho, str):
        rho = getattr(val, rho)
    ax = axis if axis_as == "str" else {"x": 0, "y": 1}[axis]
    if form == "simple":
        e = getattr(val, payload)
        return "add_error", dict(axis=ax, err_val=e, correlation=rho, relative=rel, reference=ref)
    if form == "cov":
        return "add_matrix_error", dict(axis=ax, err_matrix=getattr(val, payload), matrix_type="cov", relative=rel, reference=ref)
    C, e = payload
    return "add_matrix_error", dict(axis=ax, err_matrix=getattr(val, C), matrix_type="cor", err_val=getattr(val, e), relative=rel, reference=ref)


def source_cov(kind, val, values):
    """(sigma sigma^T) o rho for one source at reference ``values`` - the statement of C02, literally."""
    axis, form, rel, ref, payload, rho = KINDS[kind]
    n = len(values)
    values = np.asarray(values, dtype=float)
    if isinstance(rho, str):
        rho = getattr(val, rho)
    if form == "simple":
        e = np.asarray(getattr(val, payload), dtype=float)
        if e.ndim == 0:
            e = np.ones(n) * e
        sig = e * values if rel else e
        cov = np.outer(sig, sig) * rho
        cov[np.diag_indices(n)] = sig**2
        return cov
    if form == "cov":
        M = np.array(getattr(val, payload), dtype=float)
    else:
        C, e = payload
        ev = np.asarray(getattr(val, e), dtype=float)
        M = np.outer(ev, ev) * getattr(val, C)
    if rel:
        M = M * np.outer(values, values)
    return M


# ---------------------------------------------------------------------------------------
# cost identifiers

_CHI2_COV = {"chi2", "chi_2", "chisquared", "chi_squared", "chi2_covariance"}
_CHI2_COV_FAST = {"chi2_fast", "chi_2_fast", "chisquared_fast", "chi_squared_fast", "chi2_covariance_fast"}
_NLL_P = {"nll", "poisson", "nll-poisson", "nll_poisson", "nllpoisson", "negloglikelihood", "neg_log_likelihood"}
_NLL_G = {"nll-gaussian", "nll_gaussian", "nllgaussiann"}
_NLLR_P = {"nllr", "nllr-poisson", "nllr_poisson", "nllrpoisson", "negloglikelihoodratio", "neg_log_likelihood_ratio"}
_NLLR_G = {"nllr-gaussian", "nllr_gaussian", "nllrgaussian"}
_GA_COV = {"gauss-approximation", "gauss_approximation", "gauss_approximation_covariance", "gauss_approximation_covariance_fast"}
_GA_PW = {"gauss_approximation_pointwise", "gauss_approximation_pointwise_errors"}


def cost_family(cid):
    """-> (family, variant): chi2/{cov,pw,none,cov-nodet}, nll/{poisson,gauss}, nllr/{...}, ga/{cov,pw}
    'chi2:nodet' is a cost OBJECT built with add_determinant_cost=False (no identifier exists for it)"""
    if cid == "chi2:nodet":
        return ("chi2", "cov-nodet")
    if cid == "chi2:axes_y":  # XYCostFunction_Chi2(axes_to_use="y"): covariance of the y sources only (chosen by the caller)
        return ("chi2", "cov")
    if cid == "gauss_approximation:nodet":  # a *CostFunction_GaussApproximation OBJECT built with add_determinant_cost=False
        return ("ga", "cov-nodet")
    if cid in _CHI2_COV or cid in _CHI2_COV_FAST:
        return ("chi2", "cov")
    if cid in ("chi2_pointwise", "chi2_pointwise_errors"):
        return ("chi2", "pw")
    if cid == "chi2_no_errors":
        return ("chi2", "none")
    if cid in _NLL_P:
        return ("nll", "poisson")
    if cid in _NLL_G:
        return ("nll", "gauss")
    if cid in _NLLR_P:
        return ("nllr", "poisson")
    if cid in _NLLR_G:
        return ("nllr", "gauss")
    if cid in _GA_COV:
        return ("ga", "cov")
    if cid in _GA_PW:
        return ("ga", "pw")
    raise KeyError(cid)


def needs_sources(cid):
    fam, var = cost_family(cid)
    return (fam == "chi2" and var != "none") or (fam in ("nll", "nllr") and var == "gauss")


def poisson_logpmf(k, mu):
    k = np.asarray(k, dtype=float)
    mu = np.asarray(mu, dtype=float)
    return k * np.log(mu) - mu - np.array([math.lgamma(ki + 1.0) for ki in k])


def core_cost(cid, d, m, V, implicit_no_errors=False):
    """Documented -2 ln L of data d, model m, total covariance V (dense), WITHOUT constraint cost.
    Returns (cost, determinant_term)."""
    fam, var = cost_family(cid)
    d = np.asarray(d, dtype=float)
    m = np.asarray(m, dtype=float)
    r = d - m
    if fam == "chi2":
        if var == "none" or implicit_no_errors:
            return float(r.dot(r)), 0.0
        if var == "cov":
            sign, logdet = np.linalg.slogdet(V)
            return float(r.dot(np.linalg.inv(V)).dot(r)) + logdet, logdet
        if var == "cov-nodet":
            return float(r.dot(np.linalg.inv(V)).dot(r)), 0.0
        s2 = np.diag(V)
        det = float(np.sum(np.log(s2)))
        return float(np.sum(r**2 / s2)) + det, det
    if fam in ("nll", "nllr"):
        if var == "poisson":
            c = -2.0 * float(np.sum(poisson_logpmf(d, m)))
            if fam == "nllr":
                c -= -2.0 * float(np.sum(poisson_logpmf(d, np.where(d > 0, d, 1e-300))))
            return c, 0.0
        s2 = np.diag(V)
        c = float(np.sum(r**2 / s2))
        if fam == "nll":
            c += float(np.sum(np.log(2.0 * np.pi * s2)))
        return c, 0.0
    if fam == "ga":
        if var == "cov-nodet":  # (d-m)^T (V + diag(m))^-1 (d-m), no ln det term
            W = V + np.diag(m)
            return float(r.dot(np.linalg.inv(W)).dot(r)), 0.0
        if var == "cov":
            W = V + np.diag(m)
            sign, logdet = np.linalg.slogdet(W)
            return float(r.dot(np.linalg.inv(W)).dot(r)) + logdet, logdet
        s2 = np.diag(V) + m
        det = float(np.sum(np.log(s2)))
        return float(np.sum(r**2 / s2)) + det, det
    raise KeyError(cid)


# ---------------------------------------------------------------------------------------
# constraints: name -> spec


def constraint_specs(par_names, pvals):
    """A small pool of constraints for the given parameter list; values never 1 for relative ones."""
    p0, p1 = par_names[0], par_names[1]
    specs = collections.OrderedDict()
    specs["simple"] = dict(form="simple", name=p0, value=pvals[p0] * 1.3 + 0.2, uncertainty=0.35, relative=False)
    specs["simple-rel"] = dict(form="simple", name=p1, value=pvals[p1] * 0.7 + 0.35, uncertainty=0.2, relative=True)
    vals = [pvals[p0] * 1.2 + 0.1, pvals[p1] * 0.8 + 0.3]
    specs["matrix-cov"] = dict(form="matrix", names=[p0, p1], values=vals, matrix=[[0.09, 0.012], [0.012, 0.04]], matrix_type="cov", relative=False)
    specs["matrix-cor"] = dict(
        form="matrix", names=[p1, p0], values=vals[::-1], matrix=[[1.0, 0.3], [0.3, 1.0]], matrix_type="cor", uncertainties=[0.25, 0.4], relative=False
    )
    specs["matrix-cov-rel"] = dict(
        form="matrix", names=[p0, p1], values=vals, matrix=[[0.02, 0.003], [0.003, 0.05]], matrix_type="cov", relative=True
    )
    # measurements of very different precision (variances 4e8 and 1e-8: a regular matrix whose numerical rank is 1)
    specs["matrix-scales"] = dict(form="matrix", names=[p0, p1], values=vals, matrix=[[4.0e8, 0.0], [0.0, 1.0e-8]], matrix_type="cov", relative=False)
    if len(par_names) >= 3:
        p2 = par_names[2]
        specs["matrix3"] = dict(
            form="matrix",
            names=[p2, p0, p1],
            values=[pvals[p2] * 1.1 + 0.2] + vals,
            matrix=[[0.05, 0.004, 0.002], [0.004, 0.09, 0.012], [0.002, 0.012, 0.04]],
            matrix_type="cov",
            relative=False,
        )
    return specs


def constraint_cost(spec, pdict):
    if spec["form"] == "simple":
        sig = spec["uncertainty"] * spec["value"] if spec["relative"] else spec["uncertainty"]
        return ((pdict[spec["name"]] - spec["value"]) / sig) ** 2
    vals = np.asarray(spec["values"], dtype=float)
    M = np.asarray(spec["matrix"], dtype=float)
    if spec["matrix_type"] == "cor":
        u = np.asarray(spec["uncertainties"], dtype=float)
        if spec["relative"]:
            u = u * vals
        cov = M * np.outer(u, u)
    else:
        cov = M * np.outer(vals, vals) if spec["relative"] else M
    r = np.array([pdict[n] for n in spec["names"]]) - vals
    return float(r.dot(np.linalg.inv(cov)).dot(r))


def constraint_ndf(spec):
    return 1 if spec["form"] == "simple" else len(spec["names"])


def chi2_sf(x, ndf):
    """Upper tail of the chi2 distribution via mpmath's regularised incomplete gamma (not scipy)."""
    import mpmath

    return float(mpmath.gammainc(mpmath.mpf(ndf) / 2, mpmath.mpf(x) / 2, mpmath.inf, regularized=True))
