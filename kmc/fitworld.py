"""FitWorld: a real kafe2 fit coupled with its reference configuration.

Operations (tuples, JSON-able):
  ('add', kind, name)            declare an uncertainty source of a kind from ref.KINDS
  ('dis', name) / ('en', name)   disable / enable
  ('con', cname)                 add a constraint from ref.constraint_specs
  ('set', {par: value})          set_parameter_values
  ('setall', [values])           set_all_parameter_values
  ('fix', par[, value]) / ('rel', par) / ('lim', par, lo, hi) / ('unlim', par)
  ('data', variant)              replace the data: 'alt' raw data, 'altc' container with its own sources
  ('fit',)                       do_fit()
The reference keeps the abstract configuration; observables of the real fit are read through
``observe`` (public API only) and reference values computed by ``ref_*`` (plain numpy).
"""
import collections
import io
import warnings

import numpy as np

from . import ref
from .valuations import V

HIST_EDGES = np.array([0.0, 1.0, 2.0, 3.5, 4.5, 6.0])
HIST_ENTRIES = np.array(
    [0.3, 0.8, 1.1, 1.4, 1.7, 1.9, 2.2, 2.4, 2.5, 2.7, 2.9, 3.0, 3.2, 3.3, 3.6, 3.8, 4.1, 4.4, 4.6, 4.9, 5.3, 5.8, 2.1, 2.8, 3.1, 1.5, 3.9, 0.6, 4.2, 2.6]
)
HIST_ENTRIES_ALT = np.array([0.5, 1.2, 1.6, 2.0, 2.3, 2.35, 2.6, 2.8, 3.0, 3.1, 3.4, 3.7, 3.9, 4.3, 4.7, 5.1, 5.6, 1.8, 2.9, 3.3, 2.45, 3.05])


def hist_counts(entries, edges=HIST_EDGES):
    e = np.asarray(entries)
    return np.array([np.sum((e >= lo) & (e < hi)) for lo, hi in zip(edges[:-1], edges[1:])], dtype=float)


class FitWorld(object):
    def __init__(self, ftype, cost, model="lin", v=0, n=5, minimizer="iminuit", dea="nonlinear", poisson_data=None, gen=None, yscale=1.0, xscale=1.0):
        import kafe2

        self.k2 = kafe2
        self.ftype, self.cost_id, self.model_key, self.v, self.n = ftype, cost, model, v, n
        self.minimizer, self.dea = minimizer, dea
        self.val = V(v, n, yscale=yscale, xscale=xscale)
        self.gen = gen  # (truth parameter list, noise scale): y data generated from the model plus fixed pseudo-noise
        fam, var = ref.cost_family(cost)
        self.poisson = (fam in ("nll", "nllr") and var == "poisson") or fam == "ga" if poisson_data is None else poisson_data
        self.sources = collections.OrderedDict()  # name -> [kind, enabled]
        self.cons = []
        self.fixed = collections.OrderedDict()
        self.limits = {}
        self.data_variant = "base"
        self.container_sources = collections.OrderedDict()  # sources that came with a replaced container
        self.fitted = False
        self.implicit_no_errors = cost == "chi2"
        self._build()

    # -- construction -------------------------------------------------------------------
    def _data_arrays(self, variant):
        val = self.val
        if self.ftype == "xy":
            if self.gen is not None:
                truth, scale = self.gen
                xx = val.x if variant == "base" else val.x_alt
                yy = ref.MODELS[self.model_key](xx, *truth) + scale * (val.noise if variant == "base" else val.noise[::-1])
                return xx, (np.round(yy) if self.poisson else yy)
            if variant == "base":
                return val.x, (val.yint if self.poisson else val.y)
            return val.x_alt, (val.yint_alt if self.poisson else val.y_alt)
        if self.ftype == "indexed":
            if variant == "base":
                return None, (val.yint if self.poisson else val.y)
            return None, (val.yint_alt if self.poisson else val.y_alt)
        if self.ftype == "hist":
            return HIST_EDGES, (HIST_ENTRIES if variant == "base" else HIST_ENTRIES_ALT)
        if self.ftype == "unbinned":
            return None, (HIST_ENTRIES if variant == "base" else HIST_ENTRIES_ALT)
        raise ValueError(self.ftype)

    def _build(self):
        k2 = self.k2
        x, y = self._data_arrays("base")
        kw = dict(minimizer=self.minimizer)
        cost = self.cost_id
        if cost == "chi2:nodet":  # a cost function object with a non-default flag
            from kafe2.fit.histogram.cost import HistCostFunction_Chi2
            from kafe2.fit.indexed.cost import IndexedCostFunction_Chi2
            from kafe2.fit.xy.cost import XYCostFunction_Chi2

            cost = {"xy": XYCostFunction_Chi2, "indexed": IndexedCostFunction_Chi2, "hist": HistCostFunction_Chi2}[self.ftype](add_determinant_cost=False)
        elif cost == "chi2:axes_y":  # documented option of the xy cost objects: only the y uncertainties enter (x sources declared but not used)
            from kafe2.fit.xy.cost import XYCostFunction_Chi2

            cost = XYCostFunction_Chi2(axes_to_use="y")
        elif cost == "gauss_approximation:nodet":  # Gaussian approximation as a cost function object with a non-default flag
            from kafe2.fit.histogram.cost import HistCostFunction_GaussApproximation
            from kafe2.fit.indexed.cost import IndexedCostFunction_GaussApproximation
            from kafe2.fit.xy.cost import XYCostFunction_GaussApproximation

            cost = {"xy": XYCostFunction_GaussApproximation, "indexed": IndexedCostFunction_GaussApproximation, "hist": HistCostFunction_GaussApproximation}[self.ftype](
                add_determinant_cost=False
            )
        with warnings.catch_warnings():
            warnings.simplefilter("ignore")
            if self.ftype == "xy":
                self.fn = ref.MODELS[self.model_key]
                self.fit = k2.XYFit([x, y], self.fn, cost_function=cost, dynamic_error_algorithm=self.dea, **kw)
            elif self.ftype == "indexed":
                self.fn = ref.make_idx_ad(self.n) if self.model_key == "idx_ad" else ref.make_indexed_model(self.n, 3 if self.model_key == "idx3" else 2)
                self.fit = k2.IndexedFit(y, self.fn, cost_function=cost, dynamic_error_algorithm=self.dea, **kw)
            elif self.ftype == "hist":
                c = k2.HistContainer(n_bins=len(HIST_EDGES) - 1, bin_range=(HIST_EDGES[0], HIST_EDGES[-1]), bin_edges=list(HIST_EDGES), fill_data=list(y))
                if self.model_key == "normal_counts":  # density=False: the model gives counts, nothing is scaled by the number of entries
                    self.fn = ref.normal_counts
                    self.fit = k2.HistFit(c, self.fn, cost_function=cost, bin_evaluation=ref.normal_counts_cdf, density=False, dynamic_error_algorithm=self.dea, **kw)
                else:
                    self.fn = ref.normal_density
                    self.fit = k2.HistFit(c, self.fn, cost_function=cost, bin_evaluation=ref.normal_cdf, dynamic_error_algorithm=self.dea, **kw)
            elif self.ftype == "unbinned":
                self.fn = ref.normal_density
                self.fit = k2.UnbinnedFit(y, self.fn, cost_function=self.cost_id, **kw)
        self.par_names = list(self.fit.parameter_names)
        self.pv = collections.OrderedDict((p, float(v)) for p, v in zip(self.par_names, self.fit.parameter_values))
        self.defaults = collections.OrderedDict(self.pv)
        self.con_specs = ref.constraint_specs(self.par_names, self.defaults)

    # -- points in parameter space ------------------------------------------------------
    def point(self, pid):
        d = self.defaults
        if pid == "P0":
            return collections.OrderedDict(d)
        if pid == "P1":
            return collections.OrderedDict((p, v * 1.15 + 0.1) for p, v in d.items())
        if pid == "P2":
            return collections.OrderedDict((p, v * 0.8 - 0.05 * (i + 1)) for i, (p, v) in enumerate(d.items()))
        raise KeyError(pid)

    # -- operations ---------------------------------------------------------------------
    def apply(self, op):
        f = self.fit
        k = op[0]
        with warnings.catch_warnings():
            warnings.simplefilter("ignore")
            if k == "add":
                _, kind, name = op[:3]
                meth, kw = ref.kind_call(kind, self.val, axis_as=(op[3] if len(op) > 3 else "str"))
                if self.ftype != "xy":
                    kw.pop("axis")
                getattr(f, meth)(name=name, **kw)
                self.sources[name] = [kind, True]
                self.implicit_no_errors = False
            elif k == "dis":
                f.disable_error(op[1])
                self._src(op[1])[1] = False
                self.implicit_no_errors = False
            elif k == "en":
                f.enable_error(op[1])
                self._src(op[1])[1] = True
                self.implicit_no_errors = False
            elif k == "con":
                s = self.con_specs[op[1]]
                if s["form"] == "simple":
                    f.add_parameter_constraint(name=s["name"], value=s["value"], uncertainty=s["uncertainty"], relative=s["relative"])
                else:
                    f.add_matrix_parameter_constraint(
                        names=s["names"], values=s["values"], matrix=s["matrix"], matrix_type=s["matrix_type"], uncertainties=s.get("uncertainties"), relative=s["relative"]
                    )
                self.cons.append(op[1])
            elif k == "set":
                d = op[1] if isinstance(op[1], dict) else self.point(op[1])
                f.set_parameter_values(**d)
                self.pv.update((p, float(v)) for p, v in d.items())
                self.fixed.update((p, float(v)) for p, v in d.items() if p in self.fixed)  # a fixed parameter stays fixed, at the value it is given
                self.fitted = False
            elif k == "setall":
                vals = op[1] if not isinstance(op[1], str) else list(self.point(op[1]).values())
                f.set_all_parameter_values(list(vals))
                for p, v in zip(self.par_names, vals):
                    self.pv[p] = float(v)
                    if p in self.fixed:
                        self.fixed[p] = float(v)
                self.fitted = False
            elif k == "fix":
                if len(op) > 2 and op[2] is not None:
                    f.fix_parameter(op[1], op[2])
                    self.pv[op[1]] = float(op[2])
                    self.fitted = False
                else:
                    f.fix_parameter(op[1])
                self.fixed[op[1]] = self.pv[op[1]]
            elif k == "rel":
                f.release_parameter(op[1])
                self.fixed.pop(op[1], None)
            elif k == "lim":
                f.limit_parameter(op[1], op[2], op[3])
                self.limits[op[1]] = (op[2], op[3])
            elif k == "unlim":
                f.unlimit_parameter(op[1])
                self.limits.pop(op[1], None)
            elif k == "data":
                self._set_data(op[1])
            elif k == "fit":
                f.do_fit()
                self.fitted = True
                for p, v in zip(self.par_names, f.parameter_values):
                    self.pv[p] = float(v)
            else:
                raise ValueError(op)

    def _src(self, name):
        if name in self.sources:
            return self.sources[name]
        return self.container_sources[name]

    def _set_data(self, variant):
        k2, f = self.k2, self.fit
        x, y = self._data_arrays("alt")
        if variant == "alt":
            if self.ftype == "xy":
                f.data = [x, y]
            elif self.ftype in ("indexed", "unbinned"):
                f.data = y
            else:
                c = k2.HistContainer(n_bins=len(HIST_EDGES) - 1, bin_range=(HIST_EDGES[0], HIST_EDGES[-1]), bin_edges=list(HIST_EDGES), fill_data=list(y))
                f.data = c
            new_sources = collections.OrderedDict()
        elif variant == "altc":
            new_sources = collections.OrderedDict()
            if self.ftype == "xy":
                c = k2.XYContainer(x, y)
                c.add_error("y", self.val.ey2, name="cy", correlation=self.val.rho2)
                c.add_error("x", self.val.ex2, name="cx")
                new_sources["cy"] = ["y-abs-rho-c", True]
                new_sources["cx"] = ["x-abs-c", True]
            elif self.ftype == "indexed":
                c = k2.IndexedContainer(y)
                c.add_error(self.val.ey2, name="cy", correlation=self.val.rho2)
                new_sources["cy"] = ["y-abs-rho-c", True]
            else:
                raise ValueError("altc not defined for %s" % self.ftype)
            f.data = c
        else:
            raise ValueError(variant)
        self.data_variant = "alt"
        # data-referenced sources live in the replaced container and disappear with it;
        # (histories with model-referenced sources are not generated together with data replacement)
        for name in [n for n, (kind, en) in self.sources.items() if ref.KINDS[kind][3] == "data"]:
            del self.sources[name]
        self.container_sources = new_sources
        if new_sources:
            self.implicit_no_errors = False

    # -- reference values ---------------------------------------------------------------
    def ref_data(self):
        x, y = self._data_arrays(self.data_variant)
        if self.ftype == "hist":
            return x, hist_counts(y)
        return x, np.asarray(y, dtype=float)

    def ref_model(self, pv=None):
        pv = self.pv if pv is None else pv
        x, d = self.ref_data()
        args = [pv[p] for p in self.par_names]
        if self.ftype == "xy":
            return self.fn(x, *args)
        if self.ftype == "indexed":
            return self.fn(*args)
        if self.ftype == "hist":
            if self.model_key == "normal_counts":
                cdf = ref.normal_counts_cdf(HIST_EDGES, *args)
                return cdf[1:] - cdf[:-1]
            cdf = ref.normal_cdf(HIST_EDGES, *args)
            return (cdf[1:] - cdf[:-1]) * float(len(self._data_arrays(self.data_variant)[1]))
        return self.fn(d, *args)

    def _kind_cov(self, kind, values):
        if kind == "y-abs-rho-c":
            sig = self.val.ey2
            cov = np.outer(sig, sig) * self.val.rho2
            cov[np.diag_indices(len(sig))] = sig**2
            return "y", cov
        if kind == "x-abs-c":
            return "x", np.diag(self.val.ex2**2)
        return ref.KINDS[kind][0], ref.source_cov(kind, self.val, values)

    def ref_covs(self, pv=None):
        """-> dict with x/y data/model/total covariances and the projected total"""
        pv = self.pv if pv is None else pv
        x, d = self.ref_data()
        m = self.ref_model(pv)
        n = len(d)
        out = {k: np.zeros((n, n)) for k in ("x_data", "y_data", "x_model", "y_model")}
        allsrc = list(self.sources.items()) + list(self.container_sources.items())
        for name, (kind, en) in allsrc:
            if not en:
                continue
            container = "data" if kind.endswith("-c") else ref.KINDS[kind][3]
            axis0 = "y" if kind.endswith("-c") and kind.startswith("y") else ("x" if kind.endswith("-c") else ref.KINDS[kind][0])
            if axis0 == "x":
                values = x
            else:
                values = d if container == "data" else m
            axis, cov = self._kind_cov(kind, values)
            out["%s_%s" % (axis, container)] += cov
        out["x_total"] = out["x_data"] + out["x_model"]
        out["y_total"] = out["y_data"] + out["y_model"]
        if self.ftype == "xy":
            sx = np.sqrt(np.diag(out["x_total"]))
            dx = 0.01 * sx
            dflt = 1e-2 * (np.abs(x) + 1.0 / (1.0 + np.abs(x)))
            dx = np.where(dx == 0, dflt, dx)
            args = [pv[p] for p in self.par_names]
            fp = 0.5 * (self.fn(x + dx, *args) - self.fn(x - dx, *args)) / dx
            out["slope"] = fp
            out["total"] = out["y_total"] + out["x_total"] * np.outer(fp, fp)
        else:
            out["total"] = out["y_total"]
        return out

    def ref_constraint_cost(self, pv=None):
        pv = self.pv if pv is None else pv
        return sum(ref.constraint_cost(self.con_specs[c], pv) for c in self.cons)

    def ref_cost(self, pv=None, with_det=True, model_is_data=False, cov_pv=None):
        """cov_pv: evaluate the covariance at these parameters instead of pv (objective of the iterative algorithm)"""
        pv = self.pv if pv is None else pv
        x, d = self.ref_data()
        if self.ftype == "unbinned":
            return -2.0 * float(np.sum(np.log(self.ref_model(pv)))) + self.ref_constraint_cost(pv)
        m = self.ref_model(pv)
        V_ = self.ref_covs(pv if cov_pv is None else cov_pv)["y_total" if self.cost_id == "chi2:axes_y" else "total"]
        c, det = ref.core_cost(self.cost_id, d, d if model_is_data else m, V_, implicit_no_errors=self.implicit_no_errors)
        if not with_det:
            c -= det
        return c + (0.0 if model_is_data else self.ref_constraint_cost(pv))

    def ref_ndf(self):
        x, d = self.ref_data()
        extra = sum(ref.constraint_ndf(self.con_specs[c]) for c in self.cons)
        return len(d) + extra - len(self.par_names) + len(self.fixed)

    def n_enabled(self):
        return sum(1 for k, en in list(self.sources.values()) + list(self.container_sources.values()) if en)

    def has_model_sources(self):
        return any(ref.KINDS[k][3] == "model" for k, en in self.sources.values())

    def dispose(self):
        """kafe2 fits are never freed once a minimizer object exists: the iminuit object (a C++ extension type the cycle collector
        cannot traverse) holds the cost wrapper of the adapter that owns it. Explorers that build ~1e5 worlds per run break
        that cycle by hand when they are done with a world (harness hygiene only - no observation is made afterwards)."""
        release_fit(getattr(self, "fit", None))
        self.fit = None

    # -- observation of the real fit ----------------------------------------------------
    def eval_grid(self):
        """user points for the evaluation methods: inside and outside the data range, and NOT as many as there are data points"""
        if self.ftype == "xy":
            x = np.asarray(self._data_arrays(self.data_variant)[0], dtype=float)
            return np.linspace(x.min() - 0.5 * self.val_xscale(), x.max() + 0.5 * self.val_xscale(), 5)
        return np.linspace(0.2, 5.7, 7)

    def val_xscale(self):
        x = np.asarray(self.val.x, dtype=float)
        return float(np.median(np.abs(np.diff(x)))) or 1.0

    CALLS = {
        "xy": ["eval_model_function", "eval_model_function_derivative_by_parameters", "error_band"],
        "indexed": [],
        "hist": ["eval_model_function_density"],
        "unbinned": ["eval_model_function"],
    }

    def call_names(self):
        """observable names 'call:<method>:<arguments>' of this fit type; arguments: grid = x at eval_grid(), pars = explicit
        model_parameters (the point P2), grid+pars = both"""
        out = []
        for m in self.CALLS[self.ftype]:
            out.append("call:%s:grid" % m)
            if m != "error_band":
                out.append("call:%s:grid+pars" % m)
                if self.ftype in ("xy", "unbinned"):
                    out.append("call:%s:pars" % m)
        return out

    def call_observable(self, name):
        _, meth, spec = name.split(":")
        kw = {}
        if "grid" in spec:
            kw["x"] = self.eval_grid()
        if "pars" in spec:
            kw["model_parameters"] = [float(x) for x in self.point("P2").values()]
        return getattr(self.fit, meth)(**kw)

    def ref_call(self, name, pv=None):
        """reference value of the evaluation methods that are plain model evaluations (None where no closed form is kept here)"""
        _, meth, spec = name.split(":")
        if meth not in ("eval_model_function", "eval_model_function_density"):
            return None
        pv = self.pv if pv is None else pv
        args = [float(x) for x in self.point("P2").values()] if "pars" in spec else [pv[p] for p in self.par_names]
        x = self.eval_grid() if "grid" in spec else (self.ref_data()[0] if self.ftype == "xy" else self.ref_data()[1])
        return self.fn(x, *args)

    def observe(self, name):
        """Public-API observation, canonicalised to plain python (lists/floats/None) or ('EXC', type)."""
        f = self.fit
        try:
            with warnings.catch_warnings():
                warnings.simplefilter("ignore")
                if name == "report":
                    s = io.StringIO()
                    f.report(s)
                    return _strip_report(s.getvalue())
                if name == "result_dict":
                    return canon(f.get_result_dict())
                if name.endswith(":none"):  # only whether the quantity is reported at all
                    return getattr(f, name[:-5]) is None
                if name.startswith("call:"):  # a public evaluation METHOD with arguments (see call_observable)
                    v = self.call_observable(name)
                elif name == "model_property":  # the property called `model` as it is (for an xy fit: x and y rows)
                    v = f.model
                elif name == "model":
                    v = f.y_model if self.ftype == "xy" else f.model
                else:
                    v = getattr(f, name)
                return canon(v)
        except RecursionError:
            return ("EXC", "RecursionError")
        except Exception as e:  # noqa: BLE001
            return ("EXC", type(e).__name__)


def release_fit(f):
    """break the fit <-> fitter <-> minimizer <-> Minuit reference cycle of a fit that is not used any more"""
    if f is None:
        return
    for sub in getattr(f, "fits", None) or getattr(f, "_fits", None) or []:
        release_fit(sub)
    try:
        f._fitter._minimizer.__dict__.clear()
    except Exception:  # noqa: BLE001
        pass


def d_all(world):
    x, y = world._data_arrays(world.data_variant)
    return np.ones(len(y))


def canon(v):
    if v is None or isinstance(v, (bool, str)):
        return v
    if isinstance(v, (int, np.integer)):
        return int(v)
    if isinstance(v, (float, np.floating)):
        return float(v)
    if isinstance(v, np.ndarray):
        return canon(v.tolist())
    if isinstance(v, dict):
        return {str(k): canon(x) for k, x in v.items()}
    if isinstance(v, (list, tuple)):
        return [canon(x) for x in v]
    return repr(type(v))


def _strip_report(s):
    return s


def close(a, b, rtol=1e-9, atol=1e-12):
    """Structural comparison of canonical observations."""
    if isinstance(a, tuple) or isinstance(b, tuple):
        return a == b
    if a is None or b is None or isinstance(a, (str, bool)) or isinstance(b, (str, bool)):
        return a == b
    if isinstance(a, dict) and isinstance(b, dict):
        return set(a) == set(b) and all(close(a[k], b[k], rtol, atol) for k in a)
    if isinstance(a, list) and isinstance(b, list):
        return len(a) == len(b) and all(close(x, y, rtol, atol) for x, y in zip(a, b))
    if isinstance(a, (int, float)) and isinstance(b, (int, float)):
        if a != a or b != b:
            return a != a and b != b
        if a in (float("inf"), float("-inf")) or b in (float("inf"), float("-inf")):
            return a == b
        return abs(a - b) <= atol + rtol * max(abs(a), abs(b))
    return False


def scale_of(x):
    if isinstance(x, (int, float)):
        return abs(x)
    if isinstance(x, list) and x:
        return max(scale_of(y) for y in x)
    if isinstance(x, dict) and x:
        return max(scale_of(y) for y in x.values())
    return 0.0


def close_scaled(a, b, rtol=1e-9):
    """Like close() but with an absolute floor relative to the largest entry (matrices with exact zeros)."""
    a, b = _c(a), _c(b)
    s = max(scale_of(a), scale_of(b))
    return bool(close(a, b, rtol=rtol, atol=rtol * s + 1e-300))


def _c(v):
    if isinstance(v, tuple) and len(v) == 2 and v[0] == "EXC":
        return v
    return canon(v)
