"""C09 world: builders for every serialisable kafe2 object kind from a JSON-able spec, public-API observers,
and a structural comparison.  Used by checks/c09_roundtrip.py only.

All model / cost functions here are SELF-CONTAINED (numpy only, no closure, no other module globals): kafe2 stores
the def-source of a function and re-executes it in a namespace that offers ``np`` (and ``scipy``) only, so a
function that needs anything else is outside the property ("model functions given as def-source or library names").
"""
import collections
import io
import re
import warnings

import numpy as np

from . import ref
from .valuations import V



def canon(v):
    """plain-python canonical form of an observation"""
    if v is None or isinstance(v, (bool, str)):
        return v
    if isinstance(v, np.bool_):
        return bool(v)
    if isinstance(v, (int, np.integer)):
        return int(v)
    if isinstance(v, (float, np.floating)):
        return float(v)
    if isinstance(v, np.ndarray):
        return canon(v.tolist())
    if isinstance(v, dict):
        return {str(k): canon(x) for k, x in v.items()}
    if isinstance(v, (list, tuple)):
        return [canon(x) for x in v]
    return repr(type(v))


# ---------------------------------------------------------------------------------------
# model functions handed to kafe2 (their def-source is what gets serialised)


def lin(x, a=1.1, b=0.4):
    return a * x + b


def expo(x, A0=1.4, k=0.25):
    return A0 * np.exp(k * x)


def lin_nano(x, a=1.1, b=0.4):
    return 1e-9 * (a * x + b)


def idx2(a=1.2, b=0.7):
    return a * (1.0 + 0.1 * np.cos(1.3 * np.arange(8))) + b * (0.5 * np.arange(8) + 0.2) + 0.3


def idx2_nano(a=1.2, b=0.7):
    return 1e-9 * (a * (1.0 + 0.1 * np.cos(1.3 * np.arange(8))) + b * (0.5 * np.arange(8) + 0.2) + 0.3)


def normal_density(x, mu=2.9, sigma=1.6):
    return np.exp(-0.5 * ((x - mu) / sigma) ** 2) / np.sqrt(2.0 * np.pi * sigma**2)


def parab_density(x, a=1.5, b=-0.25):
    return (1.0 + a * x + b * x * x) / (6.0 + 18.0 * a + 72.0 * b)


def parab_density_antiderivative(x, a=1.5, b=-0.25):
    return (x + a * x * x / 2.0 + b * x * x * x / 3.0) / (6.0 + 18.0 * a + 72.0 * b)


def custom_cost(a=1.5, b=0.7):
    return ((a - 1.2) / 0.05) ** 2 + ((b - 0.5) / 0.04) ** 2 + 0.8 * (a - 1.2) * (b - 0.5) / 0.002 + 0.01 * (a * b) ** 2


def user_cost_xy(y_data, y_model):
    return np.sum(((y_data - y_model) / 0.3) ** 2)


def user_cost_idx(data, model):
    return np.sum(((data - model) / 0.3) ** 2)


FUNCS = dict(
    lin=lin,
    expo=expo,
    lin_nano=lin_nano,
    idx2=idx2,
    idx2_nano=idx2_nano,
    normal=normal_density,
    parab=parab_density,
)
# model functions given as strings (library name / SymPy style); kafe2 resolves them itself
FUNCS["lib-linear"] = "linear_model"
FUNCS["sympy-lin"] = "slin: x a=1.1 b=0.4 -> a * x + b"
FUNCS["sympy-exp"] = "sexp: x A0=1.4 k=0.25 -> A0 * exp(k * x)"

N = 8  # data points of xy / indexed objects (fitted problems need >= 8 points, DESIGN 3.4)
HIST_EDGES = [0.0, 1.0, 2.0, 3.5, 4.5, 6.0]
HIST_ENTRIES = [0.3, 0.8, 1.1, 1.4, 1.7, 1.9, 2.2, 2.4, 2.5, 2.7, 2.9, 3.0, 3.2, 3.3, 3.6, 3.8, 4.1, 4.4, 4.6, 4.9, 5.3, 5.8, 2.1, 2.8, 3.1, 1.5, 3.9, 0.6, 4.2, 2.6]



def _entries(n=150, mu=3.0, sigma=1.25):
    from scipy.special import ndtri

    q = mu + sigma * ndtri((np.arange(n) + 0.5) / n)
    q = q + 0.11 * np.sin(1.7 * np.arange(n))
    return [float(round(x, 6)) for x in q if 0.0 <= x < 6.0]


HIST_ENTRIES = _entries()
HIST_OUTSIDE = [-0.7, -0.2, 6.4]  # two underflow entries, one overflow entry (underflow != overflow)
HIST_HEIGHTS = [15.0, 31.0, 56.0, 27.0, 19.0]
UNB_DATA = HIST_ENTRIES

# extra source kinds (not in ref.KINDS): near-constant and tiny-magnitude vectors
EXTRA = collections.OrderedDict(
    [
        ("y-near", ("y", "near")),  # 0.2 * (1 + 1e-6 * k): differs from a constant in the 6th digit
        ("x-near", ("x", "near")),
        ("y-tiny", ("y", "tiny")),  # O(1e-10) vector, entries differ by factors 1..3
        ("y-cor-near", ("y", "cor-near")),  # correlation-matrix source with a near-constant err_val vector
    ]
)


def _near(n):
    return 0.2 * (1.0 + 1e-6 * np.array([0, 3, 1, 4, 2, 5, 7, 6, 9, 8, 11, 10])[:n])


def _tiny(n):
    return 1e-10 * np.array([1.0, 3.0, 2.0, 2.5, 1.5, 3.5, 1.2, 2.2, 3.1, 1.7, 2.9, 1.1])[:n]


def kind_axis(kind):
    if kind in EXTRA:
        return EXTRA[kind][0]
    return ref.KINDS[kind][0]


def kind_reference(kind):
    if kind in EXTRA:
        return "data"
    return ref.KINDS[kind][3]


def source_call(kind, val, n):
    """-> (method name, kwargs incl. axis / reference; the caller drops what its API does not have)"""
    if kind in EXTRA:
        axis, form = EXTRA[kind]
        if form == "near":
            return "add_error", dict(axis=axis, err_val=_near(n), correlation=0.0, relative=False, reference="data")
        if form == "tiny":
            return "add_error", dict(axis=axis, err_val=_tiny(n), correlation=0.0, relative=False, reference="data")
        if form == "cor-near":
            return "add_matrix_error", dict(axis=axis, err_matrix=val.C, matrix_type="cor", err_val=_near(n), relative=False, reference="data")
    return ref.kind_call(kind, val)


def add_source(obj, kind, name, val, n, has_axis, has_reference):
    meth, kw = source_call(kind, val, n)
    if not has_axis:
        kw.pop("axis")
    if not has_reference:
        kw.pop("reference")
    if meth == "add_matrix_error" and "err_val" in kw and kw["err_val"] is None:
        kw.pop("err_val")
    getattr(obj, meth)(name=name, **kw)


# ---------------------------------------------------------------------------------------
# parameter points


def point(defaults, pid):
    d = collections.OrderedDict(defaults)
    if pid == "P0":
        return d
    if pid == "P1":
        return collections.OrderedDict((p, v * 1.15 + 0.1) for p, v in d.items())
    if pid == "P2":
        return collections.OrderedDict((p, v * 0.8 - 0.05 * (i + 1)) for i, (p, v) in enumerate(d.items()))
    if pid == "P3":
        return collections.OrderedDict((p, v * 1.07 + 0.03 * (i + 1)) for i, (p, v) in enumerate(d.items()))
    raise KeyError(pid)


# ---------------------------------------------------------------------------------------
# builders


def _k2():
    import kafe2

    return kafe2


_WIGGLE = np.array([0.5, -0.8, 0.3, 1.0, -0.6, 0.2, -1.0, 0.7])


def _data(dtype, v, variant="base", poisson=False, model=None):
    """data of the valuation; for exponential models the y values follow an exponential (fitted problems must be
    well-posed, DESIGN 3.4), for everything else the (roughly linear) base data"""
    val = V(v, N)
    if dtype == "xy":
        y = val.y + 2.0  # intercept well away from zero: relative parameter uncertainties stay below 15 %
        if model in ("expo", "sympy-exp"):
            y = 1.3 * np.exp(0.27 * val.x) * (1.0 + 0.05 * _WIGGLE) * (1.0 + 0.15 * v)
        if poisson:
            y = np.round(y * 3.0 + 2.0)
        if variant == "nano":
            return val.x, y * 1e-9
        return val.x, y
    if dtype == "indexed":
        y = (val.yint + 9.0) if poisson else (val.y + 3.0)
        if variant == "nano":
            return None, y * 1e-9
        return None, y
    raise ValueError(dtype)


def build_container(spec):
    k2 = _k2()
    ct, v = spec["ctype"], spec["v"]
    val = V(v, N)
    if ct == "indexed":
        c = k2.IndexedContainer(_data("indexed", v, spec.get("variant", "base"))[1])
        n = N
    elif ct == "xy":
        x, y = _data("xy", v, spec.get("variant", "base"))
        c = k2.XYContainer(x, y)
        n = N
    elif ct == "hist-fill":
        c = k2.HistContainer(n_bins=len(HIST_EDGES) - 1, bin_range=(HIST_EDGES[0], HIST_EDGES[-1]), bin_edges=list(HIST_EDGES), fill_data=HIST_ENTRIES + HIST_OUTSIDE)
        n = len(HIST_EDGES) - 1
        val = V(v, n)
    elif ct == "hist-set":
        c = k2.HistContainer(n_bins=len(HIST_EDGES) - 1, bin_range=(HIST_EDGES[0], HIST_EDGES[-1]), bin_edges=list(HIST_EDGES))
        c.set_bins(HIST_HEIGHTS, underflow=1 + v, overflow=7 + 2 * v)
        n = len(HIST_EDGES) - 1
        val = V(v, n)
    elif ct == "hist-equi":
        c = k2.HistContainer(n_bins=6, bin_range=(0.0, 6.0), fill_data=HIST_ENTRIES + HIST_OUTSIDE)
        n = 6
        val = V(v, n)
    elif ct == "unbinned":
        c = k2.UnbinnedContainer(UNB_DATA)
        n = len(UNB_DATA)
    else:
        raise ValueError(ct)
    for i, (kind, en) in enumerate(spec.get("sources", [])):
        add_source(c, kind, "e%d" % i, val, n, has_axis=(ct == "xy"), has_reference=False)
    for i, (kind, en) in enumerate(spec.get("sources", [])):
        if not en:
            c.disable_error("e%d" % i)
    if spec.get("labels"):
        c.label = "my data %d" % v
        c.axis_labels = ("t [s]", "U [V]")
    return c


def build_model(spec):
    from kafe2.fit.histogram import HistParametricModel
    from kafe2.fit.indexed import IndexedParametricModel
    from kafe2.fit.unbinned import UnbinnedParametricModel
    from kafe2.fit.xy import XYParametricModel

    mt, v = spec["mtype"], spec["v"]
    val = V(v, N)
    fn = FUNCS[spec["model"]]
    from kafe2.fit._base import ModelFunctionBase

    defaults = ModelFunctionBase(fn, independent_argcount=0 if mt == "indexed" else 1).defaults_dict
    pars = list(point(defaults, spec.get("pars", "P0")).values())
    if mt == "xy":
        m = XYParametricModel(val.x, fn, pars)
        n = N
    elif mt == "indexed":
        m = IndexedParametricModel(fn, pars, shape_like=np.zeros(N))
        n = N
    elif mt == "hist":
        kw = {}
        if spec.get("bin_evaluation"):
            be = spec["bin_evaluation"]
            kw["bin_evaluation"] = parab_density_antiderivative if be == "antiderivative" else be
        m = HistParametricModel(n_bins=len(HIST_EDGES) - 1, bin_range=(HIST_EDGES[0], HIST_EDGES[-1]), model_density_func=fn, model_parameters=pars, bin_edges=list(HIST_EDGES), **kw)
        n = len(HIST_EDGES) - 1
        val = V(v, n)
    elif mt == "unbinned":
        m = UnbinnedParametricModel(UNB_DATA, fn, pars)
        n = len(UNB_DATA)
    else:
        raise ValueError(mt)
    for i, (kind, en) in enumerate(spec.get("sources", [])):
        add_source(m, kind, "e%d" % i, val, n, has_axis=(mt == "xy"), has_reference=False)
    for i, (kind, en) in enumerate(spec.get("sources", [])):
        if not en:
            m.disable_error("e%d" % i)
    if spec.get("labels"):
        m.label = "my model %d" % v
    return m


MODEL_FUNCTIONS = collections.OrderedDict(
    [
        ("base-def", ("base", "lin")),
        ("base-def-expo", ("base", "expo")),
        ("base-lib-linear", ("base", "linear_model")),
        ("base-lib-quadratic", ("base", "quadratic")),
        ("base-lib-exp", ("base", "exponential_model")),
        ("base-lib-normal", ("base", "normal_distribution")),
        ("base-sympy", ("base", "f: x a b -> a * x + b")),
        ("base-sympy-defaults", ("base", "g: x A0=1.4 k=0.25 -> A0 * exp(k * x)")),
        ("indexed-def", ("indexed", "idx2")),
        ("hist-def", ("hist", "normal")),
        ("hist-lib-normal", ("hist", "normal_distribution")),
    ]
)


def build_modelfunc(spec):
    from kafe2.fit._base import ModelFunctionBase
    from kafe2.fit.histogram import HistModelFunction
    from kafe2.fit.indexed import IndexedModelFunction

    cls_key, f = MODEL_FUNCTIONS[spec["mf"]]
    cls = dict(base=ModelFunctionBase, indexed=IndexedModelFunction, hist=HistModelFunction)[cls_key]
    mf = cls(FUNCS.get(f, f))
    if spec.get("fmt"):
        fm = mf.formatter
        fm.latex_name = r"\varphi"
        fm.name = "phi"
        pn = [a.name for a in fm.arg_formatters]
        fm.expression_format_string = " + ".join("{%s}" % p for p in pn)
        fm.latex_expression_format_string = r" \oplus ".join("{%s}" % p for p in pn)
        for i, a in enumerate(fm.arg_formatters):
            if spec["fmt"] == 2:  # arguments renamed for display as well
                a.name = "arg%d" % i
            a.latex_name = r"\alpha_{%d}" % i
    return mf


FORMATTERS = ["function-base", "function-base-custom", "function-base-renamed", "function-indexed", "function-indexed-custom", "function-indexed-renamed", "parameter", "parameter-custom"]


def build_formatter(spec):
    """the formatter objects offer to_file / from_file themselves (they are also embedded in model functions)"""
    from kafe2.fit._base import ParameterFormatter

    key = spec["f"]
    if key.startswith("function"):
        mf = build_modelfunc(dict(mf="indexed-def" if "indexed" in key else "base-def", fmt=2 if key.endswith("renamed") else int(key.endswith("custom"))))
        fm = mf.formatter
        if "indexed" in key and not key.endswith("indexed"):
            fm.index_name = "j"
            fm.latex_index_name = r"\jmath"
        return fm
    if key == "parameter":
        return ParameterFormatter("tau")
    return ParameterFormatter("tau", name="lifetime", latex_name=r"\tau_{\mu}")


def observe_formatter(fm):
    from kafe2.fit._base import ParameterFormatter

    o = collections.OrderedDict()
    o["class"] = type(fm).__name__
    o["name"] = _get(lambda: fm.name)
    o["latex_name"] = _get(lambda: fm.latex_name)
    if isinstance(fm, ParameterFormatter):
        o["arg_name"] = _get(lambda: fm.arg_name)
        for latex in (False, True):
            o["formatted:%s" % ("latex" if latex else "plain")] = _get(lambda latex=latex: fm.get_formatted(with_name=True, with_value=False, with_errors=False, format_as_latex=latex))
        return o
    o["expression"] = _get(lambda: fm.expression_format_string)
    o["latex_expression"] = _get(lambda: fm.latex_expression_format_string)
    o["args"] = _get(lambda: [(a.arg_name, a.name, a.latex_name) for a in fm.arg_formatters])
    if hasattr(fm, "index_name"):
        o["index_name"] = _get(lambda: fm.index_name)
        o["latex_index_name"] = _get(lambda: fm.latex_index_name)
    for latex in (False, True):
        o["formatted:%s" % ("latex" if latex else "plain")] = _get(lambda latex=latex: fm.get_formatted(with_par_values=False, with_expression=True, format_as_latex=latex))
    return o


CONSTRAINTS = collections.OrderedDict(
    [
        # relative constraints on values != 1; every field distinct
        ("simple-abs", dict(form="simple", index=1, value=2.3, uncertainty=0.35, relative=False)),
        ("simple-rel", dict(form="simple", index=0, value=2.6, uncertainty=0.15, relative=True)),
        ("matrix-cov-abs", dict(form="matrix", indices=[0, 2], values=[1.7, 0.6], matrix=[[0.09, 0.012], [0.012, 0.04]], matrix_type="cov", relative=False)),
        ("matrix-cov-rel", dict(form="matrix", indices=[2, 0], values=[1.7, 0.6], matrix=[[0.02, 0.003], [0.003, 0.05]], matrix_type="cov", relative=True)),
        ("matrix-cor-abs", dict(form="matrix", indices=[1, 0], values=[0.6, 1.7], matrix=[[1.0, 0.3], [0.3, 1.0]], matrix_type="cor", uncertainties=[0.25, 0.4], relative=False)),
        ("matrix-cor-rel", dict(form="matrix", indices=[0, 1], values=[0.6, 1.7], matrix=[[1.0, -0.45], [-0.45, 1.0]], matrix_type="cor", uncertainties=[0.12, 0.2], relative=True)),
        ("matrix3-cov-abs", dict(form="matrix", indices=[2, 0, 1], values=[0.9, 1.7, 0.6], matrix=[[0.05, 0.004, 0.002], [0.004, 0.09, 0.012], [0.002, 0.012, 0.04]], matrix_type="cov", relative=False)),
    ]
)


def build_constraint(spec):
    from kafe2.core.constraint import GaussianMatrixParameterConstraint, GaussianSimpleParameterConstraint

    s = CONSTRAINTS[spec["c"]]
    if s["form"] == "simple":
        return GaussianSimpleParameterConstraint(index=s["index"], value=s["value"], uncertainty=s["uncertainty"], relative=s["relative"])
    return GaussianMatrixParameterConstraint(indices=s["indices"], values=s["values"], matrix=s["matrix"], matrix_type=s["matrix_type"], uncertainties=s.get("uncertainties"), relative=s["relative"])


# fits ----------------------------------------------------------------------------------

FIT_MODELS = dict(xy=["lin", "expo"], indexed=["idx2"], hist=["normal"], unbinned=["normal"], custom=["custom"])
POISSON_COSTS = ("nll", "nllr", "nll-poisson", "nllr-poisson", "gauss_approximation", "poisson")


def fit_constraint_specs(par_names, defaults):
    return ref.constraint_specs(par_names, defaults)


def build_fit(spec):
    """spec: ftype, v, model, cost, sources [(kind, enabled)], pstate, state, labels, minimizer, variant"""
    k2 = _k2()
    ft, v = spec["ftype"], spec["v"]
    cost = spec.get("cost")
    variant = spec.get("variant", "base")
    minimizer = spec.get("minimizer", "iminuit")
    kw = dict(minimizer=minimizer)
    if spec.get("dea"):
        kw["dynamic_error_algorithm"] = spec["dea"]
    poisson = cost in POISSON_COSTS
    val = V(v, N)
    n = N
    if cost == "user":
        cost_arg = dict(xy=user_cost_xy, indexed=user_cost_idx)[ft]
    else:
        cost_arg = cost
    with warnings.catch_warnings():
        warnings.simplefilter("ignore")
        if ft == "xy":
            x, y = _data("xy", v, variant, poisson, spec["model"])
            fit = k2.XYFit([x, y], FUNCS[spec["model"]], **(dict(cost_function=cost_arg, **kw) if cost else kw))
        elif ft == "indexed":
            _, y = _data("indexed", v, variant, poisson)
            fit = k2.IndexedFit(y, FUNCS[spec["model"]], **(dict(cost_function=cost_arg, **kw) if cost else kw))
        elif ft == "hist":
            n = len(HIST_EDGES) - 1
            val = V(v, n)
            if spec.get("hist_data") == "set":
                c = k2.HistContainer(n_bins=n, bin_range=(HIST_EDGES[0], HIST_EDGES[-1]), bin_edges=list(HIST_EDGES))
                c.set_bins(HIST_HEIGHTS, underflow=1, overflow=7)
            else:
                c = k2.HistContainer(n_bins=n, bin_range=(HIST_EDGES[0], HIST_EDGES[-1]), bin_edges=list(HIST_EDGES), fill_data=HIST_ENTRIES + HIST_OUTSIDE)
            hkw = dict(kw)
            if spec.get("bin_evaluation"):
                be = spec["bin_evaluation"]
                hkw["bin_evaluation"] = parab_density_antiderivative if be == "antiderivative" else be
            if spec.get("density") is not None:
                hkw["density"] = spec["density"]
            fit = k2.HistFit(c, FUNCS[spec["model"]], **(dict(cost_function=cost_arg, **hkw) if cost else hkw))
        elif ft == "unbinned":
            n = len(UNB_DATA)
            kw.pop("dynamic_error_algorithm", None)
            fit = k2.UnbinnedFit(UNB_DATA, FUNCS[spec["model"]], **(dict(cost_function=cost_arg, **kw) if cost else kw))
        elif ft == "custom":
            kw.pop("dynamic_error_algorithm", None)
            fit = k2.CustomFit(custom_cost, **kw)
        else:
            raise ValueError(ft)
        par_names = list(fit.parameter_names)
        defaults = collections.OrderedDict((p, float(x)) for p, x in zip(par_names, fit.parameter_values))
        for i, (kind, en) in enumerate(spec.get("sources", [])):
            meth, skw = source_call(kind, val, n)
            if ft != "xy":
                skw.pop("axis")
            if meth == "add_matrix_error" and skw.get("err_val", 0) is None:
                skw.pop("err_val")
            getattr(fit, meth)(name="e%d" % i, **skw)
        for i, (kind, en) in enumerate(spec.get("sources", [])):
            if not en:
                fit.disable_error("e%d" % i)
        cons = fit_constraint_specs(par_names, defaults)
        for tok in (spec.get("pstate") or "none").split("+"):
            _apply_pstate(fit, tok, par_names, defaults, cons)
        if spec.get("labels"):
            if ft != "custom":
                fit.data_container.label = "my data %d" % v
                fit.data_container.axis_labels = ("t [s]", "U [V]")
                fit.model_label = "my model %d" % v
                fit.assign_model_function_latex_name(r"\varphi")
                fit.assign_model_function_latex_expression(r" \oplus ".join("{%s}" % p for p in par_names))
                fit.assign_model_function_expression(" + ".join("{%s}" % p for p in par_names))
            if spec["labels"] == 2:  # parameters renamed for display as well
                fit.assign_parameter_names(**{p: "par_%s" % p for p in par_names})
            fit.assign_parameter_latex_names(**{p: r"\alpha_{%d}" % i for i, p in enumerate(par_names)})
        st = spec.get("state", "unfit")
        if st == "moved":
            fit.set_parameter_values(**_free_only(fit, spec, point(defaults, "P3"), par_names, defaults))
        elif st == "fit":
            fit.do_fit()
        elif st == "asym":
            fit.do_fit(asymmetric_parameter_errors=True)
        elif st != "unfit":
            raise ValueError(st)
    return fit


def fixed_names(spec, par_names):
    out = []
    for tok in (spec.get("pstate") or "none").split("+"):
        if tok in ("fix", "fixval", "fixset", "fixsetall"):
            out.append(par_names[0])
        if tok == "fix2":
            out.append(par_names[1])
    return out


def _free_only(fit, spec, pt, par_names, defaults):
    """assigning a value to a fixed parameter is an operation the statement leaves open (DESIGN 6.2): skip those"""
    fx = set(fixed_names(spec, par_names))
    return collections.OrderedDict((p, x) for p, x in pt.items() if p not in fx)


def _apply_pstate(fit, tok, par_names, defaults, cons):
    p0, p1 = par_names[0], par_names[1]
    if tok == "none":
        return
    if tok == "fix":
        fit.fix_parameter(p0)
    elif tok == "fixval":
        fit.fix_parameter(p0, defaults[p0] * 1.05 + 0.02)
    elif tok == "fix2":
        fit.fix_parameter(p1, defaults[p1] * 0.97 + 0.01)
    elif tok == "lim":  # wide limits, optimum inside
        fit.limit_parameter(p1, defaults[p1] - 5.0 * abs(defaults[p1]) - 1.0, defaults[p1] + 5.0 * abs(defaults[p1]) + 1.0)
    elif tok == "limbite":  # narrow limits around the default: the free optimum lies outside
        fit.limit_parameter(p1, defaults[p1] * 0.995 - 1e-3, defaults[p1] * 1.005 + 1e-3)
    elif tok == "unlimbite":  # narrow limits declared and removed again: the saved fit must not be limited
        fit.limit_parameter(p1, defaults[p1] * 0.995 - 1e-3, defaults[p1] * 1.005 + 1e-3)
        fit.unlimit_parameter(p1)
    elif tok == "fixrel":  # fixed and released again: the saved fit must not hold the parameter fixed
        fit.fix_parameter(p0, defaults[p0] * 1.05 + 0.02)
        fit.release_parameter(p0)
    elif tok == "fixset":  # fixed, then given another value: it stays fixed - at the value it was given last
        fit.fix_parameter(p0, defaults[p0] * 1.05 + 0.02)
        fit.set_parameter_values(**{p0: defaults[p0] * 0.93 - 0.01})
    elif tok == "fixsetall":
        fit.fix_parameter(p0)
        fit.set_all_parameter_values([defaults[p] * (0.93 if i == 0 else 1.02) - 0.01 for i, p in enumerate(par_names)])
    elif tok == "limlow":  # one-sided
        fit.limit_parameter(p0, lower=defaults[p0] - 5.0 * abs(defaults[p0]) - 1.0)
    elif tok.startswith("con-"):
        s = cons[tok[4:]]
        if s["form"] == "simple":
            fit.add_parameter_constraint(name=s["name"], value=s["value"], uncertainty=s["uncertainty"], relative=s["relative"])
        else:
            fit.add_matrix_parameter_constraint(names=s["names"], values=s["values"], matrix=s["matrix"], matrix_type=s["matrix_type"], uncertainties=s.get("uncertainties"), relative=s["relative"])
    else:
        raise ValueError(tok)


def build(spec):
    kind = spec["kind"]
    with warnings.catch_warnings():
        warnings.simplefilter("ignore")
        if kind == "container":
            return build_container(spec)
        if kind == "model":
            return build_model(spec)
        if kind == "modelfunc":
            return build_modelfunc(spec)
        if kind == "constraint":
            return build_constraint(spec)
        if kind == "formatter":
            return build_formatter(spec)
        if kind == "fit":
            return build_fit(spec)
    raise ValueError(kind)


# ---------------------------------------------------------------------------------------
# observers (public API only); every value canonical (plain python) or ('EXC', type name)


def _get(f):
    try:
        with warnings.catch_warnings():
            warnings.simplefilter("ignore")
            return canon(f())
    except RecursionError:
        return ("EXC", "RecursionError")
    except Exception as e:  # noqa: BLE001
        return ("EXC", type(e).__name__)


def _src_names(obj):
    return sorted(obj.get_matching_errors().keys())


def observe_container(c):
    k2 = _k2()
    o = collections.OrderedDict()
    o["class"] = type(c).__name__
    o["size"] = _get(lambda: c.size)
    o["data"] = _get(lambda: c.data)
    o["label"] = _get(lambda: c.label)
    o["axis_labels"] = _get(lambda: list(c.axis_labels))
    o["has_errors"] = _get(lambda: c.has_errors)
    if isinstance(c, k2.UnbinnedContainer):
        return o
    o["source_names"] = _get(lambda: _src_names(c))
    o["source_types"] = _get(lambda: [(n, type(e).__name__, bool(e.relative)) for n, e in sorted(c.get_matching_errors().items())])
    if isinstance(c, k2.XYContainer):
        o["x"] = _get(lambda: c.x)
        o["y"] = _get(lambda: c.y)
        for ax in ("x", "y"):
            o[ax + "_err"] = _get(lambda ax=ax: getattr(c, ax + "_err"))
            o[ax + "_cov_mat"] = _get(lambda ax=ax: getattr(c, ax + "_cov_mat"))
    else:
        o["err"] = _get(lambda: c.err)
        o["cov_mat"] = _get(lambda: c.cov_mat)
    if isinstance(c, k2.HistContainer):
        o["bin_edges"] = _get(lambda: c.bin_edges)
        o["underflow"] = _get(lambda: c.underflow)
        o["overflow"] = _get(lambda: c.overflow)
        o["n_entries"] = _get(lambda: c.n_entries)
        o["raw_data"] = _get(lambda: sorted(c.raw_data))
    return o


def observe_model(m, defaults=None):
    from kafe2.fit.histogram import HistParametricModel
    from kafe2.fit.unbinned import UnbinnedParametricModel
    from kafe2.fit.xy import XYParametricModel

    o = collections.OrderedDict()
    o["class"] = type(m).__name__
    o["parameters"] = _get(lambda: list(m.parameters))
    o["label"] = _get(lambda: m.label)
    o["ndf"] = _get(lambda: m.ndf)
    o["has_errors"] = _get(lambda: m.has_errors)
    if isinstance(m, XYParametricModel):
        o["x"] = _get(lambda: m.x)
    if isinstance(m, HistParametricModel):
        o["bin_edges"] = _get(lambda: m.bin_edges)
        o["bin_evaluation_is_str"] = _get(lambda: isinstance(m.bin_evaluation, str))
        o["bin_evaluation"] = _get(lambda: m.bin_evaluation if isinstance(m.bin_evaluation, str) else "callable")
        o["density"] = _get(lambda: m.density)
    if isinstance(m, UnbinnedParametricModel):
        o["support"] = _get(lambda: m.support)
    def _at(tag):
        o["data@" + tag] = _get(lambda: m.data)
        if not isinstance(m, UnbinnedParametricModel):
            if isinstance(m, XYParametricModel):
                for ax in ("x", "y"):
                    o[ax + "_err@" + tag] = _get(lambda ax=ax: getattr(m, ax + "_err"))
                    o[ax + "_cov_mat@" + tag] = _get(lambda ax=ax: getattr(m, ax + "_cov_mat"))
            else:
                o["err@" + tag] = _get(lambda: m.err)
                o["cov_mat@" + tag] = _get(lambda: m.cov_mat)

    _at("saved")
    if not isinstance(m, UnbinnedParametricModel):
        o["source_names"] = _get(lambda: _src_names(m))
    # the model function itself: evaluate at two further parameter points (same assignment on both objects)
    saved = list(m.parameters)
    for tag, fac in (("Q1", 1.15), ("Q2", 0.8)):
        try:
            m.parameters = [p * fac + 0.05 * (i + 1) for i, p in enumerate(saved)]
        except Exception as e:  # noqa: BLE001
            o["set@" + tag] = ("EXC", type(e).__name__)
            continue
        _at(tag)
    m.parameters = saved
    return o


def observe_modelfunc(mf, evaluate=True):
    o = collections.OrderedDict()
    o["class"] = type(mf).__name__
    o["name"] = _get(lambda: mf.name)
    o["parameter_names"] = _get(lambda: list(mf.parameter_names))
    o["x_name"] = _get(lambda: list(mf.x_name))
    o["argcount"] = _get(lambda: mf.argcount)
    o["parcount"] = _get(lambda: mf.parcount)
    o["defaults"] = _get(lambda: [float(x) for x in mf.defaults])
    fm = mf.formatter
    o["fmt:class"] = type(fm).__name__
    o["fmt:name"] = _get(lambda: fm.name)
    o["fmt:latex_name"] = _get(lambda: fm.latex_name)
    o["fmt:expression"] = _get(lambda: fm.expression_format_string)
    o["fmt:latex_expression"] = _get(lambda: fm.latex_expression_format_string)
    o["fmt:args"] = _get(lambda: [(a.arg_name, a.name, a.latex_name) for a in fm.arg_formatters])
    for latex in (False, True):
        o["fmt:formatted:%s" % ("latex" if latex else "plain")] = _get(lambda latex=latex: fm.get_formatted(with_par_values=False, with_expression=True, format_as_latex=latex))
    if evaluate:
        npar = mf.parcount
        xs = np.array([0.4, 1.7, 3.1])
        for tag, pars in (("E1", [0.9 + 0.3 * i for i in range(npar)]), ("E2", [1.6 - 0.2 * i for i in range(npar)])):
            if mf.argcount > mf.parcount:
                o["value@" + tag] = _get(lambda pars=pars: mf(xs, *pars))
            else:
                o["value@" + tag] = _get(lambda pars=pars: mf(*pars))
    return o


CONSTRAINT_POINTS = ([1.1, 0.7, 0.4], [2.9, 2.0, 1.3], [0.2, 1.5, 2.2])


def observe_constraint(c):
    from kafe2.core.constraint import GaussianSimpleParameterConstraint

    o = collections.OrderedDict()
    o["class"] = type(c).__name__
    o["extra_ndf"] = _get(lambda: c.extra_ndf)
    o["relative"] = _get(lambda: c.relative)
    for i, p in enumerate(CONSTRAINT_POINTS):
        o["cost@%d" % i] = _get(lambda p=p: float(c.cost(p)))
    if isinstance(c, GaussianSimpleParameterConstraint):
        for a in ("index", "value", "uncertainty", "uncertainty_rel"):
            o[a] = _get(lambda a=a: getattr(c, a))
    else:
        for a in ("indices", "values", "matrix_type", "cov_mat", "cov_mat_rel", "cor_mat", "uncertainties", "uncertainties_rel"):
            o[a] = _get(lambda a=a: getattr(c, a))
    return o


FIT_ARRAYS = {
    "xy": [
        "x_data", "y_data", "x_model", "y_model",
        "x_data_error", "y_data_error", "x_data_cov_mat", "y_data_cov_mat",
        "x_model_error", "y_model_error", "x_model_cov_mat", "y_model_cov_mat",
        "x_total_error", "y_total_error", "x_total_cov_mat", "y_total_cov_mat",
        "total_error", "total_cov_mat",
    ],
    "indexed": ["data", "model", "data_error", "data_cov_mat", "model_error", "model_cov_mat", "total_error", "total_cov_mat"],
    "hist": ["data", "model", "data_error", "data_cov_mat", "model_error", "model_cov_mat", "total_error", "total_cov_mat"],
    "unbinned": ["data", "model"],
    "custom": [],
}  # fmt: skip


def fit_type_key(fit):
    return {"XYFit": "xy", "IndexedFit": "indexed", "HistFit": "hist", "UnbinnedFit": "unbinned", "CustomFit": "custom"}[type(fit).__name__]


def observe_fit_point(fit, tag, o):
    """observables that depend on the current parameter point"""
    ft = fit_type_key(fit)
    o["parameter_values@" + tag] = _get(lambda: list(fit.parameter_values))
    o["cost_function_value@" + tag] = _get(lambda: float(fit.cost_function_value))
    for a in FIT_ARRAYS[ft]:
        o[a + "@" + tag] = _get(lambda a=a: getattr(fit, a))
    o["goodness_of_fit@" + tag] = _get(lambda: fit.goodness_of_fit)
    if ft not in ("unbinned", "custom"):
        o["chi2_probability@" + tag] = _get(lambda: fit.chi2_probability)
    o["constraint_costs@" + tag] = _get(lambda: [float(c.cost(fit.parameter_values)) for c in fit.parameter_constraints])


def observe_fit_static(fit):
    ft = fit_type_key(fit)
    o = collections.OrderedDict()
    o["class"] = type(fit).__name__
    o["parameter_names"] = _get(lambda: list(fit.parameter_names))
    o["ndf"] = _get(lambda: fit.ndf)
    o["did_fit"] = _get(lambda: bool(fit.did_fit))
    # before a fit parameter_errors are initial step sizes (not part of the statement): only their availability
    o["parameter_errors:available"] = _get(lambda: len(list(fit.parameter_errors)) == len(list(fit.parameter_names)))
    o["dynamic_error_algorithm"] = _get(lambda: fit.dynamic_error_algorithm)
    o["has_errors"] = _get(lambda: fit.has_errors)
    o["has_data_errors"] = _get(lambda: fit.has_data_errors)
    o["has_model_errors"] = _get(lambda: fit.has_model_errors)
    o["n_constraints"] = _get(lambda: len(fit.parameter_constraints))
    o["constraint_types"] = _get(lambda: [(type(c).__name__, c.extra_ndf, bool(c.relative)) for c in fit.parameter_constraints])
    if ft != "custom":
        o["data_label"] = _get(lambda: fit.data_container.label)
        o["axis_labels"] = _get(lambda: list(fit.data_container.axis_labels))
        o["model_label"] = _get(lambda: fit.model_label)
        o["source_names"] = _get(lambda: sorted(fit.get_matching_errors().keys()))
        mf = fit.model_function
        o["mf:name"] = _get(lambda: mf.name)
        fm = mf.formatter
        o["mf:latex_name"] = _get(lambda: fm.latex_name)
        o["mf:expression"] = _get(lambda: fm.expression_format_string)
        o["mf:latex_expression"] = _get(lambda: fm.latex_expression_format_string)
        o["mf:args"] = _get(lambda: [(a.arg_name, a.name, a.latex_name) for a in fm.arg_formatters])
    if ft == "hist":
        o["bin_edges"] = _get(lambda: fit.data_container.bin_edges)
        o["underflow"] = _get(lambda: fit.data_container.underflow)
        o["overflow"] = _get(lambda: fit.data_container.overflow)
        o["density"] = _get(lambda: fit.density)
    # stored fit results
    o["result:did_fit"] = o["did_fit"]
    if o["did_fit"] is True:
        o["result:parameter_errors"] = _get(lambda: list(fit.parameter_errors))
        o["result:parameter_cov_mat"] = _get(lambda: fit.parameter_cov_mat)
        o["result:parameter_cor_mat"] = _get(lambda: fit.parameter_cor_mat)
    o["result:dict"] = _get(lambda: _result_dict(fit))
    o["result:asymmetric_parameter_errors"] = _get(lambda: fit.get_result_dict()["asymmetric_parameter_errors"])
    o["report"] = _get(lambda: _report(fit))
    return o


def _result_dict(fit):
    d = fit.get_result_dict()
    return d


def _report(fit):
    s = io.StringIO()
    fit.report(s)
    return s.getvalue()


# ---------------------------------------------------------------------------------------
# comparison

_NUM = re.compile(r"[-+]?(?:\d+\.\d*|\.\d+|\d+)(?:[eE][-+]?\d+)?")


def _ulp_of_print(tok):
    """one unit of the last printed digit of a decimal literal"""
    mant, _, exp = tok.lower().partition("e")
    digits = len(mant.split(".")[1]) if "." in mant else 0
    return 10.0 ** (-digits + (int(exp) if exp else 0))


def text_equal_mod_ties(a, b):
    """two formatted texts are equal when their non-numeric parts agree (runs of blanks collapsed) and every printed
    number agrees within one unit of its last printed digit (a value exactly on a rounding tie may be printed either
    way after a change in the last bit, DESIGN 6.5)"""
    if a == b:
        return True
    if not isinstance(a, str) or not isinstance(b, str):
        return False
    na, nb = _NUM.findall(a), _NUM.findall(b)
    ta = re.sub(r"[ =-]+", " ", _NUM.sub("#", a))
    tb = re.sub(r"[ =-]+", " ", _NUM.sub("#", b))
    if ta != tb or len(na) != len(nb):
        return False
    for x, y in zip(na, nb):
        if x == y:
            continue
        if abs(float(x) - float(y)) > 1.0000001 * max(_ulp_of_print(x), _ulp_of_print(y)):
            return False
    return True



def diff(a, b, rtol, path=""):
    """-> list of (path, a, b) where two canonical structures differ (numbers compared with rtol relative to the
    largest magnitude of the enclosing array)"""
    out = []
    _diff(a, b, rtol, path, out, None)
    return out


def _scale(x):
    if isinstance(x, bool):
        return 0.0
    if isinstance(x, (int, float)):
        return abs(x) if x == x and abs(x) != float("inf") else 0.0
    if isinstance(x, (list, tuple)) and x:
        return max(_scale(y) for y in x)
    return 0.0


def _diff(a, b, rtol, path, out, scale):
    if isinstance(a, tuple):
        a = list(a)
    if isinstance(b, tuple):
        b = list(b)
    if isinstance(a, bool) or isinstance(b, bool) or a is None or b is None or isinstance(a, str) or isinstance(b, str):
        if a != b or type(a) is not type(b):
            out.append((path, a, b))
        return
    if isinstance(a, dict) and isinstance(b, dict):
        if list(a.keys()) != list(b.keys()) and set(a.keys()) != set(b.keys()):
            out.append((path + ":keys", sorted(a.keys()), sorted(b.keys())))
            return
        for k in a:
            _diff(a[k], b[k], rtol, "%s[%s]" % (path, k), out, None)
        return
    if isinstance(a, list) and isinstance(b, list):
        if len(a) != len(b):
            out.append((path + ":len", len(a), len(b)))
            return
        numeric = all(isinstance(x, (int, float, list)) and not isinstance(x, bool) for x in a + b)
        s = max(_scale(a), _scale(b)) if numeric else None
        if scale is not None and s is not None:
            s = max(s, scale)
        for i, (x, y) in enumerate(zip(a, b)):
            _diff(x, y, rtol, "%s[%d]" % (path, i), out, s)
        return
    if isinstance(a, (int, float)) and isinstance(b, (int, float)):
        if a != a or b != b:
            if not (a != a and b != b):
                out.append((path, a, b))
            return
        if abs(a) == float("inf") or abs(b) == float("inf"):
            if a != b:
                out.append((path, a, b))
            return
        s = max(abs(a), abs(b), scale or 0.0)
        if abs(a - b) > rtol * s:
            out.append((path, a, b))
        return
    if a != b:
        out.append((path, a, b))
