"""Fitted problems shared by C06/C07/C08/C15: well-posed by construction (>= 10 points generated from the model plus
fixed pseudo-noise; measured on the unchanged tree: relative parameter uncertainties <= 9 %, chi2/ndf 0.4 .. 1.3)."""
import collections
import warnings

from .fitworld import FitWorld

# name -> (fit type, model, truth (None = valuation y), ops before the fit)
PROBLEMS = collections.OrderedDict(
    [
        ("lin-y", ("xy", "linoff", None, [("add", "y-abs", "e0")])),
        ("exp-y", ("xy", "expo", [1.6, 0.22], [("add", "y-abs", "e0")])),
        ("exp-xy", ("xy", "expo", [1.6, 0.22], [("add", "y-abs", "e0"), ("add", "x-abs", "e1")])),
        ("exp-fixed", ("xy", "expc", [1.6, 0.22, 0.5], [("add", "y-abs", "e0"), ("fix", "c")])),
        ("exp-lim", ("xy", "expo", [1.6, 0.22], [("add", "y-abs", "e0"), ("lim", "k", 0.05, 0.6)])),
        ("exp-relm", ("xy", "expo", [1.6, 0.22], [("add", "y-abs", "e0"), ("add", "y-rel-model", "e1")])),
        ("exp-xy-relm", ("xy", "expo", [1.6, 0.22], [("add", "y-abs", "e0"), ("add", "x-abs", "e1"), ("add", "y-rel-model", "e2")])),
        ("pow-y", ("xy", "powerlaw", [1.1, 0.9], [("add", "y-abs", "e0")])),
        ("peak-fixed", ("xy", "peak", [3.3, 4.3, 1.3, 1.0], [("add", "y-abs", "e0"), ("fix", "c")])),
        ("sinus-y", ("xy", "sinus", [1.7, 0.85, 3.0], [("add", "y-abs", "e0")])),
        ("logistic-xy", ("xy", "logistic", [8.0, 0.7, 4.2], [("add", "y-abs", "e0"), ("add", "x-abs-s", "e1")])),
        ("idx3-cov", ("indexed", "idx3", None, [("add", "y-cov", "e0")])),
        ("quad-con", ("xy", "quadoff", None, [("add", "y-abs-rho", "e0"), ("con", "simple")])),
        ("peak-fix13", ("xy", "peak", [3.3, 4.3, 1.3, 1.0], [("add", "y-abs", "e0"), ("fix", "mu", 4.32), ("fix", "c", 1.0)])),
    ]
)


def make(name, v=0, minimizer="iminuit", dea="nonlinear", fit=True, extra_ops=()):
    if name == "lin-xhz":  # x in units x1e6 (Hz instead of MHz): the slope and its uncertainty are tiny (~1e-6, ~1e-8)
        w = FitWorld("xy", "chi2", model="lin", v=v, n=8, minimizer=minimizer, dea=dea, xscale=1e6)
        with warnings.catch_warnings():
            warnings.simplefilter("ignore")
            w.apply(("add", "y-abs", "e0"))
            w.apply(("set", {"a": 1.0e-6, "b": 0.8}))
            if fit:
                w.apply(("fit",))
        return w
    ftype, model, truth, ops = PROBLEMS[name]
    n = 10 if truth is not None else 8
    w = FitWorld(ftype, "chi2", model=model, v=v, n=n, minimizer=minimizer, dea=dea, gen=(truth, 0.3) if truth is not None else None)
    with warnings.catch_warnings():
        warnings.simplefilter("ignore")
        for op in list(ops) + list(extra_ops):
            w.apply(tuple(op))
        if fit:
            w.apply(("fit",))
    return w


FAMILY_TRUTH = collections.OrderedDict(
    [
        ("expo", [1.6, 0.22]),
        ("powerlaw", [1.1, 0.9]),
        ("sinus", [1.7, 0.85, 3.0]),
        ("logistic", [8.0, 0.7, 4.2]),
        ("peak", [3.3, 4.3, 1.3, 1.0]),
    ]
)
UNC_CONFIGS = collections.OrderedDict(
    [
        ("y", ["y-abs"]),
        ("xy", ["y-abs", "x-abs"]),
        ("relm", ["y-abs", "y-rel-model"]),
        ("xy-relm", ["y-abs", "x-abs-s", "y-rel-model"]),
        ("cov", ["y-cov", "y-abs-rho"]),
        ("x-model", ["y-abs", "x-abs-model"]),
    ]
)


def make_family(model, unc, v=0, minimizer="iminuit", dea="nonlinear", fit=True, extra_ops=()):
    """nonlinear family x uncertainty configuration (used by C06); peak keeps its constant fixed (well-posedness)"""
    truth = FAMILY_TRUTH[model]
    w = FitWorld("xy", "chi2", model=model, v=v, n=10, minimizer=minimizer, dea=dea, gen=(truth, 0.3))
    ops = [("add", k, "e%d" % i) for i, k in enumerate(UNC_CONFIGS[unc])]
    if model == "peak":
        ops.append(("fix", "c"))
    with warnings.catch_warnings():
        warnings.simplefilter("ignore")
        for op in list(ops) + list(extra_ops):
            w.apply(tuple(op))
        if fit:
            w.apply(("fit",))
    return w
