"""Densities with known antiderivative for check C13, and their exact bin integrals.

Every density comes as
  f(x, *p)    plain python function (signature inspectable by kafe2; works on scalars and arrays)
  F(x, *p)    antiderivative, array capable, same argument names
  Fs(x, *p)   antiderivative for ONE scalar x (math module: raises on arrays) - used through numpy.vectorize
f and F refer to nothing but their arguments, ``np`` and ``scipy``: their source text is a complete definition wherever numpy
and scipy are imported under these names, so that a model written to a file (kafe2 stores the source) can be read back.
and an exact reference ``exact(name, params, a, b)`` = integral of f over [a, b] that does not go through F:
rational arithmetic for the monomials, 40-digit mpmath for normal / exponential / mixture.

Next to the densities of the full product (GRID) there are special purpose ones: ``normal0`` = kafe2's default density (normal
distribution, defaults mu = sigma = 1) written down independently, and the GUARDED densities ``gnormal`` / ``rexpo`` that raise
outside their parameter domain (sigma <= 0: ValueError; tau = 0: ZeroDivisionError), with BAD_POINTS outside the domain.
"""
import collections
import math
from fractions import Fraction

import mpmath
import numpy as np
import scipy
import scipy.special

_SQ2 = math.sqrt(2.0)


# -- monomials c x^k -----------------------------------------------------------------------
def mono0(x, c=1.3):
    return c + 0.0 * x


def mono0_F(x, c=1.3):
    return c * x


def mono0_Fs(x, c=1.3):
    return c * float(x)


def mono1(x, c=1.3):
    return c * x


def mono1_F(x, c=1.3):
    return c * x**2 / 2.0


def mono1_Fs(x, c=1.3):
    return c * float(x) ** 2 / 2.0


def mono2(x, c=1.3):
    return c * x**2


def mono2_F(x, c=1.3):
    return c * x**3 / 3.0


def mono2_Fs(x, c=1.3):
    return c * float(x) ** 3 / 3.0


def mono3(x, c=1.3):
    return c * x**3


def mono3_F(x, c=1.3):
    return c * x**4 / 4.0


def mono3_Fs(x, c=1.3):
    return c * float(x) ** 4 / 4.0


def mono4(x, c=1.3):
    return c * x**4


def mono4_F(x, c=1.3):
    return c * x**5 / 5.0


def mono4_Fs(x, c=1.3):
    return c * float(x) ** 5 / 5.0


def mono5(x, c=1.3):
    return c * x**5


def mono5_F(x, c=1.3):
    return c * x**6 / 6.0


def mono5_Fs(x, c=1.3):
    return c * float(x) ** 6 / 6.0


# -- normal ---------------------------------------------------------------------------------
def normal(x, mu=1.2, sigma=0.8):
    return np.exp(-0.5 * ((x - mu) / sigma) ** 2) / (np.sqrt(2.0 * np.pi) * sigma)


def normal_F(x, mu=1.2, sigma=0.8):
    return 0.5 * (1.0 + scipy.special.erf((x - mu) / (sigma * np.sqrt(2.0))))


def normal_Fs(x, mu=1.2, sigma=0.8):
    return 0.5 * (1.0 + math.erf((float(x) - mu) / (sigma * _SQ2)))


# -- exponential ----------------------------------------------------------------------------
def expo(x, lam=0.5):
    return lam * np.exp(-lam * x)


def expo_F(x, lam=0.5):
    return -np.exp(-lam * x)


def expo_Fs(x, lam=0.5):
    return -math.exp(-lam * float(x))


# -- two-component mixture ------------------------------------------------------------------
def mixture(x, f=0.3, mu=1.2, sigma=0.8, lam=0.5):
    return f * np.exp(-0.5 * ((x - mu) / sigma) ** 2) / (np.sqrt(2.0 * np.pi) * sigma) + (1.0 - f) * lam * np.exp(-lam * x)


def mixture_F(x, f=0.3, mu=1.2, sigma=0.8, lam=0.5):
    return f * 0.5 * (1.0 + scipy.special.erf((x - mu) / (sigma * np.sqrt(2.0)))) - (1.0 - f) * np.exp(-lam * x)


def mixture_Fs(x, f=0.3, mu=1.2, sigma=0.8, lam=0.5):
    x = float(x)
    return f * 0.5 * (1.0 + math.erf((x - mu) / (sigma * _SQ2))) - (1.0 - f) * math.exp(-lam * x)


# -- kafe2's default density under its own name: normal distribution with the defaults mu = sigma = 1 ---------
def normal0(x, mu=1.0, sigma=1.0):
    return np.exp(-0.5 * ((x - mu) / sigma) ** 2) / (np.sqrt(2.0 * np.pi) * sigma)


def normal0_F(x, mu=1.0, sigma=1.0):
    return 0.5 * (1.0 + scipy.special.erf((x - mu) / (sigma * np.sqrt(2.0))))


def normal0_Fs(x, mu=1.0, sigma=1.0):
    return 0.5 * (1.0 + math.erf((float(x) - mu) / (sigma * _SQ2)))


# -- densities that are defined on a part of the parameter space only and RAISE elsewhere -------------------
def gnormal(x, mu=1.2, sigma=0.8):
    if not sigma > 0.0:
        raise ValueError("gnormal: the width must be positive")
    return np.exp(-0.5 * ((x - mu) / sigma) ** 2) / (np.sqrt(2.0 * np.pi) * sigma)


def gnormal_F(x, mu=1.2, sigma=0.8):
    if not sigma > 0.0:
        raise ValueError("gnormal: the width must be positive")
    return 0.5 * (1.0 + scipy.special.erf((x - mu) / (sigma * np.sqrt(2.0))))


def gnormal_Fs(x, mu=1.2, sigma=0.8):
    if not sigma > 0.0:
        raise ValueError("gnormal: the width must be positive")
    return 0.5 * (1.0 + math.erf((float(x) - mu) / (sigma * _SQ2)))


def rexpo(x, tau=2.0):
    lam = 1.0 / float(tau)  # ZeroDivisionError for tau = 0
    return lam * np.exp(-lam * x)


def rexpo_F(x, tau=2.0):
    lam = 1.0 / float(tau)
    return -np.exp(-lam * x)


def rexpo_Fs(x, tau=2.0):
    lam = 1.0 / float(tau)
    return -math.exp(-lam * float(x))


Density = collections.namedtuple("Density", "name f F Fs degree base_points")

DENSITIES = collections.OrderedDict()
for _k, (_f, _F, _Fs) in enumerate(
    [(mono0, mono0_F, mono0_Fs), (mono1, mono1_F, mono1_Fs), (mono2, mono2_F, mono2_Fs), (mono3, mono3_F, mono3_Fs), (mono4, mono4_F, mono4_Fs), (mono5, mono5_F, mono5_Fs)]
):
    DENSITIES["mono%d" % _k] = Density("mono%d" % _k, _f, _F, _Fs, _k, ((1.3,), (-0.7,), (2.9,)))
DENSITIES["normal"] = Density("normal", normal, normal_F, normal_Fs, None, ((1.2, 0.8), (2.1, 1.5), (0.4, 0.6)))
DENSITIES["expo"] = Density("expo", expo, expo_F, expo_Fs, None, ((0.5,), (1.3,), (2.2,)))
DENSITIES["mixture"] = Density("mixture", mixture, mixture_F, mixture_Fs, None, ((0.3, 1.2, 0.8, 0.5), (0.6, 2.1, 1.5, 1.3), (0.8, 0.4, 0.6, 2.2)))

GRID = tuple(DENSITIES)  # the densities of the full grammar product
# special purpose densities (own families of the check, not part of the full product)
DENSITIES["normal0"] = Density("normal0", normal0, normal0_F, normal0_Fs, None, ((1.0, 1.0), (2.1, 1.5), (0.4, 0.6)))
DENSITIES["gnormal"] = Density("gnormal", gnormal, gnormal_F, gnormal_Fs, None, ((1.2, 0.8), (2.1, 1.5), (0.4, 0.6)))
DENSITIES["rexpo"] = Density("rexpo", rexpo, rexpo_F, rexpo_Fs, None, ((2.0,), (0.75,), (0.4,)))
FAMILY = {"normal": "normal", "normal0": "normal", "gnormal": "normal", "expo": "expo", "rexpo": "rexpo", "mixture": "mixture"}
GUARDED = ("gnormal", "rexpo")
# parameter points at which the density (and its antiderivative) cannot be evaluated: the function raises
BAD_POINTS = {"gnormal": ((1.2, 0.0), (2.1, -0.8)), "rexpo": ((0.0,),)}


def evaluable(name, params):
    """can the density be evaluated for these parameter values (does not raise)?"""
    if name == "gnormal":
        return params[1] > 0.0
    if name == "rexpo":
        return params[0] != 0.0
    return True


def _mapped(name, p, s, t):
    fam = FAMILY.get(name)
    if fam is None:
        return tuple(p)
    if fam == "normal":
        return (s * p[0] + t, s * p[1])
    if fam == "expo":
        return (p[0] / s,)
    if fam == "rexpo":
        return (p[0] * s,)
    return (p[0], s * p[1] + t, s * p[2], p[3] / s)


def bad_points(name, s, t):
    """The points outside the domain of a guarded density under the affine map x -> s x + t (s > 0: they stay outside)."""
    return [_mapped(name, p, s, t) for p in BAD_POINTS.get(name, ())]


def points(name, s, t):
    """The three parameter points of a density under the affine map x -> s x + t of the abscissa (location
    parameters move with the binning, widths scale, rates scale inversely; amplitudes are unchanged)."""
    return [_mapped(name, p, s, t) for p in DENSITIES[name].base_points]


_CACHE = {}


def exact(name, params, a, b):
    """Integral of the density over [a, b], independent of the float antiderivatives above."""
    key = (name, tuple(params), a, b)
    if key in _CACHE:
        return _CACHE[key]
    d = DENSITIES[name]
    if d.degree is not None:
        k = d.degree
        v = Fraction(params[0]) * (Fraction(b) ** (k + 1) - Fraction(a) ** (k + 1)) / (k + 1)
        r = float(v)
    else:
        with mpmath.workdps(40):
            A, B = mpmath.mpf(a), mpmath.mpf(b)

            def gauss(mu, sigma):
                mu, sigma = mpmath.mpf(mu), mpmath.mpf(sigma)
                q = sigma * mpmath.sqrt(2)
                return (mpmath.erf((B - mu) / q) - mpmath.erf((A - mu) / q)) / 2

            def expon(lam):
                lam = mpmath.mpf(lam)
                return mpmath.exp(-lam * A) - mpmath.exp(-lam * B)

            if FAMILY[name] == "normal":
                v = gauss(params[0], params[1])
            elif FAMILY[name] == "expo":
                v = expon(params[0])
            elif FAMILY[name] == "rexpo":
                v = expon(1 / mpmath.mpf(params[0]))
            else:
                f = mpmath.mpf(params[0])
                v = f * gauss(params[1], params[2]) + (1 - f) * expon(params[3])
            r = float(v)
    _CACHE[key] = r
    return r


def exact_bins(name, params, edges):
    return [exact(name, params, float(a), float(b)) for a, b in zip(edges[:-1], edges[1:])]
