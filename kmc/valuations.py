"""Fixed numeric alphabets ("valuations" V0..V2).  No randomness anywhere: VERIF_SEED only selects the
valuation (seed mod 3) in the quick tier.  Rules (DESIGN section 2): no two semantically different fields
share a value; error vectors are non-constant and non-monotone; x-errors differ from y-errors; correlation
coefficients differ between sources; matrices are positive definite with condition number < 1e4.
"""
import numpy as np

NVAL = 3


def _ar1(n, c):
    i = np.arange(n)
    return c ** np.abs(i[:, None] - i[None, :])


def _posdef(n, scale, twist):
    """A fixed, non-diagonal positive definite matrix (no randomness)."""
    i = np.arange(n, dtype=float)
    B = np.cos(0.7 * np.outer(i + 1.0, i + 2.0) + twist) + np.eye(n) * 1.5
    M = B.dot(B.T)
    M = M / np.max(np.diag(M)) * scale**2
    return 0.5 * (M + M.T)


class V(object):
    """Valuation v for data size n."""

    def __init__(self, v, n=5, yscale=1.0, xscale=1.0):
        v = int(v) % NVAL
        self.v, self.n = v, n
        base_x = np.array([0.5, 1.3, 2.1, 3.4, 4.2, 5.5, 6.1, 7.3, 8.4, 9.2, 10.3, 11.1])[:n]
        base_y = np.array([1.3, 2.1, 2.4, 3.9, 4.1, 5.6, 5.9, 7.7, 8.1, 9.6, 10.2, 11.9])[:n]
        wig = np.array([0.21, 0.35, 0.18, 0.40, 0.27, 0.31, 0.16, 0.38, 0.24, 0.33, 0.19, 0.29])[:n]
        wig2 = np.array([0.11, 0.07, 0.16, 0.09, 0.13, 0.06, 0.15, 0.08, 0.12, 0.10, 0.14, 0.05])[:n]
        self.x = base_x + 0.1 * v
        self.y = base_y * (1.0 + 0.15 * v) + 0.05 * v
        self.y_alt = self.y[::-1] * 1.1 + 0.3  # replacement data (different everywhere)
        self.x_alt = self.x + 0.25
        self.y_mixed = self.y * np.where(np.arange(n) % 3 == 1, -1.0, 1.0) - 0.4  # mixed sign reference
        self.ey = wig * (1.0 + 0.1 * v)
        self.ey2 = wig[::-1] * 0.8 + 0.05
        self.ex = wig2 * (1.0 + 0.1 * v)
        self.ex2 = wig2[::-1] * 0.7 + 0.02
        self.ry = 0.08 + 0.01 * v  # relative y size (scalar)
        self.ryv = 0.05 + 0.3 * wig2  # relative y size (vector)
        self.rx = 0.03 + 0.005 * v
        self.rm = 0.06 + 0.01 * v  # relative-to-model size
        self.rho = (0.5, 0.3, 0.7)[v]
        self.rho2 = (0.25, 0.6, 0.4)[v]
        self.ys = 0.23 + 0.02 * v  # scalar absolute y
        self.xs = 0.09 + 0.01 * v
        self.My = _posdef(n, 0.3 + 0.05 * v, 0.3 * v)  # absolute y covariance
        self.Mx = _posdef(n, 0.1 + 0.01 * v, 1.0 + 0.3 * v)
        self.C = _ar1(n, 0.4 + 0.1 * v)  # correlation matrix
        self.Mrel = _posdef(n, 0.07 + 0.01 * v, 2.0 + 0.3 * v)  # relative covariance
        if xscale != 1.0:  # x expressed in another unit
            for _k in ("x", "x_alt", "ex", "ex2", "xs"):
                setattr(self, _k, getattr(self, _k) * xscale)
            self.Mx = self.Mx * xscale**2
        if yscale != 1.0:  # y expressed in another unit (absolute quantities only)
            for _k in ("y", "y_alt", "y_mixed", "ey", "ey2", "ys"):
                setattr(self, _k, getattr(self, _k) * yscale)
            self.My = self.My * yscale**2
        # fixed pseudo-noise (zero mean, unit-ish spread) for data generated from a model
        nz = np.array([0.62, -1.10, 0.35, 1.25, -0.48, -0.92, 1.05, -0.15, 0.71, -1.33, 0.28, 0.72])[:n]
        self.noise = (nz - nz.mean()) * (1.0 + 0.1 * v)
        # integer (Poisson compatible) data
        self.yint = np.round(self.y * 3.0 + 2.0)
        self.yint_alt = self.yint[::-1] + 1.0
