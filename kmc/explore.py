"""Explicit-state exploration by replay-from-scratch.

A *world* couples fresh real objects with the reference model:

    world = make_world()            # fresh
    world.enabled() -> list of ops  # valid next operations according to the reference model
    world.apply(op, res)            # apply to implementation AND reference; when ``res`` is not
                                    # None evaluate the oracle and report into it; returns a list
                                    # of violation dicts (possibly empty)
    world.key() -> hashable         # canonical state (fingerprint of real objects + reference)

States are identified with the history reaching them; every transition is executed on a world
rebuilt from scratch (live kafe2 objects cannot be copied: weak parent references).
"""
import collections


def bfs(make_world, res, max_depth=None, max_states=None, sample_every=0):
    """Breadth-first closure (max_depth None) or depth-bounded search with state merging.

    Returns (closed, depth_completed).  Violating successor states are not expanded.
    """
    w0 = make_world()
    k0 = w0.key()
    seen = {k0}
    res.state(k0)
    frontier = collections.deque([()])
    depth_of = {(): 0}
    depth_completed = 0
    closed = True
    while frontier:
        hist = frontier.popleft()
        d = len(hist)
        if max_depth is not None and d >= max_depth:
            closed = False
            continue
        depth_completed = max(depth_completed, d)
        w = make_world()
        for op in hist:
            w.apply(op, None)
        ops = w.enabled()
        for op in ops:
            w2 = make_world()
            for o in hist:
                w2.apply(o, None)
            viol = w2.apply(op, res)
            res.transitions += 1
            res.executions += 1
            res.max_depth = max(res.max_depth, d + 1)
            if viol:
                continue
            k = w2.key()
            if k in seen:
                continue
            seen.add(k)
            res.state(k)
            if max_states is not None and len(seen) >= max_states:
                res.caps_hit.append("max_states=%d" % max_states)
                return False, depth_completed
            frontier.append(hist + (op,))
    return closed, depth_completed


def replay_world(make_world, history, res):
    """Re-execute one history with the oracle on at every step."""
    w = make_world()
    out = []
    for op in history:
        op = tuple(_tup(x) for x in op) if isinstance(op, (list, tuple)) else op
        out.extend(w.apply(op, res) or [])
    return out


def _tup(x):
    if isinstance(x, list):
        return tuple(_tup(y) for y in x)
    return x


def minimise(history, violates):
    """Deterministic one-at-a-time delta debugging: drop operations while ``violates(h)`` stays
    truthy.  ``violates`` must return falsy for histories that are invalid under the reference."""
    h = list(history)
    changed = True
    while changed:
        changed = False
        for i in range(len(h) - 1, -1, -1):
            cand = h[:i] + h[i + 1 :]
            try:
                ok = violates(cand)
            except Exception:
                ok = False
            if ok:
                h = cand
                changed = True
    return h
