"""Core of the kafe2 model-checking harness.

A *check module* (checks/cNN_*.py) provides

    PROPERTY = "C04"
    def jobs(tier, seed)  -> list of picklable job specs (the sharded work list)
    def run_job(spec)     -> JobResult.as_dict()
    def replay(history)   -> list of violation dicts (empty = history does not violate)
    RULE = "<how cases are enumerated, what counts as non-trivial>"
    LEVEL_NOTE etc. live in MANIFEST.json

The runner maps run_job over a long-lived process pool, merges the results, confirms every
violation by re-executing its (minimised) history in a fresh call, matches it against
/verif/known_findings.json, writes replay artefacts and /verif/evidence/<ID>.json and sets the
exit status.  Nothing here is specific to one property.
"""
import collections
import hashlib
import json
import multiprocessing
import os
import sys
import time
import traceback

HERE = os.path.dirname(os.path.dirname(os.path.abspath(__file__)))
EVIDENCE_DIR = os.path.join(HERE, "evidence")
REPLAY_DIR = os.path.join(HERE, "replays")
FINDINGS_FILE = os.path.join(HERE, "known_findings.json")
EVIDENCE_SCHEMA = "/root/.vp/EVIDENCE.schema.json"


def h64(obj):
    """Stable 64 bit hash of a JSON-able / repr-able object."""
    if not isinstance(obj, (bytes, bytearray)):
        obj = repr(obj).encode()
    return int.from_bytes(hashlib.blake2b(obj, digest_size=8).digest(), "big")


def jsonable(o):
    import numpy as np

    if isinstance(o, dict):
        return {str(k): jsonable(v) for k, v in o.items()}
    if isinstance(o, (list, tuple, set, frozenset)):
        return [jsonable(v) for v in o]
    if isinstance(o, np.ndarray):
        return jsonable(o.tolist())
    if isinstance(o, (np.floating,)):
        return float(o)
    if isinstance(o, (np.integer,)):
        return int(o)
    if isinstance(o, (np.bool_,)):
        return bool(o)
    if isinstance(o, float):
        if o != o:
            return "nan"
        if o in (float("inf"), float("-inf")):
            return "inf" if o > 0 else "-inf"
        return o
    if o is None or isinstance(o, (int, str, bool)):
        return o
    return repr(o)


class JobResult(object):
    """Accumulator filled by one job; merged by the runner."""

    def __init__(self):
        self.state_hashes = set()  # 64 bit hashes of distinct states / configurations
        self.transitions = 0  # operations applied to real objects
        self.executions = 0  # complete histories executed on the implementation
        self.evaluations = 0  # oracle comparisons
        self.nontrivial = set()  # hashes of distinct non-trivial cases
        self.outcomes = collections.Counter()  # outcome class -> count
        self.facts = collections.Counter()  # coverage facts (vacuity guards)
        self.samples = []
        self.violations = []
        self.caps_hit = []
        self.max_depth = 0
        self.digest = 0  # xor of observation hashes (determinism check)

    def observe(self, obj):
        self.digest ^= h64(obj)

    def state(self, key):
        self.state_hashes.add(key if isinstance(key, int) else h64(key))

    def nontriv(self, key):
        self.nontrivial.add(key if isinstance(key, int) else h64(key))

    def sample(self, s, cap=3):
        if len(self.samples) < cap:
            self.samples.append(jsonable(s))

    def violation(self, sig, history, observable, expected, actual, mode="wrong-value", extra=None):
        v = dict(
            sig=sig,
            history=jsonable(history),
            observable=observable,
            expected=jsonable(expected),
            actual=jsonable(actual),
            mode=mode,
        )
        if extra:
            v["extra"] = jsonable(extra)
        self.violations.append(v)
        return v

    def as_dict(self):
        return dict(
            state_hashes=self.state_hashes,
            transitions=self.transitions,
            executions=self.executions,
            evaluations=self.evaluations,
            nontrivial=self.nontrivial,
            outcomes=self.outcomes,
            facts=self.facts,
            samples=self.samples,
            violations=self.violations,
            caps_hit=self.caps_hit,
            max_depth=self.max_depth,
            digest=self.digest,
        )


def merge(results):
    tot = JobResult()
    for r in results:
        tot.state_hashes |= r["state_hashes"]
        tot.transitions += r["transitions"]
        tot.executions += r["executions"]
        tot.evaluations += r["evaluations"]
        tot.nontrivial |= r["nontrivial"]
        tot.outcomes.update(r["outcomes"])
        tot.facts.update(r["facts"])
        tot.violations.extend(r["violations"])
        tot.caps_hit.extend(r["caps_hit"])
        tot.max_depth = max(tot.max_depth, r["max_depth"])
        tot.digest ^= r["digest"]
    # samples: spread over jobs
    for r in results:
        for s in r["samples"]:
            if len(tot.samples) < 6:
                tot.samples.append(s)
    return tot


# ---------------------------------------------------------------------------------------
# known findings


def load_findings():
    if not os.path.exists(FINDINGS_FILE):
        return []
    with open(FINDINGS_FILE) as f:
        return json.load(f)["findings"]


def match_finding(findings, prop, v):
    """Return the *open* finding that lists this violation, or None.

    An entry matches through an exact signature, or through a narrow pattern:
      contains   : substrings that must all occur in the signature's operation list
      mode       : required mode
      observables: closed set of observables the violation may concern
      kinds      : (optional) closed set - every op token of the signature must be in it
    'fixed' entries never match (documentation only).
    """
    for f in findings:
        if f.get("property") != prop or f.get("status") != "open":
            continue
        if v["sig"] in f.get("signatures", []):
            return f
        for pat in f.get("patterns", []):
            if pat.get("mode") and pat["mode"] != v["mode"]:
                continue
            if "observables" in pat and not any(
                v["observable"] == o or (o.endswith("*") and v["observable"].startswith(o[:-1])) for o in pat["observables"]
            ):
                continue
            if not all(c in v["sig"] for c in pat.get("contains", [])):
                continue
            if any(c in v["sig"] for c in pat.get("excludes", [])):
                continue
            if "contains_any" in pat and not any(c in v["sig"] for c in pat["contains_any"]):
                continue
            return f
    return None


# ---------------------------------------------------------------------------------------
# runner

_MOD = None


def _init_worker(modname):
    global _MOD
    import importlib

    _MOD = importlib.import_module(modname)
    try:
        import logging

        import matplotlib

        matplotlib.use("Agg")
        logging.getLogger("matplotlib.font_manager").setLevel(logging.ERROR)
    except Exception:
        pass


def _run_one(spec):
    t0 = time.time()
    try:
        r = _MOD.run_job(spec)
        if isinstance(r, dict):
            r["job_wall"] = time.time() - t0
            r["job_spec"] = repr(spec)
        return ("ok", r)
    except BaseException:
        return ("err", "job %r\n%s" % (spec, traceback.format_exc()))


def run_jobs(modname, specs, nproc=None):
    nproc = nproc or int(os.environ.get("KMC_PROCS", "0")) or min(16, os.cpu_count() or 1)
    nproc = max(1, min(nproc, len(specs)))
    if nproc == 1:
        _init_worker(modname)
        out = [_run_one(s) for s in specs]
    else:
        ctx = multiprocessing.get_context("fork")
        # import everything once in the parent (forked workers inherit it) and give every job a fresh worker process: kafe2 fits are
        # never freed (the iminuit object, a C++ extension type, holds the cost wrapper of the adapter that owns it - a cycle the
        # collector cannot see), so a long-lived worker of an explorer that builds ~1e5 fits grows by gigabytes
        _init_worker(modname)
        try:
            import kafe2  # noqa: F401
        except Exception:  # noqa: BLE001
            pass
        with ctx.Pool(nproc, initializer=_init_worker, initargs=(modname,), maxtasksperchild=1) as pool:
            out = list(pool.imap_unordered(_run_one, specs, chunksize=1))
    errs = [o[1] for o in out if o[0] == "err"]
    if errs:
        sys.stdout.write("HARNESS-ERROR in %d job(s):\n%s\n" % (len(errs), errs[0]))
        sys.exit(2)
    return [o[1] for o in out]


def write_replay(prop, v):
    d = os.path.join(REPLAY_DIR, prop)
    os.makedirs(d, exist_ok=True)
    name = "%016x" % h64((v["sig"], v["observable"], v["mode"]))
    path = os.path.join(d, name + ".json")
    with open(path, "w") as f:
        json.dump(dict(property=prop, **v), f, indent=1, sort_keys=True)
        f.write("\n")
    return path


def validate_evidence(doc):
    try:
        import jsonschema

        with open(EVIDENCE_SCHEMA) as f:
            schema = json.load(f)
        jsonschema.validate(doc, schema)
    except ImportError:
        pass
    except FileNotFoundError:
        pass


def main_check(mod, tier, seed):
    t0 = time.time()
    prop = mod.PROPERTY
    modname = mod.__name__
    specs = mod.jobs(tier, seed)
    results = run_jobs(modname, specs)

    # determinism: the first job is executed a second time, in this process, and must give the
    # same observation digest and the same counts
    if specs and not os.environ.get("KMC_NO_DETCHECK"):
        # the job that is re-run: the longest one that took at most 20 s in the pool (a thorough-tier job can take many minutes,
        # and the re-run is serial); if every job is longer, the shortest one
        walls = {r.get("job_spec"): r.get("job_wall", 0.0) for r in results}
        short = [i for i, sp in enumerate(specs) if walls.get(repr(sp), 0.0) <= 20.0]
        if short:
            idx = max(short, key=lambda i: (walls.get(repr(specs[i]), 0.0), -i))
        else:
            idx = min(range(len(specs)), key=lambda i: (walls.get(repr(specs[i]), 0.0), i))
        _init_worker(modname)
        again = _run_one(specs[idx])
        if again[0] != "ok":
            sys.stdout.write("HARNESS-ERROR determinism re-run failed:\n%s\n" % again[1])
            sys.exit(2)
        # find the result of that job among the unordered results through its digest
        a = again[1]
        if not any(r["digest"] == a["digest"] and r["transitions"] == a["transitions"] for r in results):
            sys.stdout.write("HARNESS-ERROR nondeterministic observations in job %r\n" % (specs[idx],))
            sys.exit(2)

    tot = merge(results)
    findings = load_findings()

    # confirm, de-duplicate and classify violations
    by_key = collections.OrderedDict()
    for v in tot.violations:
        k = (v["sig"], v["observable"], v["mode"])
        by_key.setdefault(k, v)
    new, known, flaky = [], collections.OrderedDict(), 0
    for k, v in by_key.items():
        f = match_finding(findings, prop, v)
        if f is not None:
            known.setdefault(f["id"], (f, []))[1].append(v)
            continue
        # confirm by an independent re-execution of the recorded history
        try:
            again = mod.replay(v["history"])
        except Exception:
            again = [dict(mode="exception-in-replay", detail=traceback.format_exc())]
        if not again:
            flaky += 1
            sys.stdout.write("WARN unreproducible violation dropped (harness nondeterminism?): %s\n" % (v["sig"],))
            continue
        new.append(v)

    for fid, (f, vs) in known.items():
        sys.stdout.write("KNOWN-FINDING: property=%s %s [%s, %d witness(es)]\n" % (prop, f["what"], fid, len(vs)))
    max_report = 25
    for v in new[:max_report]:
        path = write_replay(prop, v)
        sys.stdout.write("VIOLATION property=%s replay=%s\n" % (prop, path))
        sys.stdout.write(
            "  sig=%s\n  observable=%s mode=%s\n  expected=%s\n  actual=%s\n"
            % (v["sig"], v["observable"], v["mode"], _short(v["expected"]), _short(v["actual"]))
        )
    if len(new) > max_report:
        sys.stdout.write("  ... and %d more distinct violations\n" % (len(new) - max_report))

    # vacuity guards
    guards = getattr(mod, "vacuity_guards", None)
    warns = []
    if guards:
        for name, ok in guards(tot, tier):
            if not ok:
                warns.append(name)
                sys.stdout.write("WARN vacuity: %s\n" % name)

    wall = time.time() - t0
    cov = dict(
        states=max(1, len(tot.state_hashes)),
        transitions=max(1, tot.transitions),
        traces_validated_against_impl=tot.executions,
        evaluations=max(1, tot.evaluations),
        distinct_nontrivial=len(tot.nontrivial),
        rule=getattr(mod, "RULE", ""),
        samples=tot.samples or ["(no sample recorded)"],
        exhaustive=(not tot.caps_hit),
        bound_completed=mod.bound(tier, seed) if hasattr(mod, "bound") else "",
        max_depth=tot.max_depth,
        caps_hit=tot.caps_hit,
        outcomes={_k(k): v for k, v in sorted(tot.outcomes.items(), key=lambda kv: (-kv[1], repr(kv[0])))[:60]},
        distinct_outcomes=len(tot.outcomes),
        coverage_facts={_k(k): v for k, v in sorted(tot.facts.items(), key=lambda kv: repr(kv[0]))},
        vacuity_warnings=warns,
        jobs=len(specs),
        known_findings_seen=sorted(known.keys()),
        unreproducible_dropped=flaky,
        explanation=getattr(mod, "EXPLANATION", "explicit-state exploration of the real implementation; every explored trace is an implementation trace"),
    )
    doc = dict(
        property_id=prop,
        tier=tier,
        seed=int(seed),
        level="model_checking",
        coverage=cov,
        assumptions=list(getattr(mod, "ASSUMPTIONS", [])),
        wall_s=round(wall, 2),
        violations=len(new),
    )
    validate_evidence(doc)
    os.makedirs(EVIDENCE_DIR, exist_ok=True)
    with open(os.path.join(EVIDENCE_DIR, prop + ".json"), "w") as f:
        json.dump(doc, f, indent=1, sort_keys=True)
        f.write("\n")
    sys.stdout.write(
        "%s tier=%s seed=%s: states=%d transitions=%d executions=%d evaluations=%d nontrivial=%d outcomes=%d "
        "violations=%d known=%d wall=%.1fs\n"
        % (
            prop,
            tier,
            seed,
            len(tot.state_hashes),
            tot.transitions,
            tot.executions,
            tot.evaluations,
            len(tot.nontrivial),
            len(tot.outcomes),
            len(new),
            len(known),
            wall,
        )
    )
    return 1 if new else 0


def _k(k):
    return k if isinstance(k, str) else "/".join(str(x) for x in k) if isinstance(k, tuple) else str(k)


def _short(x, n=300):
    s = json.dumps(x) if not isinstance(x, str) else x
    return s if len(s) <= n else s[:n] + "..."


def main_replay(mod, path):
    with open(path) as f:
        doc = json.load(f)
    vs = mod.replay(doc["history"])
    if vs:
        for v in vs:
            sys.stdout.write(
                "REPRODUCED property=%s observable=%s mode=%s\n  expected=%s\n  actual=%s\n"
                % (mod.PROPERTY, v.get("observable"), v.get("mode"), _short(v.get("expected")), _short(v.get("actual")))
            )
        sys.stdout.write("VIOLATION property=%s replay=%s\n" % (mod.PROPERTY, path))
        return 1
    sys.stdout.write("history does not violate %s on this tree\n" % mod.PROPERTY)
    return 0
