"""./check <ID> [--tier quick|thorough] [--replay file]"""
import argparse
import glob
import importlib
import os
import sys

from . import core


def find_module(pid):
    pid = pid.upper()
    here = os.path.join(core.HERE, "checks")
    hits = sorted(glob.glob(os.path.join(here, pid.lower() + "_*.py")))
    if not hits:
        sys.stdout.write("no check module for %s\n" % pid)
        sys.exit(2)
    return "checks." + os.path.basename(hits[0])[:-3]


def main(argv=None):
    ap = argparse.ArgumentParser()
    ap.add_argument("pid")
    ap.add_argument("--tier", default=os.environ.get("VERIF_TIER", "quick"), choices=["quick", "thorough"])
    ap.add_argument("--replay", default=None)
    a = ap.parse_args(argv)
    try:
        seed = int(os.environ.get("VERIF_SEED", "0"))
    except ValueError:
        seed = 0
    mod = importlib.import_module(find_module(a.pid))
    if a.replay:
        sys.exit(core.main_replay(mod, a.replay))
    sys.exit(core.main_check(mod, a.tier, seed))


if __name__ == "__main__":
    main()
