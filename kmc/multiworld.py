"""MultiWorld: a real kafe2.MultiFit over FitWorld members plus the reference (sum of parts / dense joint covariance).

member spec: (fit type, cost id, model key, n points, valuation, [source kinds])
operations: ('m', op) on the multi-fit, ('f<i>', op) on member i, with op as in FitWorld
            ('shared', kind, name, [member indices][, 'explicit'])   shared source through MultiFit.add_error / add_matrix_error;
                                       the axis argument is omitted if all sharing members are single-axis fits unless 'explicit'
            ('m', ('fit', 'asym'))     do_fit(asymmetric_parameter_errors=True)
            ('m', ('addto', i, kind, name))   a source of member i alone declared through the multi-fit (fits=<int>)
            ('m', ('query', how))      ask the multi-fit for asymmetric uncertainties: 'prop' property, 'report', 'result' dictionary
"""
import collections
import warnings

import numpy as np

from . import ref
from .fitworld import FitWorld

POOL = collections.OrderedDict(
    [
        ("xy_ab", ("xy", "chi2", "m_ab", 4, 0, ["y-abs"])),
        ("xy_ac", ("xy", "chi2", "m_ac", 4, 1, ["y-abs-rho"])),
        ("idx_ad", ("indexed", "chi2", "idx_ad", 4, 2, ["y-abs"])),
        ("xy_bc", ("xy", "chi2", "m_bc", 3, 1, ["y-abs"])),
        ("xy_ab_x", ("xy", "chi2", "m_ab", 4, 2, ["y-abs", "x-abs"])),
        ("xy_ab_noerr", ("xy", "chi2", "m_ab", 4, 1, [])),  # chi2 member without any uncertainty (no determinant term in its cost)
        ("xy_ab_relm", ("xy", "chi2", "m_ab", 4, 2, ["y-abs", "y-rel-model", "y-abs-model"])),
        ("hist", ("hist", "nll", "normal", 5, 0, [])),
        ("unbinned", ("unbinned", "nll", "normal", 5, 0, [])),
        # single-axis chi2 members (a shared source on them is declared without the axis argument): a second indexed member of
        # size 4, and a chi2 histogram fit with an indexed member of its size (5 bins)
        ("idx_ad_b", ("indexed", "chi2", "idx_ad", 4, 0, ["y-abs-rho"])),
        ("hist_chi2", ("hist", "chi2", "normal", 5, 1, ["y-abs"])),
        ("idx_ad5", ("indexed", "chi2", "idx_ad", 5, 2, ["y-abs"])),
        # an indexed member with model-referenced sources (its own total covariance is more than its data covariance)
        ("idx_ad_relm", ("indexed", "chi2", "idx_ad", 4, 1, ["y-abs", "y-rel-model", "y-abs-model"])),
    ]
)


class MultiWorld(object):
    def __init__(self, member_names, minimizer="iminuit", pre=()):
        """pre: (member index, FitWorld op) pairs applied to the members BEFORE the multi-fit is built (each followed by reads of the
        member's values and cost, so that its graph has been evaluated): members that were used on their own first"""
        import kafe2

        self.k2 = kafe2
        self.member_names = list(member_names)
        self.members = []
        for i, mn in enumerate(member_names):
            ftype, cost, model, n, v, kinds = POOL[mn]
            w = FitWorld(ftype, cost, model=model, v=v, n=n, minimizer=minimizer)
            for j, k in enumerate(kinds):
                w.apply(("add", k, "m%de%d" % (i, j)))
            self.members.append(w)
        for i, o in pre:
            self.members[i].apply(tuple(o))
            self.members[i].observe("parameter_values")
            self.members[i].observe("cost_function_value")
        with warnings.catch_warnings():
            warnings.simplefilter("ignore")
            self.multi = kafe2.MultiFit([w.fit for w in self.members], minimizer=minimizer)
        self.par_names = list(self.multi.parameter_names)
        self.pv = collections.OrderedDict((p, float(v)) for p, v in zip(self.par_names, self.multi.parameter_values))
        self.defaults = collections.OrderedDict(self.pv)
        self.cons = []  # multi-level constraints (specs)
        self.con_specs = ref.constraint_specs(self.par_names, self.defaults)
        self.fixed = collections.OrderedDict()
        self.shared = []  # (kind, name, member indices)
        self.fitted = False
        self._sync()

    def _sync(self):
        for w in self.members:
            for p in w.par_names:
                w.pv[p] = self.pv[p]

    def point(self, pid):
        d = self.defaults
        if pid == "P1":
            return collections.OrderedDict((p, v * 1.2 + 0.15) for p, v in d.items())
        if pid == "P2":
            return collections.OrderedDict((p, v * 0.85 - 0.04 * (i + 1)) for i, (p, v) in enumerate(d.items()))
        return collections.OrderedDict(d)

    def apply(self, op):
        tgt, o = op[0], tuple(op[1]) if op[0] != "shared" else None
        with warnings.catch_warnings():
            warnings.simplefilter("ignore")
            if tgt == "shared":
                _, kind, name, idxs = op[:4]
                axis, form, rel, refc, payload, rho = ref.KINDS[kind]
                val = self.members[idxs[0]].val
                meth, kw = ref.kind_call(kind, val)
                kw.pop("reference")
                ax = kw.pop("axis")
                if all(self.members[i].ftype != "xy" for i in idxs) and (len(op) < 5 or op[4] != "explicit"):
                    ax = None
                getattr(self.multi, meth)(fits=list(idxs), axis=ax, name=name, reference="data", **kw)
                self.shared.append((kind, name, list(idxs)))
                for i in idxs:
                    self.members[i].implicit_no_errors = False
            elif tgt == "m" and o[0] == "addto":
                # ('m', ('addto', member index, kind, name)): a source of ONE member declared through the multi-fit (fits=<int>);
                # equivalent to declaring it on the member itself
                _, i, kind, name = o
                w = self.members[i]
                meth, kw = ref.kind_call(kind, w.val)
                if w.ftype != "xy":
                    kw.pop("axis")
                getattr(self.multi, meth)(fits=int(i), name=name, **kw)
                w.sources[name] = [kind, True]
                w.implicit_no_errors = False
            elif tgt == "m":
                f = self.multi
                k = o[0]
                if k == "set":
                    d = o[1] if isinstance(o[1], dict) else {p: v for p, v in self.point(o[1]).items() if p not in self.fixed}
                    f.set_parameter_values(**d)
                    self.pv.update((p, float(v)) for p, v in d.items())
                    self.fitted = False
                elif k == "setall":
                    vals = list(self.point(o[1]).values()) if isinstance(o[1], str) else list(o[1])
                    f.set_all_parameter_values(vals)
                    for p, v in zip(self.par_names, vals):
                        self.pv[p] = float(v)
                    self.fitted = False
                elif k == "fix":
                    if len(o) > 2 and o[2] is not None:
                        f.fix_parameter(o[1], o[2])
                        self.pv[o[1]] = float(o[2])
                    else:
                        f.fix_parameter(o[1])
                    self.fixed[o[1]] = self.pv[o[1]]
                elif k == "rel":
                    f.release_parameter(o[1])
                    self.fixed.pop(o[1], None)
                elif k == "con":
                    s = self.con_specs[o[1]]
                    if s["form"] == "simple":
                        f.add_parameter_constraint(name=s["name"], value=s["value"], uncertainty=s["uncertainty"], relative=s["relative"])
                    else:
                        f.add_matrix_parameter_constraint(names=s["names"], values=s["values"], matrix=s["matrix"], matrix_type=s["matrix_type"], uncertainties=s.get("uncertainties"), relative=s["relative"])
                    self.cons.append(o[1])
                elif k == "fit":
                    if len(o) > 1 and o[1] == "asym":
                        f.do_fit(asymmetric_parameter_errors=True)
                    else:
                        f.do_fit()
                    self.fitted = True
                    for p, v in zip(self.par_names, f.parameter_values):
                        self.pv[p] = float(v)
                elif k == "query":
                    if o[1] == "prop":
                        f.asymmetric_parameter_errors
                    elif o[1] == "report":
                        import io

                        f.report(output_stream=io.StringIO(), asymmetric_parameter_errors=True)
                    elif o[1] == "result":
                        f.get_result_dict(asymmetric_parameter_errors=True)
                    else:
                        raise ValueError(op)
                else:
                    raise ValueError(op)
            else:
                i = int(tgt[1:])
                w = self.members[i]
                w.apply(o)
                if o[0] in ("set", "setall", "fit") or (o[0] == "fix" and len(o) > 2):
                    for p in w.par_names:
                        self.pv[p] = w.pv[p]
                    self.fitted = False
            self._sync()

    # -- reference
    def ref_member_cost(self, i, with_det=True):
        return self.members[i].ref_cost(with_det=with_det)

    def ref_constraint_cost(self):
        return sum(ref.constraint_cost(self.con_specs[c], self.pv) for c in self.cons)

    def chi2_members(self):
        return [i for i, w in enumerate(self.members) if w.ftype in ("xy", "indexed") or (w.ftype == "hist" and ref.cost_family(w.cost_id)[0] == "chi2")]

    def ref_joint(self):
        """dense joint covariance / data / model of the chi2 members, shared sources in all blocks between sharers"""
        idx = self.chi2_members()
        sizes = [len(self.members[i].ref_data()[1]) for i in idx]
        offs = np.concatenate([[0], np.cumsum(sizes)])
        n = int(offs[-1])
        Vy, Vx = np.zeros((n, n)), np.zeros((n, n))
        d, m, slope = np.zeros(n), np.zeros(n), np.zeros(n)
        covs = {}
        for a, i in enumerate(idx):
            w = self.members[i]
            c = w.ref_covs()
            covs[i] = c
            lo, hi = offs[a], offs[a + 1]
            # member blocks: own sources (FitWorld tracks only the member's own sources)
            Vy[lo:hi, lo:hi] += c["y_total"]
            Vx[lo:hi, lo:hi] += c["x_total"]
            d[lo:hi] = w.ref_data()[1]
            m[lo:hi] = w.ref_model()
        for kind, name, members in self.shared:
            axis = ref.KINDS[kind][0]
            w0 = self.members[members[0]]
            values = w0.ref_data()[1] if axis == "y" else w0.ref_data()[0]
            M = ref.source_cov(kind, w0.val, values)
            T = Vy if axis == "y" else Vx
            for i in members:
                a = idx.index(i)
                for j in members:
                    b = idx.index(j)
                    T[offs[a] : offs[a + 1], offs[b] : offs[b + 1]] += M
        # slopes: central difference with the common step 0.01 * (smallest non-zero x error)
        sx = np.sqrt(np.diag(Vx))
        nz = sx[sx > 0]
        if len(nz):
            h = 0.01 * nz.min()
            for a, i in enumerate(idx):
                w = self.members[i]
                if w.ftype != "xy":
                    continue
                x = w.ref_data()[0]
                args = [w.pv[p] for p in w.par_names]
                dx = np.full(len(x), h)
                slope[offs[a] : offs[a + 1]] = 0.5 * (w.fn(x + dx, *args) - w.fn(x - dx, *args)) / dx
        V = Vy + Vx * np.outer(slope, slope)
        return dict(V=V, d=d, m=m, offs=offs, idx=idx)

    def ref_cost(self, with_det=True):
        c = self.ref_constraint_cost()
        if not self.shared:
            return c + sum(self.ref_member_cost(i, with_det) for i in range(len(self.members)))
        j = self.ref_joint()
        r = j["d"] - j["m"]
        sign, logdet = np.linalg.slogdet(j["V"])
        c += float(r.dot(np.linalg.inv(j["V"])).dot(r)) + (logdet if with_det else 0.0)
        for i, w in enumerate(self.members):
            if i in j["idx"]:
                c += w.ref_constraint_cost()
            else:
                c += w.ref_cost(with_det=with_det)
        return c

    def ref_ndf(self):
        nd = sum(len(w.ref_data()[1]) for w in self.members)
        extra = sum(ref.constraint_ndf(self.con_specs[c]) for c in self.cons)
        extra += sum(ref.constraint_ndf(w.con_specs[c]) for w in self.members for c in w.cons)
        return nd + extra - len(self.par_names) + len(self.fixed)
