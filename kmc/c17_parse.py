"""Parsing of the numbers kafe2 shows to the user (helper of check C17) and the decimal rounding oracle.

Everything is exact: displayed strings are turned into ``decimal.Decimal`` (LaTeX ``\\times10^{k}`` folded into the
exponent), floats are converted with ``Decimal(float)`` (the exact binary value), so "half a unit of the last displayed
digit" and ties are decided without floating point.
"""
import re
from decimal import ROUND_FLOOR, Decimal, getcontext

getcontext().prec = 60

# a number as kafe2 prints it: optional sign, digits with optional point, optional exponent (e+05 or \times10^{05})
NUM = r"[-+]?(?:\d+\.?\d*|\.\d+)(?:[eE][-+]?\d+|\\times10\^\{-?\d*\})?"
NUM_RE = re.compile(NUM)
_NUM_FULL = re.compile(r"^(?P<m>[-+]?(?:\d+\.?\d*|\.\d+))(?:[eE](?P<e>[-+]?\d+)|\\times10\^\{(?P<t>-?\d*)\})?$")


class Shown(object):
    """One displayed number: exact value, exponent of its last displayed digit, notation."""

    __slots__ = ("text", "value", "last", "pow10")

    def __init__(self, text):
        m = _NUM_FULL.match(text.strip())
        if m is None:
            raise ValueError("not a number: %r" % (text,))
        mant = Decimal(m.group("m"))
        exp = 0
        self.pow10 = m.group("t") is not None  # LaTeX power-of-ten notation (kafe2 strips trailing zeros of the mantissa there)
        if m.group("e") is not None:
            exp = int(m.group("e"))
        elif m.group("t") is not None:
            exp = int(m.group("t")) if m.group("t") not in ("", "-") else 0
        self.text = text.strip()
        self.value = mant.scaleb(exp)
        self.last = mant.as_tuple().exponent + exp  # power of ten of the last displayed digit

    @property
    def unit(self):
        return Decimal(1).scaleb(self.last)

    def faithful_to(self, x):
        """|shown - x| <= half a unit of the last displayed digit (x: float or Decimal)."""
        return abs(self.value - _dec(x)) * 2 <= self.unit

    def __repr__(self):
        return "Shown(%r)" % self.text


def _dec(x):
    if isinstance(x, Decimal):
        return x
    return Decimal(float(x))


def round_sig(x, n):
    """All correct roundings of |x| to n significant digits -> list of (Decimal rounded, int power of ten of its n-th digit).
    Two entries on an exact tie.  After a carry (9.96 -> 10) the n-th digit of the *rounded* number is returned."""
    D = abs(_dec(x))
    if D == 0:
        return [(Decimal(0), 0)]
    q = Decimal(1).scaleb(D.adjusted() - n + 1)
    lo = (D / q).to_integral_value(rounding=ROUND_FLOOR) * q
    hi = lo + q
    if D - lo < hi - D:
        cands = [lo]
    elif D - lo > hi - D:
        cands = [hi]
    else:
        cands = [lo, hi]
    out = []
    for c in cands:
        out.append((c, (c.adjusted() - n + 1) if c != 0 else q.adjusted()))
    return out


# ----------------------------------------------------------------------------------------------------------------------
# "value +/- uncertainty" strings of ParameterFormatter.get_formatted

_PLAIN_SYM = re.compile(r"^(?P<v>%s) \+/- (?P<e>%s)$" % (NUM, NUM))
_PLAIN_ASYM = re.compile(r"^(?P<v>%s) \+ (?P<u>%s) \(up\) - (?P<d>%s) \(down\)$" % (NUM, NUM, NUM))
_PLAIN_FIXED = re.compile(r"^(?P<v>%s) \(fixed\)$" % NUM)
_PLAIN_BARE = re.compile(r"^(?P<v>%s)$" % NUM)
_TEX_SYM = re.compile(r"^\$(?P<v>%s) \\pm (?P<e>%s)\$$" % (NUM, NUM))
_TEX_ASYM = re.compile(r"^\$\{(?P<v>%s)\}\^\{\+(?P<u>%s)\}_\{-(?P<d>%s)\}\$$" % (NUM, NUM, NUM))
_TEX_FIXED = re.compile(r"^\$(?P<v>%s)\$ \(fixed\)$" % NUM)
_TEX_BARE = re.compile(r"^\$(?P<v>%s)\$$" % NUM)


def parse_pm(text, latex):
    """-> dict(kind='sym'|'asym'|'fixed'|'bare', v=Shown, [e=Shown | u=Shown, d=Shown]) ; ValueError when unparsable."""
    text = text.strip()
    table = (
        (("sym", _TEX_SYM), ("asym", _TEX_ASYM), ("fixed", _TEX_FIXED), ("bare", _TEX_BARE))
        if latex
        else (("sym", _PLAIN_SYM), ("asym", _PLAIN_ASYM), ("fixed", _PLAIN_FIXED), ("bare", _PLAIN_BARE))
    )
    for kind, rx in table:
        m = rx.match(text)
        if m:
            out = dict(kind=kind)
            for k, tok in m.groupdict().items():
                out[k] = Shown(tok)
            return out
    raise ValueError("unparsable value/uncertainty string: %r" % (text,))


def judge_pm(text, latex, value, n, error=None, asym=None, fixed=False):
    """The C17 oracle for one formatted parameter.

    value: float; error: float (symmetric) or None; asym: (down, up) floats (signs ignored) or None; fixed: bool.
    -> list of (observable, expected, actual)
    """
    bad = []
    try:
        p = parse_pm(text, latex)
    except ValueError as e:
        return [("format", "parsable 'value +/- uncertainty' string", str(e))]
    if fixed:
        if p["kind"] != "fixed":
            return [("fixed-marker", "'(fixed)' marker", text)]
        if not p["v"].faithful_to(value):
            bad.append(("value", "within half a unit of its last displayed digit of %r" % (value,), text))
        return bad
    if p["kind"] == "fixed":
        return [("fixed-marker", "no '(fixed)' marker", text)]
    want = "asym" if asym is not None else "sym"
    if p["kind"] != want:
        return [("format", want, text)]
    V = _dec(value)
    if asym is None:
        E = abs(_dec(error))
        cands = round_sig(E, n)
        hit = [c for c in cands if c[0] == p["e"].value]
        if not hit:
            return [("uncertainty", "%s (= %r rounded to %d significant digits)" % (" or ".join(str(c[0]) for c in cands), error, n), text)]
        last = hit[0][1]
        emin = E
        shown_errs = [p["e"]]
    else:
        dn, up = abs(_dec(asym[0])), abs(_dec(asym[1]))
        small, big = (dn, up) if dn <= up else (up, dn)
        s_small, s_big = (p["d"], p["u"]) if dn <= up else (p["u"], p["d"])
        cands = round_sig(small, n)
        hit = [c for c in cands if c[0] == s_small.value]
        if not hit:
            return [("uncertainty", "%s (= %s rounded to %d significant digits)" % (" or ".join(str(c[0]) for c in cands), small, n), text)]
        last = hit[0][1]
        emin = small
        shown_errs = [s_small, s_big]
        unit = Decimal(1).scaleb(last)
        if abs(s_big.value - big) * 2 > unit:
            bad.append(("uncertainty", "larger uncertainty %s within half a unit (%s) of the smaller one's last digit" % (big, unit), text))
        elif not s_big.pow10 and s_big.last > last:
            bad.append(("uncertainty-digits", "larger uncertainty shown down to 1e%d" % last, text))
    # a display that shows the uncertainty with a coarser last digit (not by zero stripping) widens the allowance
    for s in shown_errs[:1]:
        if not s.pow10 and s.last > last:
            last = s.last
    unit = Decimal(1).scaleb(last)
    if abs(p["v"].value - V) * 2 > unit:
        bad.append(("value", "%r within half a unit (%s) of the uncertainty's last digit" % (value, unit), text))
    elif abs(V) >= emin and not p["v"].pow10 and p["v"].last > last:
        bad.append(("value-digits", "value shown at least down to 1e%d" % last, text))
    return bad


# ----------------------------------------------------------------------------------------------------------------------
# fit.report(): section "Fit Results"


def parse_report(text):
    """-> dict(warning=bool, params=[(name, rest-of-line)], cor=None | dict(cols=[..], rows=[(name, [tokens])]),
    cost=None | ('cost', tok) | ('gof', label, tok, ndf_tok, ratio_tok | None), prob=None | tok, cost_description=str)"""
    i = text.find("# Fit Results #")
    if i < 0:
        raise ValueError("no 'Fit Results' section")
    lines = text[i:].split("\n")[2:]
    out = dict(warning=False, params=[], cor=None, cost=None, prob=None, cor_unavailable=False)
    section = None
    k = 0
    while k < len(lines):
        ln = lines[k].rstrip()
        k += 1
        s = ln.strip()
        if not s:
            continue
        if s.startswith("WARNING: No fit has been performed"):
            out["warning"] = True
            continue
        if k < len(lines) and set(lines[k].strip()) == {"="} and s in ("Model Parameters", "Model Parameter Correlations", "Cost Function"):
            section = s
            k += 1
            continue
        if section == "Model Parameters":
            if " = " not in s:
                raise ValueError("parameter line without ' = ': %r" % s)
            name, rest = s.split(" = ", 1)
            out["params"].append((name.strip(), rest.strip()))
        elif section == "Model Parameter Correlations":
            if s == "<not available>":
                out["cor_unavailable"] = True
                continue
            if out["cor"] is None:
                out["cor"] = dict(cols=s.split(), rows=[])
                k += 1  # the ==== line
            else:
                toks = s.split()
                out["cor"]["rows"].append((toks[0], toks[1:]))
        elif section == "Cost Function":
            if s.startswith("Cost function:"):
                out["cost_description"] = s[len("Cost function:") :].strip()
            elif s.startswith("Cost = "):
                out["cost"] = ("cost", s[len("Cost = ") :].strip())
            elif s.startswith("chi2 probability = "):
                out["prob"] = s[len("chi2 probability = ") :].strip()
            elif " / ndf = " in s:
                label, rest = s.split(" / ndf = ", 1)
                parts = [t.strip() for t in rest.split("=")]
                g, nd = [t.strip() for t in parts[0].split("/")]
                out["cost"] = ("gof", label.strip(), g, nd, parts[1] if len(parts) > 1 else None)
            else:
                raise ValueError("unexpected line in cost section: %r" % s)
        else:
            raise ValueError("unexpected line: %r" % s)
    return out


# ----------------------------------------------------------------------------------------------------------------------
# preface comment of fit.to_file()


def parse_preface(text):
    """text: content of the written file.  -> dict(warning, model_function, gof=(label, tok)|None, cost=tok|None, ndf=tok|None,
    ratio=(label, tok)|None, header=[...], rows=[[tokens]] )"""
    out = dict(warning=False, model_function=None, gof=None, cost=None, ndf=None, ratio=None, header=None, rows=[], written_by=None)
    nsep = 0
    for ln in text.split("\n"):
        if not ln.startswith("#"):
            if ln.strip():
                break  # start of the YAML document
            continue
        s = ln[1:].strip()
        if not s:
            continue
        if s.startswith("kafe2 ") and "representation written by" in s:
            out["written_by"] = s
        elif s.startswith("WARNING: No fit has been performed"):
            out["warning"] = True
        elif s.startswith("Model function"):
            out["model_function"] = s.split(":", 1)[1].strip()
        elif s.startswith("Cost:"):
            out["cost"] = s.split(":", 1)[1].strip()
        elif s.startswith("ndf:"):
            out["ndf"] = s.split(":", 1)[1].strip()
        elif re.match(r"^(chi2|GoF)/ndf:", s):
            out["ratio"] = (s.split("/", 1)[0], s.split(":", 1)[1].strip())
        elif re.match(r"^(chi2|GoF):", s):
            out["gof"] = (s.split(":", 1)[0], s.split(":", 1)[1].strip())
        elif set(s.replace(" ", "")) == {"="}:
            nsep += 1
        elif nsep == 1:
            out["header"] = re.split(r"\s{2,}", s)
        elif nsep == 2:
            out["rows"].append(s.split())
        elif s.startswith("ERROR:"):
            out["error"] = s
        else:
            raise ValueError("unexpected preface line: %r" % s)
    return out
