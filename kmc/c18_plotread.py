"""C18 helpers: fixed fit worlds for plotting, read-back of matplotlib artists, legend parser.

Nothing in the read-back / parser part touches kafe2 internals: artists are read through the public
matplotlib API (ErrorbarContainer.lines, Line2D.get_data, LineCollection.get_segments, PolyCollection paths,
Rectangle geometry, Legend.get_texts) and the association artist -> (fit index, subplot type) is taken from
the documented return value of ``Plot.plot`` and verified against ``Plot.axes``.
"""
import decimal
import math
import re
import warnings

import numpy as np

from .valuations import V

# ---------------------------------------------------------------------------------------
# model functions: role 'A' (first fit) and role 'B' (second fit) never share a function name, so that the
# legend blocks of two fits on one plot can be told apart by their first line


def lin(x, a=1.1, b=0.4):
    return a * x + b


def lin_jac(x, a, b):
    return np.array([x, np.ones_like(x)])


def expo(x, A0=9.0, k=-0.2):
    return A0 * np.exp(k * x)


def expo_jac(x, A0, k):
    e = np.exp(k * x)
    return np.array([e, A0 * x * e])


def quad(x, a=0.3, b=0.9, c=0.5):
    return a * x * x + b * x + c


def quad_jac(x, a, b, c):
    return np.array([x * x, x, np.ones_like(x)])


def _idx_design(n):
    i = np.arange(n, dtype=float)
    return np.array([1.0 + 0.0 * i, 0.5 * i + 0.2, np.cos(1.3 * i)])


def make_imodel(n):
    W = _idx_design(n)

    def imodel(a=1.2, b=0.7):
        return a * W[0] + b * W[1] + 0.3

    return imodel


def make_jmodel(n):
    W = _idx_design(n)

    def jmodel(p=4.0, q=-0.5, r=0.4):
        return p * W[0] + q * W[1] * W[1] + r * W[2] + 6.0

    return jmodel


def gdens(x, mu=2.9, sigma=1.6):
    return np.exp(-0.5 * ((x - mu) / sigma) ** 2) / np.sqrt(2.0 * np.pi * sigma**2)


def gdens_cdf(x, mu=2.9, sigma=1.6):
    return np.array([0.5 * (1.0 + math.erf((xi - mu) / (sigma * math.sqrt(2.0)))) for xi in np.atleast_1d(x)])


def hdens(x, m=3.2, s=1.9):
    return np.exp(-0.5 * ((x - m) / s) ** 2) / np.sqrt(2.0 * np.pi * s**2)


def hdens_cdf(x, m=3.2, s=1.9):
    return np.array([0.5 * (1.0 + math.erf((xi - m) / (s * math.sqrt(2.0)))) for xi in np.atleast_1d(x)])


# role 'C': the second member of a MultiFit that SHARES one parameter (by name) with the role 'A' member; it is
# fitted to the data of role 'B'
def expo_c(x, a=1.1, k=-0.2):
    return 8.0 * a * np.exp(k * x)


def expo_c_jac(x, a, k):
    e = np.exp(k * x)
    return np.array([8.0 * e, 8.0 * a * x * e])


def make_jmodel_c(n):
    W = _idx_design(n)

    def jmodel_c(a=1.2, q=-0.5, r=0.4):
        return 3.3 * a * W[0] + q * W[1] * W[1] + r * W[2] + 6.0

    return jmodel_c


def hdens_c(x, m=3.2, sigma=1.6):
    return np.exp(-0.5 * ((x - m) / sigma) ** 2) / np.sqrt(2.0 * np.pi * sigma**2)


def hdens_c_cdf(x, m=3.2, sigma=1.6):
    return hdens_cdf(x, m, sigma)


# the same shapes as count densities (HistFit(density=False): the model function itself carries the normalisation)
def gcount(x, n=28.0, mu=2.9, sigma=1.6):
    return n * gdens(x, mu, sigma)


def gcount_cdf(x, n=28.0, mu=2.9, sigma=1.6):
    return n * gdens_cdf(x, mu, sigma)


def hcount(x, c=22.0, m=3.2, s=1.9):
    return c * hdens(x, m, s)


def hcount_cdf(x, c=22.0, m=3.2, s=1.9):
    return c * hdens_cdf(x, m, s)


ENTRIES_A = np.array(
    [0.3, 0.8, 1.1, 1.4, 1.7, 1.9, 2.2, 2.4, 2.5, 2.7, 2.9, 3.0, 3.2, 3.3, 3.6, 3.8, 4.1, 4.4, 4.6, 4.9, 5.3, 5.8, 2.1, 2.8, 3.1, 1.5, 3.9, 0.6, 4.2, 2.6]
)
ENTRIES_B = np.array([0.5, 1.2, 1.6, 2.0, 2.3, 2.35, 2.6, 2.8, 3.0, 3.1, 3.4, 3.7, 3.9, 4.3, 4.7, 5.1, 5.6, 1.8, 2.9, 3.3, 2.45, 3.05, 6.2, 4.05])
EDGES_A = np.array([0.2, 1.0, 2.0, 3.5, 4.5, 6.0])  # unequal widths, positive (log x legal)
EDGES_B = np.array([0.45, 1.95, 3.45, 4.95, 6.45])  # equal widths

UNC = {
    "xy": ["none", "y", "xy", "x+rely", "y+relm", "poisson", "ga+y"],
    "indexed": ["none", "y", "y+relm", "poisson", "ga+y"],
    "hist": ["none", "y", "poisson", "ga+y"],
    "unbinned": ["none"],
}
UNC_THOROUGH_EXTRA = {"xy": ["poisson+y", "y+fixed"], "indexed": ["poisson+y"], "hist": ["poisson+y"], "unbinned": []}
# the cost-function dimension: every built-in cost function that implies Poisson statistics (likelihood 'nll', likelihood
# ratio 'nllr', Gauss approximation) x {no declared source, one declared y source}, and the Gaussian likelihood / likelihood
# ratio (which need a declared source and must NOT show a square-root-of-counts term).  Not in this list because they are
# already part of UNC: 'poisson' (= nll without source) and 'ga+y'; 'poisson+y' is part of the first product in the thorough tier
UNC_COST_ALL = ["poisson+y", "nllr", "nllr+y", "ga", "gnll+y", "gnllr+y"]
UNC_COST = {"xy": list(UNC_COST_ALL), "indexed": list(UNC_COST_ALL), "hist": list(UNC_COST_ALL), "unbinned": []}
# (cost function name, keyword arguments of the ...CostFunction_NegLogLikelihood / ..._GaussApproximation object, Poisson term?)
COST_OF = {
    "none": ("chi2", None, False),
    "y": ("chi2", None, False),
    "xy": ("chi2", None, False),
    "y+fixed": ("chi2", None, False),
    "y+relm": ("chi2", None, False),
    "x+rely": ("chi2", None, False),
    "y+msh": ("chi2", None, False),
    "poisson": ("nll", None, True),
    "poisson+y": ("nll", None, True),
    "ga+y": ("gauss_approximation", None, True),
    "ga": ("gauss_approximation", ("GaussApproximation", {}), True),
    "nllr": ("nllr", ("NegLogLikelihood", dict(data_point_distribution="poisson", ratio=True)), True),
    "nllr+y": ("nllr_poisson", ("NegLogLikelihood", dict(data_point_distribution="poisson", ratio=True)), True),
    "gnll+y": ("nll_gaussian", ("NegLogLikelihood", dict(data_point_distribution="gaussian", ratio=False)), False),
    "gnllr+y": ("nllr_gaussian", ("NegLogLikelihood", dict(data_point_distribution="gaussian", ratio=True)), False),
}
# uncertainty configurations of the members of a plotted MultiFit: no source (chi2, no valid errors), member sources,
# member sources + one fully correlated source shared by both members that is declared on the MultiFit ('y+msh': needs
# members of equal size), a cost that is neither chi2 nor saturated ('poisson'), a saturated one ('nllr')
UNC_MULTI = {
    "xy": ["none", "y", "y+msh", "poisson", "nllr"],
    "indexed": ["none", "y", "y+msh", "poisson", "nllr"],
    "hist": ["none", "y", "poisson", "nllr"],
    "unbinned": ["none"],
}
MSH = 0.37  # size of the shared source of 'y+msh'
# the data dimension: where in the value space the plotted numbers lie
#   regular : every count / value is positive, every histogram entry lies inside the bin range
#   zero    : one point is exactly zero (a zero count / an empty bin): with Poisson statistics and no declared source the
#             total uncertainty of that one point is zero while all others have sqrt(n) > 0
#             (likewise a y uncertainty purely relative to the data, 'x+rely', vanishes at that point)
#   outflow : (histograms) the container also holds entries below the first and above the last bin edge (underflow /
#             overflow): the in-range sum differs from the number of entries the model is scaled to
#   counts  : (histograms) regular entries, but the model function is a count density that carries its own normalisation
#             parameter (HistFit(density=False)): nothing is scaled with the number of entries
DATA = {
    "xy": ["regular", "zero"],
    "indexed": ["regular", "zero"],
    "hist": ["regular", "zero", "outflow", "counts"],
    "unbinned": ["regular"],
}
# role 'D': the model function of role 'A' fitted to the data of role 'B' (two fits on one plot that use ONE model function: the
# same Python function handed to both fits, or one model function object shared by both)
MODEL_ROLE = {"A": "A", "B": "B", "C": "C", "D": "A"}
# how the fits of one plot come by their model function: None = every fit wraps its own Python function (different functions),
# 'function' = the same Python function object is handed to every fit (each fit wraps it itself), 'object' = one
# ModelFunctionBase-derived object is handed to every fit (the fits then also share its parameter formatters)
SHARE_MODES = ("function", "object")
UNC_SHARED = {"xy": ["y", "y+fixed", "poisson"], "indexed": ["y", "poisson"], "hist": ["y", "poisson"], "unbinned": ["none"]}
ZERO_INDEX = {"A": 2, "B": 3}  # which point carries the zero (differs between the two fits of a plot)
EMPTY_BIN = {"A": 0, "B": -1}  # which histogram bin is emptied
OUTFLOW = {"A": (np.array([0.05, 0.12]), np.array([6.3, 6.9, 7.4])), "B": (np.array([0.1, 0.2, 0.3]), np.array([6.9, 7.5]))}  # (underflow, overflow): counts differ
AXES = {
    "xy": ["lin", "logx", "logy", "logxy"],
    "indexed": ["lin", "logy"],
    "hist": ["lin", "logx", "logy", "logxy"],
    "unbinned": ["lin", "logx", "logy", "logxy"],
}


def axes_for(ftype, data, tier):
    """axis scales on which a data region is plotted: the regular one on all scales of the adapter, the others on linear axes
    (quick) or on linear and on fully logarithmic axes (thorough)"""
    if data == "regular":
        return list(AXES[ftype])
    return ["lin"] if tier == "quick" else ["lin", AXES[ftype][-1]]


def entries_for(role, v, data="regular"):
    base = ENTRIES_A if role == "A" else ENTRIES_B
    edges = EDGES_A if role == "A" else EDGES_B
    if data == "outflow":
        base = np.concatenate([OUTFLOW[role][0][:1], base, OUTFLOW[role][1], OUTFLOW[role][0][1:]])
    # valuation dependent; the regular entries stay strictly inside the bin range of their role (no under/overflow) and
    # away from the bin edges; counts are recomputed by the reference
    e = np.round(base * (1.0 - 0.02 * v) + 0.03 * v, 6)
    if data == "zero":
        k = EMPTY_BIN[role] % (len(edges) - 1)
        e = e[~((e >= edges[k]) & (e < edges[k + 1]))]
    if data == "outflow":
        nu, no = len(OUTFLOW[role][0]), len(OUTFLOW[role][1])
        assert np.sum(e < edges[0]) == nu and np.sum(e >= edges[-1]) == no and nu != no
    else:
        assert np.all((e >= edges[0]) & (e < edges[-1]))
    return e


def hist_counts(entries, edges):
    e = np.asarray(entries)
    return np.array([np.sum((e >= lo) & (e < hi)) for lo, hi in zip(edges[:-1], edges[1:])], dtype=float)


class World(object):
    """One real kafe2 fit + the plain numbers it was built from (the reference)."""

    def __init__(self, ftype, unc, v, role, data="regular", model=None):
        """model: what is handed to the fit as its model function instead of the role's own Python function (the same Python
        function or a model function object that other fits use as well); the reference keeps using the plain Python function"""
        import kafe2

        if data not in DATA[ftype]:
            raise ValueError("no data variant %r for %s fits" % (data, ftype))
        self.ftype, self.unc, self.v, self.role, self.data = ftype, unc, int(v) % 3, role, data
        n = 6
        val = V(v, n)
        cost, cost_object, self.poisson = COST_OF[unc]
        with_y = unc in ("y", "xy", "ga+y", "poisson+y", "y+fixed", "y+relm", "y+msh", "nllr+y", "gnll+y", "gnllr+y")
        drole = "A" if role == "A" else "B"  # whose data: roles 'C' and 'D' are other models for the data of role 'B'
        mrole = MODEL_ROLE[role]  # whose model function

        self.rm = 0.0  # size of a y uncertainty relative to the MODEL (its bar follows the fitted model values)
        if ftype == "unbinned":
            cost = "nll"
        self.cost = cost
        if cost_object is not None and role != "A" and ftype != "unbinned":
            # the other way to specify the same cost function: role 'A' passes the name, the others a cost function object
            import importlib

            mod = importlib.import_module({"xy": "kafe2.fit.xy", "indexed": "kafe2.fit.indexed", "hist": "kafe2.fit.histogram"}[ftype])
            cls = getattr(mod, {"xy": "XY", "indexed": "Indexed", "hist": "Hist"}[ftype] + "CostFunction_" + cost_object[0])
            cost = cls(**cost_object[1])
        self.x = self.xerr = None
        self.jac = None
        self.fixed = {}
        ey = val.ey if role == "A" else val.ey2
        ey_b = val.ey2 if role == "A" else val.ey
        rho = val.rho if role == "A" else val.rho2
        with warnings.catch_warnings():
            warnings.simplefilter("ignore")
            if ftype == "xy":
                self.x = val.x if role == "A" else val.x_alt
                if self.poisson:
                    self.y = val.yint if role == "A" else val.yint_alt
                else:
                    self.y = val.y if role == "A" else val.y_alt
                self.y = self._with_zero(self.y)
                self.fn, self.jac = {"A": (lin, lin_jac), "B": (expo, expo_jac), "C": (expo_c, expo_c_jac)}[mrole]
                f = kafe2.XYFit([self.x, self.y], self.fn if model is None else model, cost_function=cost)
                self.yerr = np.zeros(n)
                self.xerr = np.zeros(n)
                if with_y:
                    f.add_error("y", ey)
                    self.yerr = np.array(ey, dtype=float)
                    if unc in ("y", "y+fixed", "y+msh"):
                        f.add_error("y", ey_b, correlation=rho)
                        self.yerr = np.sqrt(ey**2 + ey_b**2)
                if unc == "xy":
                    ex = val.ex if role == "A" else val.ex2
                    f.add_error("x", ex)
                    f.add_error("x", val.rx, relative=True)
                    f.add_error("y", val.ry, relative=True)
                    self.xerr = np.sqrt(ex**2 + (val.rx * self.x) ** 2)
                    self.yerr = np.sqrt(ey**2 + (val.ry * self.y) ** 2)
                if unc == "x+rely":  # the only y source is relative to the data: it vanishes where the data are zero
                    ex = val.ex if role == "A" else val.ex2
                    f.add_error("x", ex)
                    f.add_error("y", val.ry, relative=True)
                    self.xerr = np.array(ex, dtype=float)
                    self.yerr = np.abs(val.ry * self.y)
                if unc == "y+relm":
                    f.add_error("y", val.rm, relative=True, reference="model")
                    self.rm = float(val.rm)
                if unc == "y+fixed":
                    name = "b" if mrole == "A" else "k"  # (never a parameter that role 'C' shares with role 'A')
                    value = {"A": 0.55, "D": 6.3}.get(role, -0.21)
                    f.fix_parameter(name, value)
                    self.fixed[name] = value
            elif ftype == "indexed":
                if self.poisson:
                    self.y = val.yint if role == "A" else val.yint_alt
                else:
                    self.y = val.y if role == "A" else val.y_alt
                self.y = self._with_zero(self.y)
                self.fn = {"A": make_imodel, "B": make_jmodel, "C": make_jmodel_c}[mrole](n)
                f = kafe2.IndexedFit(self.y, self.fn if model is None else model, cost_function=cost)
                self.yerr = np.zeros(n)
                if with_y:
                    f.add_error(ey)
                    self.yerr = np.array(ey, dtype=float)
                    if unc in ("y", "y+msh"):
                        f.add_error(ey_b, correlation=rho)
                        self.yerr = np.sqrt(ey**2 + ey_b**2)
                    if unc == "y+relm":
                        f.add_error(val.rm, relative=True, reference="model")
                        self.rm = float(val.rm)
            elif ftype == "hist":
                self.edges = EDGES_A if role == "A" else EDGES_B
                self.entries = entries_for(drole, v, data)
                self.fn, self.cdf = {"A": (gdens, gdens_cdf), "B": (hdens, hdens_cdf), "C": (hdens_c, hdens_c_cdf)}[mrole]
                if data == "counts":
                    self.fn, self.cdf = {"A": (gcount, gcount_cdf), "B": (hcount, hcount_cdf)}[mrole]
                nb = len(self.edges) - 1
                c = kafe2.HistContainer(n_bins=nb, bin_range=(self.edges[0], self.edges[-1]), bin_edges=list(self.edges), fill_data=list(self.entries))
                f = kafe2.HistFit(c, self.fn if model is None else model, cost_function=cost, bin_evaluation=self.cdf, **(dict(density=False) if data == "counts" else {}))
                self.y = hist_counts(self.entries, self.edges)
                # the number the model is scaled to: ALL entries of the container, inside the bin range or not
                self.n_entries = float(len(self.entries))
                assert (self.n_entries == np.sum(self.y)) == (data != "outflow")
                assert bool(np.any(self.y == 0)) == (data == "zero")
                # what the model function is multiplied with to give entries per unit x
                self.scale = 1.0 if data == "counts" else self.n_entries
                self.x = 0.5 * (self.edges[1:] + self.edges[:-1])
                self.xerr = 0.5 * (self.edges[1:] - self.edges[:-1])
                self.yerr = np.zeros(nb)
                if with_y:
                    e = (1.0 + 4.0 * ey)[:nb]
                    f.add_error(e)
                    self.yerr = np.array(e, dtype=float)
                    if unc == "y":
                        e2 = (0.5 + 3.0 * ey_b)[:nb]
                        f.add_error(e2, correlation=rho)
                        self.yerr = np.sqrt(e**2 + e2**2)
            elif ftype == "unbinned":
                self.entries = entries_for(drole, v)
                self.fn = {"A": gdens, "B": hdens, "C": hdens_c}[mrole]
                f = kafe2.UnbinnedFit(self.entries, self.fn if model is None else model)
                self.y = None
                self.x = np.sort(self.entries)
                self.yerr = None
            else:
                raise ValueError(ftype)
        self.fit = f
        self.num = f  # the fit whose public results are the expectation (a never-plotted twin when plotting re-minimises)
        # when the fit is a member of a plotted MultiFit: that MultiFit and the one whose public results are the expectation
        self.multi = self.multi_num = None

    def _with_zero(self, y):
        y = np.array(y, dtype=float)
        if self.data == "zero":
            y[ZERO_INDEX["A" if self.role == "A" else "B"]] = 0.0
        return y

    # -- reference numbers --------------------------------------------------------------
    def pars(self):
        return [float(p) for p in self.num.parameter_values]

    def model_at_data(self):
        p = self.pars()
        if self.ftype == "xy":
            return self.fn(self.x, *p)
        if self.ftype == "indexed":
            return self.fn(*p)
        if self.ftype == "hist":
            cdf = self.cdf(self.edges, *p)
            return (cdf[1:] - cdf[:-1]) * self.scale
        raise ValueError

    def ybar(self):
        """pointwise y uncertainty the data error bars have to show (None: nothing to show)"""
        if self.yerr is None:
            return None
        tot = self.yerr**2
        if self.rm:
            tot = tot + (self.rm * np.asarray(self.model_at_data(), dtype=float)) ** 2
        if self.poisson:
            tot = tot + self.y
        return np.sqrt(tot)

    def has_ybar(self):
        b = self.ybar()
        return b is not None and bool(np.any(b != 0))


def build_worlds(ftype, unc, v, roles, data="regular", share=None):
    """the worlds of the fits of one plot; share: None / 'function' / 'object' (see UNC_SHARED)"""
    if not share:
        return [World(ftype, unc, v, r, data) for r in roles]
    if len({MODEL_ROLE[r] for r in roles}) != 1:
        raise ValueError("fits that share a model function need roles with the same model: %r" % (roles,))
    fn = World(ftype, unc, v, roles[0], data).fn
    if share == "function":
        model = fn
    elif share == "object":
        import kafe2
        from kafe2.fit.histogram import HistModelFunction
        from kafe2.fit.indexed import IndexedModelFunction

        model = {"xy": kafe2.ModelFunctionBase, "unbinned": kafe2.ModelFunctionBase, "indexed": IndexedModelFunction, "hist": HistModelFunction}[ftype](fn)
    else:
        raise ValueError(share)
    return [World(ftype, unc, v, r, data, model=model) for r in roles]


def make_multi(worlds, unc):
    """MultiFit of the (unfitted) fits of `worlds`; updates the reference numbers of the worlds with what is declared on the MultiFit"""
    import kafe2

    with warnings.catch_warnings():
        warnings.simplefilter("ignore")
        m = kafe2.MultiFit([w.fit for w in worlds])
        if unc == "y+msh":
            # one source shared by all members (fully correlated between all points of all members), declared on the MultiFit
            m.add_error(MSH, fits="all", axis="y" if worlds[0].ftype == "xy" else None, correlation=1.0)
            for w in worlds:
                w.yerr = np.sqrt(w.yerr**2 + MSH**2)
    for w in worlds:
        w.multi = w.multi_num = m
    return m


# ---------------------------------------------------------------------------------------
# artist read-back


def read_errorbar(cont):
    """ErrorbarContainer -> dict(x, y, xlo, xhi, ylo, yhi, geometry_ok)"""
    dl, _caps, bars = cont.lines
    out = dict(x=None, y=None, xlo=None, xhi=None, ylo=None, yhi=None, geom=True, marker=None)
    if dl is not None:
        x, y = dl.get_data()
        out["x"], out["y"] = np.asarray(x, dtype=float), np.asarray(y, dtype=float)
        out["marker"] = dl.get_marker()
    bars = list(bars)
    i = 0
    if cont.has_xerr:
        seg = np.asarray(bars[i].get_segments(), dtype=float)
        i += 1
        if seg.size:
            out["xlo"], out["xhi"] = seg[:, 0, 0], seg[:, 1, 0]
            out["xbar_y"] = seg[:, 0, 1]
            out["geom"] = out["geom"] and bool(np.all(seg[:, 0, 1] == seg[:, 1, 1]))
    if cont.has_yerr:
        seg = np.asarray(bars[i].get_segments(), dtype=float)
        i += 1
        if seg.size:
            out["ylo"], out["yhi"] = seg[:, 0, 1], seg[:, 1, 1]
            out["ybar_x"] = seg[:, 0, 0]
            out["geom"] = out["geom"] and bool(np.all(seg[:, 0, 0] == seg[:, 1, 0]))
    out["n_barcols"] = len(bars)
    return out


def read_band(poly):
    """fill_between PolyCollection -> (x, lower, upper): the extreme y of the polygon vertices at each distinct x"""
    paths = poly.get_paths()
    verts = np.concatenate([np.asarray(p.vertices, dtype=float) for p in paths])
    order = np.lexsort((verts[:, 1], verts[:, 0]))
    verts = verts[order]
    xs, start = np.unique(verts[:, 0], return_index=True)
    lo = np.minimum.reduceat(verts[:, 1], start)
    hi = np.maximum.reduceat(verts[:, 1], start)
    return xs, lo, hi, len(paths)


def read_line(line):
    x, y = line.get_data()
    return np.asarray(x, dtype=float), np.asarray(y, dtype=float)


def children_ids(ax):
    ids = set()
    for c in ax.containers:
        ids.add(id(c))
    for a in list(ax.lines) + list(ax.collections) + list(ax.patches):
        ids.add(id(a))
    return ids


# ---------------------------------------------------------------------------------------
# legend parser

_NUM = r"-?\d+\.?\d*(?:\\times10\^\{-?\d*\})?|-?\.\d+(?:\\times10\^\{-?\d*\})?"


class Shown(object):
    """A decimal number as displayed: value and the unit of its last displayed digit."""

    def __init__(self, text):
        self.text = text
        t = text.strip()
        # mantissa, optionally with a power of ten in LaTeX ('\times10^{-6}') or in Python's notation ('-2.e-06': what a value
        # much smaller than its uncertainty is displayed as)
        m = re.fullmatch(r"(-?\d*\.?\d*)(?:\\times10\^\{(-?\d*)\}|[eE]\+?(-?\d+))?", t)
        if not m or m.group(1) in ("", "-", ".", "-."):
            raise ValueError("not a displayed number: %r" % text)
        mant, ex = m.group(1), (m.group(2) if m.group(3) is None else m.group(3))
        d = decimal.Decimal(mant)
        e = int(ex) if ex not in (None, "", "-") else 0
        self.value = d.scaleb(e)
        self.unit = decimal.Decimal(1).scaleb(d.as_tuple().exponent + e)

    def agrees(self, true):
        """|true - shown| <= half a unit of the last displayed digit (ties accepted)"""
        try:
            t = decimal.Decimal(float(true))
        except (TypeError, ValueError):
            return False
        if not t.is_finite():
            return False
        return abs(t - self.value) <= self.unit / 2

    def __repr__(self):
        return "Shown(%s)" % self.text


def _math_groups(s):
    return re.findall(r"\$([^$]*)\$", s)


def _plain_name(latex):
    s = re.sub(r"\\tt\s*", "", latex)
    s = s.replace("{", "").replace("}", "").replace("\\_", "_").replace("\\", "").strip()
    return s


def parse_info(text):
    """Parse one fit-info legend block -> dict(function=<plain model function name>, pars=[...], gof=[...]).

    pars: dict(name, value=Shown, err=Shown|None, up=Shown|None, down=Shown|None, fixed=bool)
    gof : dict(kind in {'value','per_ndf','probability'}, label, value=Shown, ndf=int|None, ratio=Shown|None)
    """
    lines = [ln for ln in text.split("\n") if ln.strip()]
    head = lines[0]
    g = _math_groups(head)
    fname = _plain_name(re.split(r"\\left\(|\(", g[0])[0]) if g else head
    fname = re.sub(r"_i$", "", fname)
    out = dict(function=fname, pars=[], gof=[], raw=text)
    out["global"] = []  # lines about the MultiFit the fit is a member of (same entries as 'gof')
    for ln in lines[1:]:
        s = ln.strip()
        if s.startswith("$\\hookrightarrow$ global"):
            rest = s[len("$\\hookrightarrow$ global") :]
            gg = _math_groups(rest)
            expr = gg[-1]
            if "probability" in rest:
                out["global"].append(dict(kind="probability", label="global chi2 probability", value=Shown(expr), ndf=None, ratio=None))
            elif "ndf" in rest:
                parts = [p.strip() for p in expr.split(" = ")]
                if "ndf" in parts[0]:
                    parts = parts[1:]
                vn = [p.strip() for p in parts[0].split(" / ")]
                out["global"].append(dict(kind="per_ndf", label=rest, value=Shown(vn[0]), ndf=int(vn[1]), ratio=Shown(parts[1]) if len(parts) > 1 else None))
            else:
                out["global"].append(dict(kind="value", label=rest, value=Shown(expr.split(" = ")[-1].strip()), ndf=None, ratio=None))
            continue
        if s.startswith("$\\hookrightarrow"):
            body = s[len("$\\hookrightarrow") :]
            if "probability" in body:
                gg = _math_groups("$" + body)
                out["gof"].append(dict(kind="probability", label="chi2 probability", value=Shown(gg[-1]), ndf=None, ratio=None))
                continue
            gg = _math_groups("$" + body)
            expr = gg[-1]
            parts = [p.strip() for p in expr.split(" = ")]
            label = parts[0]
            if "ndf" in label:
                vn = [p.strip() for p in parts[1].split(" / ")]
                out["gof"].append(
                    dict(kind="per_ndf", label=label, value=Shown(vn[0]), ndf=int(vn[1]), ratio=Shown(parts[2]) if len(parts) > 2 else None)
                )
            else:
                out["gof"].append(dict(kind="value", label=label, value=Shown(parts[1]), ndf=None, ratio=None))
            continue
        # parameter line:  $name$ = $...$ [ (fixed)]
        name_part, _, rest = s.partition(" = ")
        name = _plain_name(_math_groups(name_part)[0])
        fixed = rest.rstrip().endswith("(fixed)")
        body = _math_groups(rest)[0]
        entry = dict(name=name, value=None, err=None, up=None, down=None, fixed=fixed)
        m = re.fullmatch(r"\{(.*)\}\^\{\+(.*)\}_\{-(.*)\}", body)
        if m:
            entry["value"], entry["up"], entry["down"] = Shown(m.group(1)), Shown(m.group(2)), Shown(m.group(3))
        elif "\\pm" in body:
            a, b = body.split("\\pm")
            entry["value"], entry["err"] = Shown(a), Shown(b)
        else:
            entry["value"] = Shown(body)
        out["pars"].append(entry)
    return out


def close(a, b, rtol=1e-9, atol_scale=1e-12):
    """arrays equal up to round-off: |a-b| <= rtol*|b| + atol_scale*max|b| (nan never equal)"""
    a = np.asarray(a, dtype=float)
    b = np.asarray(b, dtype=float)
    if a.shape != b.shape:
        return False
    if a.size == 0:
        return True
    if not (np.all(np.isfinite(a)) and np.all(np.isfinite(b))):
        return False
    sc = float(np.max(np.abs(b))) if b.size else 0.0
    return bool(np.all(np.abs(a - b) <= rtol * np.abs(b) + atol_scale * max(sc, 1e-300)))


def maxdev(a, b):
    a = np.asarray(a, dtype=float)
    b = np.asarray(b, dtype=float)
    if a.shape != b.shape or a.size == 0:
        return float("nan")
    sc = float(np.max(np.abs(b))) or 1.0
    return float(np.max(np.abs(a - b)) / sc)
