"""Closed-form generalised least squares for models linear in their parameters (reference for C05/C07/C11/C15):
constraints enter as additional measurement rows, fixed parameters as deleted columns."""
import numpy as np

from . import ref


def design(fn_of_pars, npar):
    """fn_of_pars(list of parameter values) -> model vector.  Returns (W, b) with model = W p + b (exact for linear models)."""
    zero = [0.0] * npar
    b = np.asarray(fn_of_pars(zero), dtype=float)
    cols = []
    for j in range(npar):
        e = list(zero)
        e[j] = 1.0
        cols.append(np.asarray(fn_of_pars(e), dtype=float) - b)
    return np.array(cols).T, b


def solve(W, b, d, V, par_names, cons=(), fixed=None):
    """-> dict(values (all parameters), cov (full, zero rows/cols for fixed), chi2, logdet)"""
    fixed = dict(fixed or {})
    P = len(par_names)
    rows_W, rows_d, blocks = [W], [np.asarray(d, dtype=float) - b], [np.asarray(V, dtype=float)]
    for spec in cons:
        if spec["form"] == "simple":
            e = np.zeros((1, P))
            e[0, par_names.index(spec["name"])] = 1.0
            sig = spec["uncertainty"] * spec["value"] if spec["relative"] else spec["uncertainty"]
            rows_W.append(e)
            rows_d.append(np.array([spec["value"]], dtype=float))
            blocks.append(np.array([[sig**2]]))
        else:
            k = len(spec["names"])
            e = np.zeros((k, P))
            for i, n in enumerate(spec["names"]):
                e[i, par_names.index(n)] = 1.0
            vals = np.asarray(spec["values"], dtype=float)
            M = np.asarray(spec["matrix"], dtype=float)
            if spec["matrix_type"] == "cor":
                u = np.asarray(spec["uncertainties"], dtype=float)
                if spec["relative"]:
                    u = u * vals
                cov = M * np.outer(u, u)
            else:
                cov = M * np.outer(vals, vals) if spec["relative"] else M
            rows_W.append(e)
            rows_d.append(vals)
            blocks.append(cov)
    Wt = np.vstack(rows_W)
    dt = np.concatenate(rows_d)
    n = sum(len(x) for x in rows_d)
    Vt = np.zeros((n, n))
    o = 0
    for B in blocks:
        k = B.shape[0]
        Vt[o : o + k, o : o + k] = B
        o += k
    free = [i for i, p in enumerate(par_names) if p not in fixed]
    fx = [i for i, p in enumerate(par_names) if p in fixed]
    pfix = np.array([fixed[par_names[i]] for i in fx], dtype=float)
    dt2 = dt - (Wt[:, fx].dot(pfix) if fx else 0.0)
    Wf = Wt[:, free]
    Vi = np.linalg.inv(Vt)
    A = Wf.T.dot(Vi).dot(Wf)
    C = np.linalg.inv(A)
    pf = C.dot(Wf.T.dot(Vi).dot(dt2))
    r = dt2 - Wf.dot(pf)
    chi2 = float(r.dot(Vi).dot(r))
    values = np.zeros(P)
    values[free] = pf
    if fx:
        values[fx] = pfix
    cov = np.zeros((P, P))
    for a, i in enumerate(free):
        for c, j in enumerate(free):
            cov[i, j] = C[a, c]
    sign, logdet = np.linalg.slogdet(np.asarray(V, dtype=float))
    return dict(values=values, cov=cov, chi2=chi2, logdet=float(logdet))
