"""Generic structural fingerprint of live objects, used ONLY to merge states in BFS.

It names no kafe2 attribute: it walks vars(obj), sequences, dicts, sets, numpy arrays, weak
references, functions (qualified name, defaults, closure cells) with an identity memo.  Objects the
harness has labelled (``labels``: id(obj) -> name) are referenced by name when met inside another
object, so sharing structure and parent sets are canonical.  Equal fingerprint <=> equal reachable
private state, hence equal futures (the code is deterministic); the abstraction can only be too
fine.
"""
import functools
import types
import weakref

import numpy as np

from .core import h64

_PRIM = (type(None), bool, int, str, bytes, complex)


class Unwalkable(Exception):
    pass


def _fp(obj, labels, memo, top):
    if not top and id(obj) in labels:
        return ("ref", labels[id(obj)])
    if isinstance(obj, _PRIM):
        return (type(obj).__name__, obj)
    if isinstance(obj, float):
        return ("float", repr(obj))
    if isinstance(obj, np.generic):
        return ("npg", obj.dtype.str, repr(obj.item()))
    if isinstance(obj, np.ndarray):
        if obj.dtype == object:
            return ("ndo", obj.shape, tuple(_fp(x, labels, memo, False) for x in obj.ravel().tolist()))
        return ("nd", obj.shape, obj.dtype.str, h64(np.ascontiguousarray(obj).tobytes()))
    if isinstance(obj, (list, tuple)):
        return (type(obj).__name__, tuple(_fp(x, labels, memo, False) for x in obj))
    if isinstance(obj, dict):
        items = [(_fp(k, labels, memo, False), _fp(v, labels, memo, False)) for k, v in obj.items()]
        return ("dict", tuple(sorted(items, key=repr)))
    if isinstance(obj, (set, frozenset)):
        return ("set", tuple(sorted((_fp(x, labels, memo, False) for x in obj), key=repr)))
    if isinstance(obj, weakref.ref):
        return ("wr", _fp(obj(), labels, memo, False))
    if hasattr(obj, "__kmc_fp__"):
        return ("kmc", obj.__kmc_fp__())
    if isinstance(obj, functools.partial):
        return ("partial", _fp(obj.func, labels, memo, False), _fp(obj.args, labels, memo, False), _fp(obj.keywords, labels, memo, False))
    if isinstance(obj, types.MethodType):
        return ("meth", obj.__func__.__qualname__, _fp(obj.__self__, labels, memo, False))
    if isinstance(obj, (types.BuiltinFunctionType, types.BuiltinMethodType, type)):
        return ("builtin", getattr(obj, "__module__", None), getattr(obj, "__qualname__", repr(obj)))
    if isinstance(obj, types.FunctionType):
        if id(obj) in memo:
            return ("cyc", memo[id(obj)])
        memo[id(obj)] = len(memo)
        cells = ()
        if obj.__closure__:
            cells = tuple(_fp(c.cell_contents, labels, memo, False) for c in obj.__closure__)
        return ("fn", obj.__module__, obj.__qualname__, cells, _fp(obj.__defaults__, labels, memo, False))
    if hasattr(obj, "__dict__"):
        if id(obj) in memo:
            return ("cyc", memo[id(obj)])
        memo[id(obj)] = len(memo)
        items = tuple((k, _fp(v, labels, memo, False)) for k, v in sorted(vars(obj).items()))
        return ("obj", type(obj).__qualname__, items)
    raise Unwalkable(type(obj).__name__)


def fingerprint(roots):
    """roots: dict name -> object (the labelled objects). Returns a 64 bit hash."""
    labels = {id(o): n for n, o in roots.items()}
    parts = []
    for n in sorted(roots):
        parts.append((n, _fp(roots[n], labels, {}, True)))
    return h64(parts)


def structure(roots):
    labels = {id(o): n for n, o in roots.items()}
    return [(n, _fp(roots[n], labels, {}, True)) for n in sorted(roots)]
