"""C18 - a plot draws exactly the fit's numbers.

Mode D (complete product): fit type x uncertainty configuration x data region x axis scales x plot option x {one fit, two fits},
plus two smaller complete products: the cost-function dimension (every built-in Poisson-type cost function x {without, with} a declared
source, the Gaussian likelihoods with a source; cost given by name and as an object) x data region x panel, and the plotted-object
dimension (a MultiFit of two members {without, with} a common parameter instead of a list of fits) x fit type x member configuration x option,
and the model-function dimension (how the two fits of one plot come by their model function: separate functions as everywhere else / the
same Python function handed to both fits / one ModelFunctionBase-derived object handed to both fits, also as members of a MultiFit) x fit
type x uncertainty configuration x option,
(data region: all values positive and inside the range / one zero count or empty bin / histogram entries outside the bin range /
histogram model given as counts, density=False),
each executed on the real kafe2.Plot (Agg backend) after do_fit().  The matplotlib artists of Plot.axes are read back
through the public matplotlib API and compared with the plain numbers the fits were built from (data, declared
pointwise uncertainties, bin edges, the python model function evaluated at fit.parameter_values) and with the public
results of the fit (error_band, parameter values / errors, goodness of fit, ndf, probability, cost value).
"""
import contextlib
import io
import logging
import warnings

import numpy as np

from kmc import c18_plotread as R
from kmc.core import JobResult

logging.getLogger("matplotlib.font_manager").setLevel(logging.ERROR)  # 'findfont' chatter on stderr

PROPERTY = "C18"
RULE = (
    "configurations = (fit type, uncertainty configuration, data region, axis scales, plot option, number of fits on the plot); each is built "
    "from fixed arrays on the real API, fitted, plotted with kafe2.Plot and every data-bearing artist of Plot.axes (error bar "
    "containers, model lines / bars / steps, bands, ratio / residual / pull panels, figure legend) is read back and compared; a "
    "configuration is non-trivial when at least one error bar has non-zero length, a panel or a band is drawn, or two fits share the plot; "
    "when the plotted object is a MultiFit the members are fitted through it only, every member is compared like a single fit and the "
    "legend block of every member additionally with the MultiFit's results (parameter values / uncertainties by name, global lines); "
    "when two fits of different data use one model function (the same Python function / one shared model function object) every fit is "
    "still compared with its own numbers, the legend blocks of equal function name are taken in the order of the fits"
)
ASSUMPTIONS = [
    "the cost functions that 'imply Poisson statistics' are the Poisson likelihood, the Poisson likelihood ratio and the Gauss approximation of the Poisson likelihood (however they are specified: by name or as a cost function object); chi2 and the Gaussian likelihood / likelihood ratio do not: their bars show the declared sources only",
    "a member of a plotted MultiFit is drawn with the member's own public numbers (model function at member.parameter_values, member goodness of fit / ndf in its legend block); its parameter values / uncertainties in the legend must also agree with the MultiFit's results for the parameter of that name, the analytic band oracle uses the member's block of the MultiFit's covariance matrix, and the 'global' legend lines are compared with goodness_of_fit, ndf, chi2_probability and cost_function_value of the MultiFit; which global lines are shown is not prescribed (at least one is required)",
    "separate figures of a MultiFit with asymmetric errors: the legend of the first figure re-minimises the whole MultiFit (see the assumption on asymmetric errors), so the members of the later figures are drawn at, and compared with, the parameters the plotted MultiFit has after the plot call instead of those of the never-plotted twin",
    "an uncertainty source declared on the MultiFit for all members belongs to the total pointwise uncertainty of every member (error bars, ratio / residual bars, pull denominators)",
    "the association artist -> (fit index, subplot type) is taken from the documented return value of Plot.plot() and every such artist is verified to be a child of the corresponding axes in Plot.axes",
    "legend blocks of fits whose model functions have the same name stand in the order of the fits on the plot (blocks of different function names are told apart by the name)",
    "pull panels are only requested when every point of the fit has a non-zero pointwise y uncertainty (a pull without uncertainty is undefined: no source at all, or a zero value whose only uncertainty is the Poisson term or a source relative to the data); ratio / residual / pull of an unbinned fit must be rejected with TypeError (no y data)",
    "a point whose total y uncertainty is zero (a zero count under pure Poisson statistics, a zero value with data-relative y sources only) has an error bar of zero length; the bars of the other points are the statement's 'total pointwise uncertainties' regardless",
    "the histogram model is scaled to the number of entries of the container including underflow and overflow (HistContainer.n_entries; the model bars are compared with exactly that); for unequal bin widths, where the scale of the density curve is left open, the factor per entry is still required to be the one of the same binning without entries outside the range (curve and bars are scaled to the same number of entries)",
    "x log scale is not requested for indexed fits (the adapter declares only a linear x scale)",
    "the histogram density curve is required to be proportional to the model density at the current parameters; the factor N * bin width is only demanded for equal-width bins (for unequal widths the statement leaves the scale open)",
    "the sigma of ratio / residual / pull panels of an xy fit is the pointwise y uncertainty (not the x-projected total), as the statement says",
    "legend numbers agree when the fit result lies within half a unit of the last displayed digit (ties accepted); which digits are displayed is C17's business",
    "model functions are positive on the data so that ratio panels are defined",
    "a plot with asymmetric_parameter_errors=True makes the fit compute them, which re-minimises and moves the parameter values by a fraction of the minimiser tolerance (measured <= 2e-5 relative, <= 1e-4 sigma); the drawn numbers are therefore compared with an identically built and fitted twin that is never plotted ('after do_fit()'), legend numbers may agree with either; the movement is recorded as a coverage fact, not as a violation",
]

OPTS = ["plain", "ratio", "residual", "pull", "asym", "separate"]
OPTS_THOROUGH = OPTS + ["ratio+asym", "residual+separate", "pull+separate", "pull+asym", "ratio+separate", "asym+separate", "residual+asym+separate"]
RTOL = 1e-9  # measured deviations on the unchanged tree are <= 2e-15 (recorded per run in the coverage facts)
BAND_ANALYTIC_RTOL = 1e-7  # kafe2 differentiates numerically (numdifftools); measured <= 1.1e-11 for the xy models used here


def opt_kwargs(opt):
    parts = opt.split("+")
    kw = {}
    for k in ("ratio", "residual", "pull"):
        if k in parts:
            kw[k] = True
    if "asym" in parts:
        kw["asymmetric_parameter_errors"] = True
    return kw, ("separate" in parts)


def panel_of(opt):
    for k in ("ratio", "residual", "pull"):
        if k in opt.split("+"):
            return k
    return None


def configs(tier, v):
    out = []
    for ftype in ("xy", "indexed", "hist", "unbinned"):
        uncs = list(R.UNC[ftype]) + (R.UNC_THOROUGH_EXTRA[ftype] if tier == "thorough" else [])
        for unc in uncs:
            for data in R.DATA[ftype]:
                for axes in R.axes_for(ftype, data, tier):
                    out.append((ftype, unc, data, axes, v))
    return out


COST_OPTS = ["ratio", "residual", "pull"]  # every panel that draws the pointwise uncertainty (each of them also draws the main panel)
ROLESETS = {"quick": ("A", "AB"), "thorough": ("A", "AB", "BA", "B")}
COST_ROLESETS = {"quick": ("AB",), "thorough": ROLESETS["thorough"]}
# the plotted object is a MultiFit: of two members without a common parameter (A, B) and of two members that share one (A, C)
MULTI_ROLESETS = ("m:AB", "m:AC")
# two fits of different data on one plot that use ONE model function: the same Python function handed to both fits ('f:') / one model
# function object handed to both fits ('o:'); role D = the model function of role A on the data of role B
# ('mf:' / 'mo:': the plotted object is a MultiFit of these two fits, all of whose parameters are then common to both members)
SHARE_ROLESETS = {"quick": ("f:AD", "o:AD", "mo:AD"), "thorough": ("f:AD", "o:AD", "f:DA", "o:DA", "mf:AD", "mo:AD")}
_SHARE_PREFIX = {"f": "function", "o": "object"}


def roles_of(roleset):
    """'AB' -> (['A', 'B'], False, None); 'm:AC' -> (['A', 'C'], True, None); 'o:AD' -> (['A', 'D'], False, 'object'); 'mo:AD' -> (['A', 'D'], True, 'object')"""
    prefix, _, names = roleset.rpartition(":")
    multi = prefix.startswith("m")
    share = _SHARE_PREFIX.get(prefix[-1:]) if prefix else None
    return list(names), multi, share


def jobs(tier, seed):
    vals = [seed % 3] if tier == "quick" else [0, 1, 2]
    specs = []
    for v in vals:
        for ftype, unc, data, axes, vv in configs(tier, v):
            opts = OPTS if tier == "quick" else OPTS_THOROUGH
            nchunk = {"xy": 3, "hist": 2}.get(ftype, 1) * (1 if tier == "quick" else 2)
            for c in range(nchunk):
                specs.append((ftype, unc, axes, vv, tier, tuple(opts[c::nchunk]), data, ROLESETS[tier]))
    # heavy jobs first (xy plots have the most artists), cheap ones fill the gaps
    weight = {"xy": 0, "hist": 1, "indexed": 2, "unbinned": 3}
    specs.sort(key=lambda s: (weight[s[0]], s[3]))
    extra = []
    for v in vals:
        for ftype in ("xy", "indexed", "hist", "unbinned"):
            # the cost-function dimension: cost function x {without, with} a declared source x data region x panel
            for unc in R.UNC_COST[ftype]:
                if tier == "thorough" and unc in R.UNC_THOROUGH_EXTRA[ftype]:
                    continue  # already in the first product
                for data in ("regular", "zero"):
                    for axes in R.axes_for(ftype, "zero", tier):  # linear (quick), linear and fully logarithmic (thorough)
                        opts = COST_OPTS if tier == "quick" else OPTS
                        nchunk = 1 if tier == "quick" else 2
                        for c in range(nchunk):
                            extra.append((ftype, unc, axes, v, tier, tuple(opts[c::nchunk]), data, COST_ROLESETS[tier]))
            # the plotted object is a MultiFit
            for unc in R.UNC_MULTI[ftype]:
                for axes in R.axes_for(ftype, "zero", tier):
                    opts = OPTS if tier == "quick" else OPTS_THOROUGH
                    nchunk = 2 if tier == "quick" else 4
                    for c in range(nchunk):
                        extra.append((ftype, unc, axes, v, tier, tuple(opts[c::nchunk]), "regular", MULTI_ROLESETS))
            # two fits on one plot that share their model function (the same Python function / one model function object)
            for unc in R.UNC_SHARED[ftype]:
                for axes in R.axes_for(ftype, "zero", tier):
                    opts = OPTS if tier == "quick" else OPTS_THOROUGH
                    nchunk = 1 if tier == "quick" else 2
                    for c in range(nchunk):
                        extra.append((ftype, unc, axes, v, tier, tuple(opts[c::nchunk]), "regular", SHARE_ROLESETS[tier]))
    extra.sort(key=lambda s: (weight[s[0]], s[3]))
    return specs + extra


DETCHECK_JOB = 0


def bound(tier, seed):
    return (
        "complete product: fit types {xy, indexed, histogram, unbinned} x uncertainty configurations %s x axis scales {lin, log x, log y, "
        "log x+y where the adapter allows} x options %s x {one fit, two fits on one plot%s}; valuation(s) %s; every artist of every panel compared; "
        "data regions {regular on all axis scales; one zero count / empty bin (xy, indexed, histogram), histogram entries below and above "
        "the bin range and histogram model given as counts (density=False) on %s} x all of the other dimensions; "
        "cost-function product: fit types {xy, indexed, histogram} x cost functions {Poisson likelihood, Poisson likelihood ratio, Gauss "
        "approximation} x {no declared source, one y source} and {Gaussian likelihood, Gaussian likelihood ratio} x {one y source} (those not "
        "in the first product) x data regions {regular, one zero count / empty bin} x %s, the cost function given by name (first fit) and as "
        "a cost function object (second fit); "
        "MultiFit product: the plotted object is a MultiFit of two members {without, with} a parameter common to both x fit types {xy, "
        "indexed, histogram, unbinned} x member configurations {no source, y sources, y sources + one source declared on the MultiFit and "
        "shared by the members (xy, indexed), Poisson likelihood, Poisson likelihood ratio} x %s; "
        "model-function product: two fits of different data that use ONE model function {the same Python function handed to both, one model function "
        "object handed to both%s} x fit types {xy, indexed, histogram, unbinned} x configurations {y sources, y sources + a parameter fixed at "
        "different values (xy), Poisson likelihood; unbinned: none} x %s"
        % (
            "{none, y (two sources, one correlated), x+y (absolute and relative), x + y relative to the data only, Poisson nll, Gauss approximation + y source}"
            + ("" if tier == "quick" else " + {Poisson nll + y source, y with a fixed parameter}"),
            "{plain, ratio, residual, pull, asymmetric errors, separate figures}" if tier == "quick" else "{plain, ratio, residual, pull, asymmetric errors, separate figures and 7 combinations of them}",
            "" if tier == "quick" else ", both orders of the two fits",
            (seed % 3) if tier == "quick" else "0,1,2",
            "linear axes" if tier == "quick" else "linear and fully logarithmic axes",
            "panels {ratio, residual, pull} on linear axes with two fits on the plot" if tier == "quick" else "the six single options x linear and fully logarithmic axes x one / two fits in both orders",
            "the six options on linear axes" if tier == "quick" else "all 13 options x linear and fully logarithmic axes",
            "; one object handed to both members of a plotted MultiFit" if tier == "quick" else ", both orders; either way as the members of a plotted MultiFit",
            "the six options on linear axes" if tier == "quick" else "all 13 options x linear and fully logarithmic axes",
        )
    )


# ---------------------------------------------------------------------------------------
# one execution


class Rec(object):
    """collects comparisons of one execution"""

    def __init__(self):
        self.bad = []  # dicts(observable, expected, actual, mode)
        self.n = 0
        self.classes = []
        self.maxdev = 0.0
        self.obs = []

    def cmp(self, observable, actual, expected, cls, rtol=RTOL):
        self.n += 1
        ok = R.close(actual, expected, rtol=rtol)
        if ok and rtol == RTOL:
            d = R.maxdev(actual, expected)
            if d == d:
                self.maxdev = max(self.maxdev, d)
        self.classes.append((cls, "ok" if ok else "MISMATCH"))
        self.obs.append((observable, np.round(np.asarray(actual, dtype=float), 9).tolist()))
        if not ok:
            self.bad.append(dict(observable=observable, expected=np.asarray(expected).tolist(), actual=np.asarray(actual).tolist(), mode="wrong-value"))
        return ok

    def truth(self, observable, cond, expected, actual, cls, mode="wrong-value"):
        self.n += 1
        self.classes.append((cls, "ok" if cond else "MISMATCH"))
        self.obs.append((observable, bool(cond)))
        if not cond:
            self.bad.append(dict(observable=observable, expected=expected, actual=actual, mode=mode))
        return cond


def _xs_span_ok(x, xlim):
    return R.close([x[0], x[-1]], [xlim[0], xlim[1]]) and bool(np.all(np.diff(x) > 0))


def _check_data_bars(rec, tag, eb, w, y_expected, ybar_expected, kind):
    """common part of main / ratio / residual panels: marker coordinates and bar lengths"""
    ft = w.ftype
    xdata = np.arange(len(w.y), dtype=float) if ft == "indexed" else w.x
    rec.cmp(tag + ":marker_x", eb["x"], xdata, (ft, kind, "marker_x"))
    rec.cmp(tag + ":marker_y", eb["y"], y_expected, (ft, kind, "marker_y"))
    rec.truth(tag + ":bar_geometry", eb["geom"], "horizontal x bars / vertical y bars", "skewed", (ft, kind, "geometry"))
    # x bars
    if ft in ("xy", "hist"):
        if eb["xlo"] is not None:
            rec.cmp(tag + ":xbar_lower", xdata - eb["xlo"], w.xerr, (ft, kind, "xbar"))
            rec.cmp(tag + ":xbar_upper", eb["xhi"] - xdata, w.xerr, (ft, kind, "xbar"))
            rec.cmp(tag + ":xbar_level", eb["xbar_y"], y_expected, (ft, kind, "xbar_level"))
            if ft == "hist":
                rec.cmp(tag + ":xbar_spans_bin", np.concatenate([eb["xlo"], eb["xhi"]]), np.concatenate([w.edges[:-1], w.edges[1:]]), (ft, kind, "bin_span"))
        else:
            rec.truth(tag + ":xbar_present", not np.any(w.xerr != 0), "x error bars", "none drawn", (ft, kind, "xbar_missing"))
    # y bars
    if ybar_expected is not None and np.any(ybar_expected != 0):
        if rec.truth(tag + ":ybar_present", eb["ylo"] is not None, "y error bars", "none drawn", (ft, kind, "ybar_present")):
            # some bars of zero length among bars of non-zero length: its own outcome class
            cls = "ybar_partial_zero" if np.any(ybar_expected == 0) else "ybar"
            rec.cmp(tag + ":ybar_lower", y_expected - eb["ylo"], ybar_expected, (ft, kind, cls))
            rec.cmp(tag + ":ybar_upper", eb["yhi"] - y_expected, ybar_expected, (ft, kind, cls))
            rec.cmp(tag + ":ybar_position", eb["ybar_x"], xdata, (ft, kind, "ybar_x"))
    elif eb["ylo"] is not None:
        rec.cmp(tag + ":ybar_zero", np.concatenate([eb["ylo"], eb["yhi"]]), np.concatenate([y_expected, y_expected]), (ft, kind, "ybar_zero"))


def _check_band(rec, tag, poly, w, xlim, kind):
    xs, lo, hi, npaths = R.read_band(poly)
    fit = w.num
    m = w.fn(xs, *w.pars())
    b = np.asarray(fit.error_band(xs), dtype=float)  # fit = the reference twin (never plotted) when the option re-minimises
    rec.truth(tag + ":band_one_polygon", npaths == 1, 1, npaths, ("xy", kind, "band_paths"))
    rec.truth(tag + ":band_x_range", _xs_span_ok(xs, xlim) and len(xs) >= 50, list(xlim), [float(xs[0]), float(xs[-1]), len(xs)], ("xy", kind, "band_range"))
    if kind == "main":
        elo, ehi = m - b, m + b
    elif kind == "ratio":
        elo, ehi = 1.0 - b / m, 1.0 + b / m
    else:
        elo, ehi = -b, b
    rec.cmp(tag + ":band_lower", lo, np.minimum(elo, ehi), ("xy", kind, "band"))
    rec.cmp(tag + ":band_upper", hi, np.maximum(elo, ehi), ("xy", kind, "band"))
    # second, independent oracle: analytic propagation of the public parameter covariance matrix
    cov = fit.parameter_cov_mat
    if w.multi_num is not None:
        # the parameter uncertainty of a member of a MultiFit is the MultiFit's: the member's block of its covariance matrix
        cov = w.multi_num.parameter_cov_mat
        if cov is not None:
            idx = [list(w.multi_num.parameter_names).index(n) for n in fit.parameter_names]
            cov = np.asarray(cov)[np.ix_(idx, idx)]
    if cov is not None and w.jac is not None:
        free = [i for i, n in enumerate(fit.parameter_names) if n not in w.fixed]
        J = w.jac(xs, *w.pars())[free]
        C = np.asarray(cov)[np.ix_(free, free)]
        ba = np.sqrt(np.einsum("ik,ij,jk->k", J, C, J))
        half = 0.5 * (hi - lo)
        scale = dict(main=1.0, ratio=np.abs(m), residual=1.0)[kind]
        rec.cmp(tag + ":band_halfwidth_analytic", half * scale, ba, ("xy", kind, "band_analytic"), rtol=BAND_ANALYTIC_RTOL)


def check_fit_in_axes(rec, w, label, axd, plots_by_axes, fit_index, opt):
    """compare all artists of fit `fit_index` (world w) in the figure whose axes dict is axd"""
    ft = w.ftype
    pars = w.pars()
    ybar = w.ybar()

    def arts(axes_key):
        return {d["type"]: d["artist"] for d in plots_by_axes.get(axes_key, {}).get("plots", []) if d["fit_index"] == fit_index}

    main = axd["main"]
    xlim = main.get_xlim()
    kids = R.children_ids(main)
    a = arts("main")
    tag = label + ":main"

    def is_child(art, ids):
        if art is None:
            return True
        if isinstance(art, list):
            return all(id(x) in ids for x in art)
        return id(art) in ids

    for t, art in a.items():
        rec.truth(tag + ":artist_in_axes:" + t, is_child(art, kids), "artist is a child of Plot.axes[...]['main']", "foreign artist", (ft, "main", "child"))

    # -- data
    d = a.get("data")
    if ft == "unbinned":
        seg = np.asarray(d.get_segments(), dtype=float)
        rec.truth(tag + ":rug_vertical", bool(np.all(seg[:, 0, 0] == seg[:, 1, 0])), "vertical rug lines", "skewed", (ft, "main", "geometry"))
        rec.cmp(tag + ":marker_x", np.sort(seg[:, 0, 0]), w.x, (ft, "main", "marker_x"))
    else:
        if isinstance(d, list):  # plain markers (indexed fit without any uncertainty)
            x, y = R.read_line(d[0])
            eb = dict(x=x, y=y, xlo=None, xhi=None, ylo=None, yhi=None, geom=True)
        else:
            eb = R.read_errorbar(d)
        _check_data_bars(rec, tag, eb, w, w.y, ybar, "main")

    # -- model
    if ft in ("xy", "unbinned"):
        ln = a.get("model_line")
        if rec.truth(tag + ":model_line_present", isinstance(ln, list) and len(ln) == 1, "one model line", repr(type(ln)), (ft, "main", "model_line_present")):
            x, y = R.read_line(ln[0])
            rec.cmp(tag + ":model_line_y", y, w.fn(x, *pars), (ft, "main", "model_line"))
            rec.truth(tag + ":model_line_range", _xs_span_ok(x, xlim) and len(x) >= 50, list(xlim), [float(x[0]), float(x[-1]), len(x)], (ft, "main", "model_line_range"))
    if ft == "xy":
        band = a.get("model_error_band")
        if band is None:
            rec.truth(tag + ":band_present", not w.num.errors_valid, "uncertainty band", "none drawn", (ft, "main", "band_missing"))
        else:
            _check_band(rec, tag, band, w, xlim, "main")
    if ft == "indexed":
        first = a.get("model")
        lines = list(main.lines)
        n = len(w.y)
        m = w.model_at_data()
        if rec.truth(tag + ":model_steps_present", first in lines, "model steps", "missing", (ft, "main", "model_present")):
            i0 = lines.index(first)
            steps = lines[i0 : i0 + n]
            xs = np.array([R.read_line(s)[0] for s in steps if len(R.read_line(s)[0]) == 2])
            ys = np.array([R.read_line(s)[1] for s in steps if len(R.read_line(s)[0]) == 2])
            if rec.truth(tag + ":model_steps_count", xs.shape == (n, 2), n, list(xs.shape), (ft, "main", "model_count")):
                i = np.arange(n, dtype=float)
                rec.cmp(tag + ":model_step_x", xs, np.column_stack([i - 0.5, i + 0.5]), (ft, "main", "model_x"))
                rec.cmp(tag + ":model_step_y", ys, np.column_stack([m, m]), (ft, "main", "model_y"))
    if ft == "hist":
        bars = a.get("model")
        m = w.model_at_data()
        patches = list(bars) if bars is not None else []
        if rec.truth(tag + ":model_bars_count", len(patches) == len(m), len(m), len(patches), (ft, "main", "model_count")):
            rec.truth(tag + ":model_bars_in_axes", all(id(p) in kids for p in patches), "children", "foreign", (ft, "main", "child"))
            left = np.array([p.get_x() for p in patches])
            width = np.array([p.get_width() for p in patches])
            height = np.array([p.get_height() for p in patches])
            base = np.array([p.get_y() for p in patches])
            rec.cmp(tag + ":model_bar_left", left, w.edges[:-1], (ft, "main", "model_x"))
            rec.cmp(tag + ":model_bar_right", left + width, w.edges[1:], (ft, "main", "model_x"))
            rec.cmp(tag + ":model_bar_height", height, m, (ft, "main", "model_y"))
            rec.cmp(tag + ":model_bar_base", base, np.zeros_like(m), (ft, "main", "model_base"))
        dl = a.get("model_density")
        if rec.truth(tag + ":density_present", isinstance(dl, list) and len(dl) == 1, "one density line", repr(type(dl)), (ft, "main", "density_present")):
            x, y = R.read_line(dl[0])
            dens = w.fn(x, *pars)
            k = y / dens
            rec.cmp(tag + ":density_proportional", k, np.full_like(k, np.median(k)), (ft, "main", "density_shape"))
            rec.truth(tag + ":density_positive_factor", bool(np.median(k) > 0), ">0", float(np.median(k)), (ft, "main", "density_sign"))
            rec.truth(tag + ":density_range", _xs_span_ok(x, xlim) and len(x) >= 50, list(xlim), [float(x[0]), float(x[-1]), len(x)], (ft, "main", "density_range"))
            widths = np.diff(w.edges)
            cls = "density_scale" if w.data == "regular" else "density_scale_" + w.data
            if np.allclose(widths, widths[0], rtol=1e-12):
                rec.cmp(tag + ":density_scale", y, w.scale * widths[0] * dens, (ft, "main", cls))
            elif w.unit_ref is not None:
                # differential: the factor between the curve and the entries per unit x is a matter of the binning alone (measured
                # on the same binning filled with the regular entries and a normalised density), whatever lies outside the bin
                # range and whether the normalisation comes from the number of entries or from a parameter
                rec.cmp(tag + ":density_scale_per_entry", y / w.scale, w.unit_ref * dens, (ft, "main", cls))

    # -- panels
    panel = panel_of(opt)
    if panel and ft != "unbinned":
        ax = axd[panel]
        pk = R.children_ids(ax)
        pa = arts(panel)
        ptag = label + ":" + panel
        for t, art in pa.items():
            rec.truth(ptag + ":artist_in_axes:" + t, is_child(art, pk), "child of the %s axes" % panel, "foreign artist", (ft, panel, "child"))
        m = w.model_at_data()
        art = pa.get(panel)
        if rec.truth(ptag + ":present", art is not None and hasattr(art, "lines"), "error bar container", repr(type(art)), (ft, panel, "present")):
            eb = R.read_errorbar(art)
            if panel == "ratio":
                _check_data_bars(rec, ptag, eb, w, w.y / m, None if ybar is None else ybar / np.abs(m), panel)
            elif panel == "residual":
                _check_data_bars(rec, ptag, eb, w, w.y - m, ybar, panel)
            else:
                pull = (w.y - m) / ybar
                xdata = np.arange(len(w.y), dtype=float) if ft == "indexed" else w.x
                rec.cmp(ptag + ":marker_x", eb["x"], xdata, (ft, panel, "marker_x"))
                rec.cmp(ptag + ":marker_y", eb["y"], pull, (ft, panel, "marker_y"))
                # what is visible of a pull: a vertical bar from 0 to the pull with a horizontal dash at the pull
                if rec.truth(ptag + ":bars_present", eb["ylo"] is not None and eb["xlo"] is not None, "bars", "missing", (ft, panel, "bars_present")):
                    rec.cmp(ptag + ":bar_from_zero", np.column_stack([eb["ylo"], eb["yhi"]]), np.column_stack([np.minimum(pull, 0), np.maximum(pull, 0)]), (ft, panel, "pull_bar"))
                    rec.cmp(ptag + ":dash_level", eb["xbar_y"], pull, (ft, panel, "pull_dash"))
                    rec.cmp(ptag + ":dash_centre", 0.5 * (eb["xlo"] + eb["xhi"]), xdata, (ft, panel, "pull_dash_x"))
        if ft == "xy" and panel in ("ratio", "residual"):
            band = pa.get(panel + "_error_band")
            if band is not None:
                _check_band(rec, ptag, band, w, xlim, panel)
            else:
                rec.truth(ptag + ":band_present", not w.num.errors_valid, "uncertainty band", "none drawn", (ft, panel, "band_missing"))


def check_legend(rec, label, fig, worlds, asym):
    legs = list(fig.legends)
    if not rec.truth(label + ":legend:count", len(legs) == 1, 1, len(legs), ("legend", "count")):
        return
    texts = [t.get_text() for t in legs[0].get_texts()]
    blocks = []
    for t in texts:
        if "\n" in t:
            try:
                blocks.append(R.parse_info(t))
            except Exception as e:  # noqa: BLE001
                rec.truth(label + ":legend:parse", False, "parsable fit info", "%s: %s in %r" % (type(e).__name__, e, t), ("legend", "parse"), mode="unparsable")
                return
    rec.truth(label + ":legend:blocks", len(blocks) == len(worlds), len(worlds), len(blocks), ("legend", "blocks"))
    for w in worlds:
        # the fit's results: of the reference twin (state after do_fit) or of the plotted fit (a plot that asks for
        # asymmetric errors re-minimises, which moves the results by a fraction of the minimiser tolerance)
        srcs = [w.num] + ([w.fit] if w.fit is not w.num else [])
        fit = w.num
        # a member of a plotted MultiFit: parameter values / uncertainties are results of the MultiFit
        msrcs = [] if w.multi_num is None else [w.multi_num] + ([w.multi] if w.multi is not w.multi_num else [])
        mnames = [] if w.multi_num is None else list(w.multi_num.parameter_names)
        tag = "%s:legend:%s" % (label, w.role)
        fname = w.fn.__name__
        mine = [b for b in blocks if b["function"] == fname]
        # fits of the plot with a model function of that name (more than one when the fits share their model function): their
        # blocks stand in the order of the fits
        same = [x for x in worlds if x.fn.__name__ == fname]
        if not rec.truth(tag + ":block", len(mine) == len(same), "%d info block(s) for %s" % (len(same), fname), [b["function"] for b in blocks], ("legend", "block")):
            continue
        b = mine[[x is w for x in same].index(True)]
        names = list(fit.parameter_names)
        if not rec.truth(tag + ":par_names", [p["name"] for p in b["pars"]] == names, names, [p["name"] for p in b["pars"]], ("legend", "names")):
            continue

        def agree(shown, getter, sources=srcs):
            vals = []
            for f in sources:
                try:
                    x = getter(f)
                except Exception:  # noqa: BLE001
                    continue
                if x is None:
                    continue
                vals.append(float(x))
            return any(shown.agrees(x) for x in vals), (vals[0] if vals else None)

        valid = bool(fit.errors_valid)
        for i, p in enumerate(b["pars"]):
            ptag = "%s:%s" % (tag, p["name"])
            ok, exp = agree(p["value"], lambda f: f.parameter_values[i])
            rec.truth(ptag + ":value", ok, exp, p["value"].text, (w.ftype, "legend", "value"))
            if msrcs and rec.truth(ptag + ":multifit_parameter", names[i] in mnames, names[i], mnames, (w.ftype, "legend", "multi_name")):
                j = mnames.index(names[i])
                ok, exp = agree(p["value"], lambda f: f.parameter_values[j], msrcs)
                rec.truth(ptag + ":multifit_value", ok, exp, p["value"].text, (w.ftype, "legend", "multi_value"))
                if p["err"] is not None:
                    ok, exp = agree(p["err"], lambda f: f.parameter_errors[j], msrcs)
                    rec.truth(ptag + ":multifit_error", ok, exp, p["err"].text, (w.ftype, "legend", "multi_error"))
            if names[i] in w.fixed:
                rec.truth(ptag + ":fixed_flag", p["fixed"] and p["err"] is None and p["up"] is None, "(fixed)", b["raw"], (w.ftype, "legend", "fixed"))
                continue
            if p["err"] is not None:
                ok, exp = agree(p["err"], lambda f: f.parameter_errors[i])
                rec.truth(ptag + ":error", ok, exp, p["err"].text, (w.ftype, "legend", "error"))
            if p["up"] is not None:
                # asymmetric errors are only ever read from the plotted fit (which cached them during the plot call):
                # reading them from the reference twin would re-minimise the twin and spoil it as 'state after do_fit()'
                if msrcs:
                    ae = w.multi.asymmetric_parameter_errors[mnames.index(names[i])]
                else:
                    ae = w.fit.asymmetric_parameter_errors[i]
                rec.truth(ptag + ":error_up", p["up"].agrees(abs(ae[1])), float(ae[1]), p["up"].text, (w.ftype, "legend", "error_up"))
                rec.truth(ptag + ":error_down", p["down"].agrees(abs(ae[0])), float(ae[0]), p["down"].text, (w.ftype, "legend", "error_down"))
            if valid and not asym:
                rec.truth(ptag + ":error_shown", p["err"] is not None, float(fit.parameter_errors[i]), "no uncertainty displayed", (w.ftype, "legend", "error_shown"))
            if valid and asym and (w.multi if msrcs else w.fit).asymmetric_parameter_errors is not None:
                rec.truth(ptag + ":asym_shown", p["up"] is not None, "asymmetric uncertainties", "not displayed", (w.ftype, "legend", "asym_shown"))
        rec.truth(tag + ":gof_present", len(b["gof"]) >= 1, "goodness-of-fit / cost line", "none", (w.ftype, "legend", "gof_present"))
        ndf = fit.ndf
        for g in b["gof"]:
            if g["kind"] == "per_ndf":
                ok, exp = agree(g["value"], lambda f: f.goodness_of_fit)
                rec.truth(tag + ":gof", ok, exp, g["value"].text, (w.ftype, "legend", "gof"))
                rec.truth(tag + ":ndf", g["ndf"] == ndf, ndf, g["ndf"], (w.ftype, "legend", "ndf"))
                if g["ratio"] is not None:
                    ok, exp = agree(g["ratio"], lambda f: float(f.goodness_of_fit) / f.ndf)
                    rec.truth(tag + ":gof_per_ndf", ok, exp, g["ratio"].text, (w.ftype, "legend", "gof_per_ndf"))
            elif g["kind"] == "probability":
                ok, exp = agree(g["value"], lambda f: f.chi2_probability)
                rec.truth(tag + ":chi2_probability", ok, exp, g["value"].text, (w.ftype, "legend", "probability"))
            else:
                ok, exp = agree(g["value"], lambda f: f.cost_function_value)
                rec.truth(tag + ":cost_value", ok, exp, g["value"].text, (w.ftype, "legend", "cost"))
        if not msrcs:
            continue
        # the lines about the MultiFit as a whole (repeated under the block of every member)
        rec.truth(tag + ":global_present", len(b["global"]) >= 1, "goodness-of-fit / cost line of the MultiFit", "none", (w.ftype, "legend", "global_present"))
        mndf = int(w.multi_num.ndf)
        for g in b["global"]:
            if g["kind"] == "per_ndf":
                ok, exp = agree(g["value"], lambda f: f.goodness_of_fit, msrcs)
                rec.truth(tag + ":global_gof", ok, exp, g["value"].text, (w.ftype, "legend", "global_gof"))
                rec.truth(tag + ":global_ndf", g["ndf"] == mndf, mndf, g["ndf"], (w.ftype, "legend", "global_ndf"))
                if g["ratio"] is not None:
                    ok, exp = agree(g["ratio"], lambda f: float(f.goodness_of_fit) / f.ndf, msrcs)
                    rec.truth(tag + ":global_gof_per_ndf", ok, exp, g["ratio"].text, (w.ftype, "legend", "global_gof_per_ndf"))
            elif g["kind"] == "probability":
                ok, exp = agree(g["value"], lambda f: f.chi2_probability, msrcs)
                rec.truth(tag + ":global_chi2_probability", ok, exp, g["value"].text, (w.ftype, "legend", "global_probability"))
            else:
                ok, exp = agree(g["value"], lambda f: f.cost_function_value, msrcs)
                rec.truth(tag + ":global_cost_value", ok, exp, g["value"].text, (w.ftype, "legend", "global_cost"))


def pull_defined(ftype, unc, data="regular"):
    # a zero count under pure Poisson statistics has zero uncertainty: its pull is undefined
    return ftype != "unbinned" and unc != "none" and not (unc in ("poisson", "x+rely", "nllr", "ga") and data == "zero")


_UNIT = {}


def density_unit(role, v):
    """factor of the drawn density curve per entry, measured on the binning of `role` filled with the regular entries
    (independent of parameters, uncertainties and axis scales: curve / (entries * density at the same parameters))"""
    import matplotlib.pyplot as plt

    import kafe2

    if (role, v) not in _UNIT:
        w = R.World("hist", "poisson", v, role, "regular")
        p = kafe2.Plot([w.fit])
        res = p.plot()
        ln = [d["artist"] for d in res[0]["main"]["plots"] if d["type"] == "model_density"][0][0]
        x, y = R.read_line(ln)
        k = y / w.fn(x, *w.pars()) / w.scale
        _UNIT[(role, v)] = float(np.median(k)) if R.close(k, np.full_like(k, np.median(k))) else None
        for f in p.figures:
            plt.close(f)
    return _UNIT[(role, v)]


def execute(cfg):
    """-> Rec (all comparisons of one configuration).  cfg: dict(ftype, unc, axes, opt, roles, v[, data])"""
    import matplotlib.pyplot as plt

    import kafe2

    rec = Rec()
    ftype, unc, axes, opt, roles, v = cfg["ftype"], cfg["unc"], cfg["axes"], cfg["opt"], cfg["roles"], cfg["v"]
    data = cfg.get("data", "regular")
    multi = bool(cfg.get("multi", False))
    share = cfg.get("share")
    kw, separate = opt_kwargs(opt)
    rec.ops = 0
    try:
        # the minimizer base class print()s a warning whenever a Poisson likelihood is evaluated at a non-positive model
        with warnings.catch_warnings(), contextlib.redirect_stdout(io.StringIO()):
            warnings.simplefilter("ignore")
            worlds = R.build_worlds(ftype, unc, v, roles, data, share)
            mfit = R.make_multi(worlds, unc) if multi else None
            for w in worlds:
                w.unit_ref = density_unit(w.role, v) if (ftype == "hist" and data != "regular") else None
                if not multi:
                    w.fit.do_fit()
                rec.ops += 2
            if multi:
                mfit.do_fit()  # the members are fitted through the MultiFit only
                rec.ops += 2
            if "asym" in opt.split("+"):
                # asking a fit for asymmetric errors re-minimises it; the expectation is read from an identically
                # built and fitted twin that is never plotted (the state 'after do_fit()' the statement speaks about)
                twins = R.build_worlds(ftype, unc, v, [w.role for w in worlds], data, share)
                if multi:
                    tm = R.make_multi(twins, unc)
                    tm.do_fit()
                for w, t in zip(worlds, twins):
                    if not multi:
                        t.fit.do_fit()
                    else:
                        w.multi_num = tm
                    w.num = t.fit
            before = [[float(x) for x in w.fit.parameter_values] for w in worlds]
            twin_ok = all([float(x) for x in w.num.parameter_values] == b for w, b in zip(worlds, before))
            rec.truth("harness:twin_identical", twin_ok, "identical parameter values of two identically built fits", "differ", (ftype, "twin"), mode="harness")
            p = kafe2.Plot(mfit if multi else [w.fit for w in worlds], separate_figures=separate)
            if "x" in axes[3:]:
                p.x_scale = "log"
            if "y" in axes[3:]:
                p.y_scale = "log"
            results = p.plot(**kw)
            rec.ops += 1 + len(kw) + (axes != "lin")
            panel = panel_of(opt)
            if ftype == "unbinned" and panel:
                rec.truth("plot:unbinned_panel_rejected", False, "TypeError (no y data)", "plotted", (ftype, "rejection"))
                return rec
            figs, axl = p.figures, p.axes
            nfig = len(worlds) if separate else 1
            if not rec.truth("plot:figure_count", len(figs) == nfig and len(axl) == nfig and len(results) == nfig, nfig, [len(figs), len(axl), len(results)], (ftype, "figures")):
                return rec
            for k in range(nfig):
                axd = axl[k]
                rec.truth(
                    "plot:axis_scales",
                    (axd["main"].get_xscale(), axd["main"].get_yscale()) == ("log" if "x" in axes[3:] else "linear", "log" if "y" in axes[3:] else "linear"),
                    axes,
                    [axd["main"].get_xscale(), axd["main"].get_yscale()],
                    (ftype, "scales"),
                )
                members = [k] if separate else list(range(len(worlds)))
                # no unaccounted error bar containers: one per fit and panel
                exp_cont = len(members) if ftype != "unbinned" and not (ftype == "indexed" and unc == "none") else 0
                n_eb = len([c for c in axd["main"].containers if hasattr(c, "has_yerr")])
                rec.truth("plot:fig%d:main:errorbar_containers" % k, n_eb == exp_cont, exp_cont, n_eb, (ftype, "containers"))
                for i in members:
                    if multi and separate and k >= 1 and "asym" in opt.split("+"):
                        # the legend of the first figure made the MultiFit compute asymmetric errors, which re-minimises ALL members:
                        # the later figures are drawn at the parameters the plotted fit has from then on (its current parameters)
                        worlds[i].num, worlds[i].multi_num = worlds[i].fit, worlds[i].multi
                    check_fit_in_axes(rec, worlds[i], "fit%s" % worlds[i].role, axd, results[k], i, opt)
                check_legend(rec, "fig%d" % k if separate else "fig", figs[k], [worlds[i] for i in members], "asym" in opt.split("+"))
            after = [[float(x) for x in w.fit.parameter_values] for w in worlds]
            rec.moved = before != after  # a fact, not a violation: see ASSUMPTIONS
            rec.nontrivial = any(w.has_ybar() for w in worlds) or panel is not None or len(worlds) > 1 or ftype == "xy"
    except TypeError as e:
        if ftype == "unbinned" and panel_of(opt):
            rec.n += 1
            rec.classes.append(((ftype, "rejection", "TypeError"), "ok"))
            rec.obs.append(("rejected", str(e)[:60]))
            rec.nontrivial = False
        else:
            rec.bad.append(dict(observable="op:plot", expected="no exception", actual="TypeError: %s" % str(e)[:200], mode="exception:TypeError"))
            rec.classes.append(((ftype, "exception", "TypeError"), "MISMATCH"))
    except Exception as e:  # noqa: BLE001
        rec.bad.append(dict(observable="op:plot", expected="no exception", actual="%s: %s" % (type(e).__name__, str(e)[:200]), mode="exception:" + type(e).__name__))
        rec.classes.append(((ftype, "exception", type(e).__name__), "MISMATCH"))
    finally:
        plt.close("all")
    return rec


def generated(ftype, unc, opt, data="regular"):
    if panel_of(opt) == "pull" and ftype != "unbinned" and not pull_defined(ftype, unc, data):
        return False
    return True


# ---------------------------------------------------------------------------------------
# minimisation of a failing configuration (same observable must still fail)

_MEMO = {}


def _fails(cfg, observable):
    key = (cfg["ftype"], cfg["unc"], cfg["axes"], cfg["opt"], tuple(cfg["roles"]), cfg["v"], cfg.get("data", "regular"), bool(cfg.get("multi", False)), cfg.get("share"))
    if key not in _MEMO:
        if not generated(cfg["ftype"], cfg["unc"], cfg["opt"], cfg.get("data", "regular")):
            _MEMO[key] = {}
        else:
            r = execute(cfg)
            d = {}
            for b in r.bad:
                d.setdefault(b["observable"], b)
            _MEMO[key] = d
    return _MEMO[key].get(observable)


def minimise(cfg, bad):
    """greedy: drop the second fit, linear axes, regular data, the smallest option, the simplest uncertainty configuration"""
    obs = bad["observable"]
    cur, curbad = dict(cfg), bad
    role = None
    for r in ("A", "B", "C", "D"):
        if ("fit%s:" % r) in obs or (":legend:%s:" % r) in obs:
            role = r
    trials = []
    cur.setdefault("multi", False)
    cur.setdefault("share", None)
    if cur["share"] == "object":
        trials.append(("share", "function"))  # the same fits, every one wraps the (same) Python function itself
    if cur["multi"] and cur["unc"] == "y+msh":
        pass  # the source declared on the MultiFit does not exist without it: neither the MultiFit nor a member is dropped
    elif len(cur["roles"]) > 1 and not obs.startswith("fig1") and not obs.startswith("fig0"):
        if cur["multi"]:
            trials.append(("multi", False))  # the same fits as a plain list
        for r in [role] if role is not None else list(cur["roles"]):
            trials.append(("roles", [r]))
    trials.append(("axes", "lin"))
    trials.append(("data", "regular"))
    pan = None
    for k in ("ratio", "residual", "pull"):
        if (":" + k + ":") in obs:
            pan = k
    if "+" in cur["opt"]:
        trials.append(("opt", pan or "plain"))
        for part in cur["opt"].split("+"):
            trials.append(("opt", part))
    if cur["opt"] not in ("plain",) and pan is None:
        trials.append(("opt", "plain"))
    for simpler in ("none", "y", "poisson"):
        trials.append(("unc", simpler))
    unc_done = False
    cur.setdefault("data", "regular")
    for dim, val in trials:
        if cur[dim] == val or (dim == "unc" and unc_done):
            if dim == "unc" and cur[dim] == val:
                unc_done = True  # already at this (or a simpler) configuration
            continue
        t = dict(cur)
        t[dim] = val
        if dim == "roles":
            t["multi"] = False
            t["share"] = None
        if dim == "unc" and val not in (R.UNC_MULTI if t["multi"] else R.UNC)[t["ftype"]]:
            continue
        if dim == "roles" and len(cur["roles"]) == 1:
            continue
        b = _fails(t, obs)
        if b is not None and b["mode"] == curbad["mode"]:
            cur, curbad = t, b
            if dim == "unc":
                unc_done = True
    if not cur.get("multi"):
        cur.pop("multi", None)
    if not cur.get("share"):
        cur.pop("share", None)
    return cur, curbad


def sig_of(cfg, observable):
    # the data region is only named when it is not the regular one (signatures of regular configurations stay as they were)
    d = cfg.get("data", "regular")
    unc = cfg["unc"] if d == "regular" else "%s,data=%s" % (cfg["unc"], d)
    fits = "".join(cfg["roles"])
    if cfg.get("multi", False):
        fits = "multi(%s)" % fits
    if cfg.get("share"):
        fits = "shared-%s(%s)" % (cfg["share"], fits)
    return "%s|unc=%s|axes=%s|opt=%s|fits=%s|%s" % (cfg["ftype"], unc, cfg["axes"], cfg["opt"], fits, observable)


# ---------------------------------------------------------------------------------------


def run_job(spec):
    ftype, unc, axes, v, tier, opts, data, rolesets = spec
    res = JobResult()
    _MEMO.clear()
    seen_sigs = set()
    worst = 0.0
    for opt in opts:
        for roleset in rolesets:
            roles, multi, share = roles_of(roleset)
            if not generated(ftype, unc, opt, data):
                res.facts["not-generated:pull-without-uncertainty"] += 1
                continue
            if multi and unc not in R.UNC_MULTI[ftype]:
                continue  # (a member configuration the MultiFit product does not have)
            if "separate" in opt.split("+") and len(roles) == 1 and tier == "quick":
                pass  # separate_figures with a single fit is still a legal call: kept (one figure expected)
            cfg = dict(ftype=ftype, unc=unc, axes=axes, opt=opt, roles=roles, v=v, data=data)
            if multi:
                cfg["multi"] = True
            if share:
                cfg["share"] = share
            rec = execute(cfg)
            res.executions += 1
            res.transitions += getattr(rec, "ops", 0)
            res.evaluations += rec.n
            key = (ftype, unc, axes, opt, tuple(roles), v) + ((data,) if data != "regular" else ()) + (("multi",) if multi else ()) + (("share:" + share,) if share else ())
            res.state(key)
            if getattr(rec, "nontrivial", False):
                res.nontriv(key)
            for c, okk in rec.classes:
                res.outcomes[(c if isinstance(c, tuple) else (c,)) + (okk,)] += 1
            res.observe((key, rec.obs))
            worst = max(worst, rec.maxdev)
            if getattr(rec, "moved", False):
                res.facts["plot-call-moved-the-fit-parameters:" + opt] += 1
            res.facts["fit:" + ftype] += 1
            res.facts["unc:" + unc] += 1
            res.facts["data:" + data] += 1
            res.facts["axes:" + axes] += 1
            res.facts["opt:" + opt] += 1
            res.facts["nfits:%d" % len(roles)] += 1
            res.facts["plotted:" + ("multifit" if multi else "fits")] += 1
            if len(roles) > 1:
                res.facts["model-function-of-the-%s:" % ("members" if multi else "fits") + (share or "separate")] += 1
            if multi:
                res.facts["multifit:" + ("common-parameter" if "C" in roles else "disjoint-parameters")] += 1
            res.max_depth = max(res.max_depth, len(roles))
            done = set()
            for b in rec.bad:
                if b["observable"] in done:
                    continue
                done.add(b["observable"])
                mcfg, mb = minimise(cfg, b)
                s = sig_of(mcfg, mb["observable"])
                if s in seen_sigs:
                    continue
                seen_sigs.add(s)
                res.violation(s, mcfg, mb["observable"], mb["expected"], mb["actual"], mb["mode"])
    # measured basis of the tolerance: largest relative deviation among accepted comparisons, in decades
    if worst > 0:
        res.facts["max-accepted-relative-deviation-of-exact-comparisons<=1e%d" % int(np.ceil(np.log10(worst)))] += 1
    res.sample(dict(fit=ftype, uncertainties=unc, data=data, axes=axes, valuation=v, options=opts, fits_on_plot=list(rolesets)))
    return res.as_dict()


def replay(history):
    cfg = dict(history)
    cfg["roles"] = list(cfg["roles"])
    if not generated(cfg["ftype"], cfg["unc"], cfg["opt"], cfg.get("data", "regular")):
        return []
    rec = execute(cfg)
    out, seen = [], set()
    for b in rec.bad:
        if b["observable"] in seen:
            continue
        seen.add(b["observable"])
        out.append(dict(observable=b["observable"], expected=b["expected"], actual=b["actual"], mode=b["mode"]))
    return out


def vacuity_guards(tot, tier):
    yield "all four fit types plotted", all(tot.facts.get("fit:" + t, 0) > 0 for t in ("xy", "indexed", "hist", "unbinned"))
    yield "all options plotted", all(tot.facts.get("opt:" + o, 0) > 0 for o in OPTS)
    yield "one and two fits per plot", tot.facts.get("nfits:1", 0) > 0 and tot.facts.get("nfits:2", 0) > 0
    yield "all data regions plotted", all(tot.facts.get("data:" + d, 0) > 0 for d in ("regular", "zero", "outflow", "counts"))
    yield "log axes plotted", tot.facts.get("axes:logx", 0) > 0 and tot.facts.get("axes:logy", 0) > 0
    yield "every cost-function configuration plotted", all(tot.facts.get("unc:" + u, 0) > 0 for u in R.UNC_COST_ALL + ["poisson", "ga+y"])
    yield "MultiFit objects plotted (with and without a common parameter)", all(
        tot.facts.get(k, 0) > 0 for k in ("plotted:multifit", "multifit:common-parameter", "multifit:disjoint-parameters")
    )
    yield "MultiFit with a source shared by the members plotted", tot.facts.get("unc:y+msh", 0) > 0
    yield "two fits on one plot with separate model functions, the same Python function and one shared model function object", all(
        tot.facts.get("model-function-of-the-fits:" + k, 0) > 0 for k in ("separate", "function", "object")
    )
    yield "MultiFit whose members share one model function object plotted", tot.facts.get("model-function-of-the-members:object", 0) > 0
    oc = {k[:-1] for k in tot.outcomes if k[-1] == "ok"}
    need = [
        ("xy", "main", "ybar"), ("xy", "main", "xbar"), ("hist", "main", "bin_span"), ("xy", "main", "band"), ("xy", "ratio", "band"), ("xy", "residual", "band"),
        ("xy", "pull", "pull_bar"), ("indexed", "main", "model_y"), ("hist", "main", "model_y"), ("hist", "main", "density_shape"), ("unbinned", "main", "model_line"),
        ("xy", "legend", "error_up"), ("hist", "legend", "gof"), ("xy", "legend", "probability"), ("unbinned", "legend", "cost"), ("unbinned", "rejection", "TypeError"),
        ("hist", "ratio", "ybar"), ("indexed", "residual", "ybar"), ("hist", "pull", "pull_bar"),
        ("xy", "main", "ybar_partial_zero"), ("xy", "ratio", "ybar_partial_zero"), ("xy", "residual", "ybar_partial_zero"), ("indexed", "main", "ybar_partial_zero"),
        ("indexed", "ratio", "ybar_partial_zero"), ("indexed", "residual", "ybar_partial_zero"), ("hist", "main", "ybar_partial_zero"), ("hist", "ratio", "ybar_partial_zero"),
        ("hist", "residual", "ybar_partial_zero"), ("hist", "main", "density_scale_outflow"), ("hist", "main", "density_scale_counts"), ("hist", "main", "density_scale_zero"),
    ]
    need += [
        ("xy", "legend", "global_ndf"), ("indexed", "legend", "global_ndf"), ("hist", "legend", "global_ndf"), ("xy", "legend", "global_gof"),
        ("hist", "legend", "global_gof_per_ndf"), ("xy", "legend", "global_probability"), ("hist", "legend", "global_cost"), ("unbinned", "legend", "global_cost"),
        ("xy", "legend", "multi_value"), ("indexed", "legend", "multi_error"), ("unbinned", "legend", "multi_value"),
    ]
    for n in need:
        yield "artist class %s compared" % "/".join(n), n in oc
    yield "more than 60 outcome classes", len(tot.outcomes) > 60


def triage_key(v):
    f = v["sig"].split("|")
    return (f[0], f[1], v["observable"].split(":")[-1], v["mode"])
