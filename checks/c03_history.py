"""C03 - fit observables depend only on the current configuration, not on its history.

Mode C (deviation-bounded).  Base histories: every valid mutator sequence up to length L from several start
states (bare / with sources / with x+y+model-relative sources / the same after do_fit).  A deviation is a
*neutral segment* inserted at any position: a read of any public observable (oracle a, read-insertion
invariance), or an operation pair that cancels (disable;enable / fix;release / limit;unlimit / set p v';set p v
/ do_fit;set_all(current)) (oracle b/c: state reached from elsewhere, no pinning after a fit).  Reference for
each observable o: the same base history without deviation, followed by reading o FIRST (a fresh execution per
observable) - literally the reference the property names.
"""
import warnings

import numpy as np

from kmc import ref
from kmc.core import JobResult, h64
from kmc.fitworld import FitWorld, canon, close_scaled

PROPERTY = "C03"
RULE = (
    "executions = (fit type, dynamic-error algorithm, backend, start state, base mutator sequence, inserted neutral segment "
    "(a read or a cancelling operation pair) and its position); afterwards every observable is read and compared with the "
    "reference obtained from a fresh fit brought to the same configuration and asked for that observable first; non-trivial "
    "= the segment is inserted BEFORE at least one later mutator (a cached value could be served stale)"
)
ASSUMPTIONS = [
    "configurations with all sources disabled / singular totals are not generated (excluded by the property)",
    "data replacement is not combined with model-referenced sources; a fixed parameter is not re-assigned; limits contain the current value",
    "observables that are results of the minimiser (parameter errors, covariance, did_fit) are not compared across a do_fit;set_all segment",
    "histories containing do_fit are compared with fit tolerances (5e-3 scaled; 5e-2 for parameter uncertainties)",
]

OBS = {
    "xy": [
        "cost_function_value", "model", "model_property", "total_cov_mat", "total_error", "x_total_cov_mat", "y_total_cov_mat", "x_total_error", "y_total_error",
        "y_model_error", "y_model_cov_mat", "y_data_cov_mat", "x_data_error", "total_cor_mat", "total_cov_mat_inverse", "ndf", "goodness_of_fit",
        "chi2_probability", "parameter_values", "did_fit", "data", "result_dict",
    ],
    "indexed": [
        "cost_function_value", "model", "total_cov_mat", "total_error", "model_error", "model_cov_mat", "data_cov_mat", "data_error", "total_cor_mat",
        "total_cov_mat_inverse", "ndf", "goodness_of_fit", "chi2_probability", "parameter_values", "did_fit", "data", "result_dict",
    ],
    "hist": ["cost_function_value", "model", "total_cov_mat", "total_error", "model_error", "data_error", "ndf", "goodness_of_fit", "parameter_values", "did_fit", "data", "result_dict"],
    "unbinned": ["cost_function_value", "model", "ndf", "parameter_values", "did_fit", "data", "result_dict"],
}
RESULT_ONLY = ["parameter_errors", "parameter_cov_mat", "parameter_cor_mat"]
RESULT_KEYS = ("parameter_errors", "parameter_cov_mat", "parameter_cor_mat", "asymmetric_parameter_errors")
READS_EXTRA = ["report"]
# public evaluation METHODS with arguments are reads too (FitWorld.observe names 'call:<method>:<arguments>'; grid = user points that are
# neither the data points nor as many, pars = explicit model parameters): quick = one call per method, thorough = every argument form
CALL_READS_QUICK = {
    "xy": ["call:eval_model_function:grid", "call:eval_model_function_derivative_by_parameters:grid+pars", "call:error_band:grid"],
    "indexed": [],
    "hist": ["call:eval_model_function_density:grid"],
    "unbinned": ["call:eval_model_function:grid"],
}
# the model curve at user points is an observable as well (compared like every other one)
CALL_OBS = {"xy": ["call:eval_model_function:grid"], "indexed": [], "hist": ["call:eval_model_function_density:grid"], "unbinned": ["call:eval_model_function:grid"]}
KINDS = {
    "xy": {"quick": ["y-abs", "y-abs-rho", "y-rel", "y-rel-model", "x-abs"], "thorough": ["y-abs", "y-abs-rho", "y-rel", "y-rel-model", "x-abs", "y-cov", "x-rel", "y-abs-model", "x-abs-model"]},
    "indexed": {"quick": ["y-abs", "y-abs-rho", "y-rel", "y-rel-model"], "thorough": ["y-abs", "y-abs-rho", "y-rel", "y-rel-model", "y-cov", "y-cov-rel", "y-abs-model"]},
    "hist": {"quick": ["y-abs", "y-abs-rho", "y-rel"], "thorough": ["y-abs", "y-abs-rho", "y-rel", "y-cov", "y-abs-model"]},
    "unbinned": {"quick": [], "thorough": []},
}
COST = {"xy": "chi2", "indexed": "chi2", "hist": "nll", "unbinned": "nll"}
MODEL = {"xy": "expo", "indexed": "idx2", "hist": "normal", "unbinned": "normal"}
# further cost functions (5th element of cfg): the Gaussian approximation keeps a flag of its own that goodness_of_fit switches off and on
# again; ':nodet' = cost function OBJECT built with add_determinant_cost=False. Start states: a correlated source (the covariance-based
# cost object is the one that is read and minimised) / an uncorrelated one (do_fit and goodness_of_fit use the pointwise twin object)
STARTS_COST = {
    "xy": [(("add", "y-abs-rho", "s0"),), (("add", "y-abs", "s0"),), (("add", "x-abs", "s0"), ("add", "y-abs-rho", "s1"))],
    "indexed": [(("add", "y-abs-rho", "s0"),), (("add", "y-abs", "s0"),)],
    "hist": [(("add", "y-abs-rho", "s0"),), (("add", "y-abs", "s0"),)],
}
STARTS = {
    "xy": [(), (("add", "y-abs", "s0"),), (("add", "x-abs", "s0"), ("add", "y-abs", "s1"), ("add", "y-rel-model", "s2"))],
    "indexed": [(), (("add", "y-abs", "s0"),), (("add", "y-abs", "s0"), ("add", "y-rel-model", "s1"))],
    "hist": [(), (("add", "y-abs", "s0"),)],
    "unbinned": [()],
}


def make_world(cfg):
    ftype, dea, minimizer, v = cfg[:4]
    cost = cfg[4] if len(cfg) > 4 else COST[ftype]
    if ftype == "unbinned":
        return FitWorld(ftype, COST[ftype], model=MODEL[ftype], v=v, minimizer=minimizer)
    model = "lin" if (ftype == "xy" and len(cfg) > 4) else MODEL[ftype]  # count data for the Gaussian approximation: rising straight line
    return FitWorld(ftype, cost, model=model, v=v, minimizer=minimizer, dea=dea, n=8 if ftype in ("xy", "indexed") else 5)


def mutators(w, kinds, allow_fit, nadd_max):
    """Valid next mutators according to the reference configuration."""
    ops = []
    nsrc = len(w.sources)
    names = list(w.sources) + list(w.container_sources)
    if sum(1 for n in w.sources if n.startswith("e")) < nadd_max and w.data_variant == "base":
        for k in kinds:
            ops.append(("add", k, "e%d" % sum(1 for n in w.sources if n.startswith("e"))))
    enabled = [n for n in names if w._src(n)[1]]
    for n in names:
        if w._src(n)[1]:
            if len(enabled) > 1:  # never disable the last enabled source
                ops.append(("dis", n))
        else:
            ops.append(("en", n))
    if len(w.cons) < 1:
        ops += [("con", "simple"), ("con", "matrix-cov")]
    p0, p1 = w.par_names[0], w.par_names[1]
    for pid in ("P1", "P2"):
        d = {p: val for p, val in w.point(pid).items() if p not in w.fixed}
        if d:
            ops.append(("set", d))
    ops.append(("setall", list(w.point("P1").values())))  # a fixed parameter stays fixed, at the value it is given
    if p0 not in w.fixed:
        ops.append(("set", {p0: w.point("P2")[p0]}))
    for p in (p0, p1):
        if p not in w.fixed:
            if len(w.fixed) == 0:
                ops.append(("fix", p))
                ops.append(("fix", p, w.point("P1")[p] * 0.9))
        else:
            ops.append(("rel", p))
    if p1 not in w.limits:
        lo, hi = sorted((w.pv[p1] - 0.8 * abs(w.pv[p1]) - 0.3, w.pv[p1] + 0.9 * abs(w.pv[p1]) + 0.4))
        ops.append(("lim", p1, round(lo, 3), round(hi, 3)))
    else:
        ops.append(("unlim", p1))
    if w.data_variant == "base" and not w.has_model_sources():
        if not w.sources:
            # raw data drop every declared source; with sources declared only a container bringing its own is generated
            ops.append(("data", "alt"))
        if w.ftype in ("xy", "indexed"):
            ops.append(("data", "altc"))
    if allow_fit and fit_ok(w):
        ops.append(("fit",))
    return ops


def fit_ok(w):
    if w.ftype in ("xy", "indexed") and (w.n_enabled() == 0):
        return False  # chi2 without uncertainties: errors undefined; keep fits well-posed
    return True


def neutral_segments(w, reads, tier, allow_fit):
    """Deviation menu in the current state: reads first (simplest), then cancelling pairs."""
    segs = [(("read", r),) for r in reads if r != "call:error_band:grid" or w.fitted]  # (an error band exists only after a fit)
    names = list(w.sources) + list(w.container_sources)
    enabled = [n for n in names if w._src(n)[1]]
    if len(enabled) > 1:
        segs.append((("dis", enabled[0]), ("en", enabled[0])))
        segs.append((("dis", enabled[-1]), ("en", enabled[-1])))
    elif len(enabled) == 1 and w.ftype in ("hist",):
        segs.append((("dis", enabled[0]), ("en", enabled[0])))
    for p in w.par_names[:2]:
        if p not in w.fixed:
            segs.append((("fix", p), ("rel", p)))
        if not w.fitted:  # after a fit, re-assigning a value legitimately ends the fitted status
            segs.append((("set", {p: w.pv[p] * 1.3 + 0.2}), ("set", {p: w.pv[p]})))  # also for a fixed parameter: it stays fixed
        if p not in w.limits and p not in w.fixed:
            lo, hi = sorted((w.pv[p] - abs(w.pv[p]) - 1.0, w.pv[p] + abs(w.pv[p]) + 1.0))
            segs.append((("lim", p, lo, hi), ("unlim", p)))
    if allow_fit and fit_ok(w) and not w.fixed and not w.fitted:
        segs.append((("fit",), ("setall", [w.pv[p] for p in w.par_names])))
    return segs


def seg_tag(seg):
    return "+".join(o[0] if o[0] != "read" else "read:" + o[1] for o in seg)


def build(cfg, ops):
    w = make_world(cfg)
    with warnings.catch_warnings():
        warnings.simplefilter("ignore")
        for op in ops:
            if op[0] == "read":
                w.observe(op[1])
            else:
                w.apply(op)
    return w


def enumerate_bases(cfg, start, L, kinds, allow_fit):
    """All valid base sequences (tuples of ops) of length 0..L after the start prefix."""
    out = [()]

    def rec(prefix):
        if len(prefix) >= L:
            return
        try:
            w = build(cfg, start + prefix)
        except Exception:  # noqa: BLE001
            return
        ms = mutators(w, kinds, allow_fit and not any(o[0] == "fit" for o in prefix), 2)
        w.dispose()
        for op in ms:
            seq = prefix + (op,)
            out.append(seq)
            rec(seq)

    rec(())
    return out


def fitted_in(ops):
    return any(o[0] == "fit" for o in ops)


def compare(obs, exp, act, has_fit):
    if obs == "did_fit":
        return exp == act
    if obs == "result_dict" and isinstance(exp, dict) and isinstance(act, dict):
        keys = set(exp) | set(act)
        return all(compare(k, exp.get(k), act.get(k), has_fit) for k in keys)
    if not has_fit:
        return close_scaled(act, exp, rtol=1e-9)
    tol = 5e-2 if any(t in obs for t in ("parameter_errors", "parameter_cov_mat", "parameter_cor_mat", "asymmetric")) else 5e-3
    return close_scaled(act, exp, rtol=tol)


class RefCache(object):
    """reference(o) = build(history without deviations); read o first."""

    def __init__(self, cfg):
        self.cfg, self.c = cfg, {}

    def get(self, ops, obs, res):
        k = (h64(repr(ops)), obs)
        if k not in self.c:
            w = build(self.cfg, ops)
            self.c[k] = w.observe(obs)
            w.dispose()
            res.executions += 1
            res.transitions += len(ops)
        return self.c[k]


OBS_QUICK = {
    "xy": ["cost_function_value", "model", "model_property", "total_cov_mat", "total_error", "y_model_error", "x_total_error", "y_data_cov_mat", "ndf", "goodness_of_fit", "chi2_probability", "parameter_values", "result_dict"],
    "indexed": ["cost_function_value", "model", "total_cov_mat", "total_error", "model_error", "ndf", "goodness_of_fit", "chi2_probability", "parameter_values", "result_dict"],
    "hist": ["cost_function_value", "model", "total_error", "ndf", "goodness_of_fit", "parameter_values", "data", "result_dict"],
    "unbinned": ["cost_function_value", "model", "ndf", "parameter_values", "result_dict"],
}


def jobs(tier, seed):
    """spec = (ftype, algorithm, backend, valuation, start index, fitted start, L, tier, shard, nshard)"""
    v = seed % 3
    specs = []
    if tier == "quick":
        plan = [
            # (ftype, dea, minimizer, [(start index, fitted, L, shards)])
            ("xy", "nonlinear", "iminuit", [(1, False, 2, 8), (2, False, 2, 8), (2, True, 1, 2)]),
            ("indexed", "nonlinear", "iminuit", [(1, False, 2, 6), (2, True, 1, 2), (0, False, 1, 1)]),
            ("hist", "nonlinear", "iminuit", [(0, False, 2, 3), (1, True, 1, 1)]),
            ("unbinned", "nonlinear", "iminuit", [(0, False, 2, 2), (0, True, 1, 1)]),
            ("xy", "iterative", "scipy", [(2, False, 1, 2), (2, True, 1, 4)]),
            ("xy", "nonlinear", "iminuit", [(0, False, 1, 1)]),
        ]
        vals = [v]
    else:
        # thorough: (a) the quick structure with the full observable and kind alphabets, all valuations;
        # (b) both algorithms x both backends at L = 2; (c) L = 3 for xy / indexed with iminuit (one valuation)
        plan = [
            ("xy", "nonlinear", "iminuit", [(0, False, 2, 4), (1, False, 2, 16), (2, False, 2, 16), (1, True, 2, 8), (2, True, 2, 8)]),
            ("indexed", "nonlinear", "iminuit", [(0, False, 2, 4), (1, False, 2, 12), (2, False, 2, 12), (1, True, 2, 6), (2, True, 2, 6)]),
            ("hist", "nonlinear", "iminuit", [(0, False, 2, 4), (1, False, 2, 4), (1, True, 2, 4), (0, True, 1, 1)]),
            ("unbinned", "nonlinear", "iminuit", [(0, False, 3, 4), (0, True, 2, 2)]),
            ("xy", "iterative", "iminuit", [(2, False, 2, 16), (2, True, 1, 4)]),
            ("xy", "nonlinear", "scipy", [(1, False, 2, 16), (2, True, 1, 4)]),
            ("xy", "iterative", "scipy", [(2, False, 1, 4), (2, True, 1, 4)]),
            ("indexed", "iterative", "iminuit", [(2, False, 2, 12), (2, True, 1, 3)]),
            ("indexed", "nonlinear", "scipy", [(1, False, 2, 12)]),
            ("hist", "nonlinear", "scipy", [(1, False, 1, 2), (1, True, 1, 2)]),
        ]
        vals = [v]
        # the quick plan on the two other valuations
        for qf, qd, qm, qsts in [
            ("xy", "nonlinear", "iminuit", [(1, False, 2, 8), (2, False, 2, 8), (2, True, 1, 2)]),
            ("indexed", "nonlinear", "iminuit", [(1, False, 2, 6), (2, True, 1, 2)]),
            ("hist", "nonlinear", "iminuit", [(0, False, 2, 3), (1, True, 1, 1)]),
            ("unbinned", "nonlinear", "iminuit", [(0, False, 2, 2)]),
        ]:
            for vv in [(v + 1) % 3, (v + 2) % 3]:
                for si, fitted_start, L, nshard in qsts:
                    for sh in range(nshard):
                        specs.append((qf, qd, qm, vv, si, fitted_start, L, "thorough-L3", sh, nshard))
        for vv in [v]:
            for ftype, si, nsh in (("xy", 1, 48), ("indexed", 1, 32)):
                for sh in range(nsh):
                    specs.append((ftype, "nonlinear", "iminuit", vv, si, False, 3, "thorough-L3", sh, nsh))
    for ftype, dea, mini, sts in plan:
        for vv in vals:
            for si, fitted_start, L, nshard in sts:
                for sh in range(nshard):
                    specs.append((ftype, dea, mini, vv, si, fitted_start, L, tier, sh, nshard))
    # other cost functions: spec gets an 11th element (cost identifier), start index refers to STARTS_COST
    if tier == "quick":
        cplan = [
            ("hist", "gauss_approximation", [(0, False, 1, 1), (0, True, 1, 1), (1, False, 1, 1)]),
            ("hist", "gauss_approximation:nodet", [(0, False, 1, 1), (0, True, 1, 1)]),
            ("indexed", "gauss_approximation", [(0, False, 1, 1), (0, True, 1, 1)]),
        ]
    else:
        cplan = [
            (f, c, [(0, False, 2, 4), (0, True, 1, 1), (1, False, 2, 4), (1, True, 1, 1)] + ([(2, False, 1, 2), (2, True, 1, 1)] if f == "xy" else []))
            for f in ("hist", "indexed", "xy")
            for c in ("gauss_approximation", "gauss_approximation:nodet")
        ]
    for ftype, cost, sts in cplan:
        for si, fitted_start, L, nshard in sts:
            for sh in range(nshard):
                specs.append((ftype, "nonlinear", "iminuit", v, si, fitted_start, L, tier, sh, nshard, cost))
    if tier == "quick":
        specs.sort(key=lambda sp: 0 if sp[2] == "scipy" else 1)  # scheduling only: the slowest jobs (scipy, fitted start: ~70 s per 600 executions) start first
    return specs


def bound(tier, seed):
    if tier == "quick":
        return (
            "base mutator sequences of length <= 2 from 2-3 start states (bare / sources / x+y+model-relative), each also after do_fit; one neutral segment (read of any of ~22 "
            "observables incl. the evaluation methods at user points (model curve, parameter derivatives, error band), or a cancelling pair) at any position; a read placed "
            "last is followed by the observables in rotated order (every (read, first observable afterwards) pair occurs); xy+indexed+hist+unbinned with "
            "iminuit/nonlinear and xy with scipy/iterative; hist and indexed fits with the Gaussian-approximation cost (identifier, and object without determinant term): "
            "base sequences of length <= 1 from a correlated / an uncorrelated source, also after do_fit; valuation %d" % (seed % 3)
        )
    return (
        "base sequences of length <= 2 with the full observable (21) and source-kind alphabets on all fit types, both algorithms and both backends (one valuation), the quick plan "
        "on the two other valuations; base sequences of length 3 for xy and indexed fits (iminuit, nonlinear, quick alphabets, one valuation); one neutral segment at any position "
        "(reads include every argument form of the evaluation methods); hist / indexed / xy fits with the Gaussian-approximation cost with and without determinant term: base sequences of length <= 2"
    )


def run_job(spec):
    ftype, dea, mini, v, si, fitted_start, L, tier, shard, nshard = spec[:10]
    cost = spec[10] if len(spec) > 10 else None
    cfg = (ftype, dea, mini, v) + ((cost,) if cost else ())
    res = JobResult()
    kinds = KINDS[ftype]["quick" if tier in ("quick", "thorough-L3") else "thorough"]
    start = (STARTS_COST if cost else STARTS)[ftype][si] + ((("fit",),) if fitted_start else ())
    allow_fit = not fitted_start
    bases = enumerate_bases(cfg, start, L, kinds, allow_fit)
    bases = [b for i, b in enumerate(bases) if i % nshard == shard]
    cache = RefCache(cfg)
    obs_all = (OBS_QUICK if tier in ("quick", "thorough-L3") else OBS)[ftype] + CALL_OBS[ftype]
    if tier in ("quick", "thorough-L3"):
        call_reads = CALL_READS_QUICK[ftype]
    else:
        w0 = make_world(cfg)
        call_reads = w0.call_names()
        w0.dispose()
    reads = obs_all + READS_EXTRA + [r for r in call_reads if r not in obs_all]
    for bi, base in enumerate(bases):
        full = start + base
        has_fit = fitted_in(full)
        # minimiser results are compared only when nothing was changed after the fit (what they mean after a later
        # configuration change - fixing, constraining, new sources - is not defined by the statement)
        fitted_at_end = bool(full) and full[-1][0] == "fit"
        # minimiser results are only defined (and compared) when the configuration ends in the fitted status
        olist = obs_all + (RESULT_ONLY if fitted_at_end else [])
        if not has_fit:
            # a configuration that was never fitted (or whose fit was superseded by new values inside a neutral segment) reports no result matrices
            olist = olist + ["parameter_cov_mat:none", "parameter_cor_mat:none"]
        # positions: after the start prefix .. before the last op (a deviation after the last op is only a read order question,
        # covered by position == len(base) as well)
        for pos in range(0, len(base) + 1):
            prefix = start + base[:pos]
            try:
                wp = build(cfg, prefix)
            except Exception as e:  # noqa: BLE001
                _viol(res, cfg, list(prefix), "op", "no exception", "%s: %s" % (type(e).__name__, str(e)[:120]), "exception:" + type(e).__name__)
                break
            segs = neutral_segments(wp, reads, tier, allow_fit and not has_fit)
            wp.dispose()
            for si_, seg in enumerate(segs):
                ops = prefix + seg + base[pos:]
                seg_has_fit = fitted_in(seg)
                try:
                    w = build(cfg, ops)
                except Exception as e:  # noqa: BLE001
                    _viol(res, cfg, list(ops), "op", "no exception", "%s: %s" % (type(e).__name__, str(e)[:120]), "exception:" + type(e).__name__)
                    res.executions += 1
                    continue
                res.executions += 1
                res.transitions += len(ops)
                res.state((cfg, full, pos, seg_tag(seg)))
                if pos < len(base):
                    res.nontriv((cfg, full, pos, seg_tag(seg)))
                    for o in base[pos:]:
                        res.facts["read-before:%s:%s" % (ftype, o[0])] += 1
                bad = False
                pure_read = seg[0][0] == "read"
                order = olist
                if pure_read and pos == len(base):
                    # "reads in any order": directly after a read the observables are read in rotated order, so that over the bases of a job
                    # every observable is the FIRST one read after every kind of read (a getter that re-synchronises the fit cannot hide what
                    # the inserted read did to the observables that do not)
                    k = (bi + si_) % len(olist)
                    order = olist[k:] + olist[:k]
                    if ftype == "xy" and not cost:
                        res.facts["first-after-read:%s:%s>%s" % (ftype, seg[0][1], order[0])] += 1
                if cost:
                    res.facts["cost:%s:%s" % (ftype, cost)] += 1
                for o in order:
                    if not pure_read and o in RESULT_ONLY:
                        continue  # minimiser results are not defined across configuration changes, even cancelling ones
                    if seg_has_fit and o in ("did_fit", "result_dict"):
                        continue
                    exp = cache.get(full, o, res)
                    act = w.observe(o)
                    res.evaluations += 1
                    if o == "result_dict" and (not pure_read or not fitted_at_end) and isinstance(exp, dict) and isinstance(act, dict):
                        exp = {k: x for k, x in exp.items() if k not in RESULT_KEYS}
                        act = {k: x for k, x in act.items() if k not in RESULT_KEYS}
                    ok = compare(o, exp, act, has_fit or seg_has_fit)
                    res.observe((cfg, full, pos, seg_tag(seg), o, ok))
                    if not ok:
                        bad = True
                        _viol(res, cfg, list(ops) + [("read", o)], o, exp, act, "wrong-value" if not isinstance(act, tuple) else "exception:" + act[1], base=full)
                        break
                res.outcomes[(ftype, seg_tag(seg).split(":")[0], "ok" if not bad else "MISMATCH")] += 1
                w.dispose()
    res.sample(dict(cfg=list(cfg), start=[list(o) for o in start], bases=len(bases), example=[_j(o) for o in (bases[len(bases) // 2] if bases else ())]))
    res.facts["cfg:%s:%s:%s" % (ftype + (":" + cost if cost else ""), dea, mini)] += 1
    return res.as_dict()


def _j(op):
    return [x if not isinstance(x, dict) else dict(x) for x in op]


def _viol(res, cfg, ops, obs, exp, act, mode, base=None):
    hist = [dict(cfg=list(cfg), base=[_j(o) for o in base] if base is not None else None)] + [_j(o) for o in ops]
    sig = "%s/%s/%s|%s" % (cfg[0] + (":" + cfg[4] if len(cfg) > 4 else ""), cfg[1], cfg[2], ";".join(_optag(o) for o in ops))
    res.violation(sig, hist, obs, exp, act, mode)


def _optag(o):
    if o[0] in ("add",):
        return "add:" + o[1]
    if o[0] == "read":
        return "read:" + o[1]
    if o[0] in ("con", "data"):
        return o[0] + ":" + str(o[1])
    return o[0]


def replay(history):
    head = history[0]
    cfg = tuple(head["cfg"])
    ops = [tuple(o) for o in history[1:]]
    if not ops or ops[-1][0] != "read":
        try:
            build(cfg, ops)
        except Exception as e:  # noqa: BLE001
            return [dict(observable="op", expected="no exception", actual=type(e).__name__, mode="exception:" + type(e).__name__)]
        return []
    obs = ops[-1][1]
    base = [tuple(o) for o in head["base"]]
    w = build(cfg, ops[:-1])
    act = w.observe(obs)
    exp = build(cfg, base).observe(obs)
    has_fit = fitted_in(ops)
    if compare(obs, exp, act, has_fit):
        return []
    return [dict(observable=obs, expected=exp, actual=act, mode="wrong-value")]


def triage_key(v):
    ops = v["sig"].split("|")[1].split(";")
    return (v["sig"].split("|")[0], v["observable"], v["mode"], tuple(sorted(set(o for o in ops if not o.startswith("add:") or "model" in o))))


def vacuity_guards(tot, tier):
    for f in ("xy", "indexed", "hist", "unbinned"):
        yield "fit type %s explored" % f, any(k.startswith("cfg:%s:" % f) for k in tot.facts)
    for m in ("add", "con", "set", "fix", "data", "fit", "dis"):
        yield "a deviation was placed before mutator '%s' (xy)" % m, tot.facts.get("read-before:xy:%s" % m, 0) > 0
    for f in ("hist", "indexed"):
        yield "Gaussian-approximation cost explored (%s)" % f, tot.facts.get("cost:%s:gauss_approximation" % f, 0) > 0
    obs_xy = (OBS_QUICK if tier == "quick" else OBS)["xy"]
    for r in CALL_READS_QUICK["xy"][:2] + ["goodness_of_fit", "model", "report"]:
        missing = [o for o in obs_xy if tot.facts.get("first-after-read:xy:%s>%s" % (r, o), 0) == 0]
        yield "after read '%s' every observable was the first one read (xy)%s" % (r, "" if not missing else " missing: " + ",".join(missing)), not missing
