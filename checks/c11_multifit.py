"""C11 - a multi-fit is the sum of its parts, or the joint fit if errors are shared.

Mode D x B: all ordered member lists up to length 2 (3 thorough) from a pool with every parameter-overlap pattern x shared
sources on every subset >= 2 of the equal-size chi2 members (xy, indexed, chi2 histogram; incl. the non-adjacent pair {0,2};
axis argument omitted / given where the members have a single axis) x operation sequences (set / set_all / fix / release /
do_fit on the multi-fit or on every member) up to length 2, before do_fit, and one operation after it x every way to ask the
multi-fit for asymmetric uncertainties (with the fit, or afterwards by property / report / result dictionary).

An execution with do_fit is run once: its unfitted prefix is the execution without do_fit (same calls, same reads).
"""
import itertools
import warnings

import numpy as np

from kmc.core import JobResult
from kmc.multiworld import POOL, MultiWorld

PROPERTY = "C11"
RULE = (
    "executions = (ordered member list, shared-source configuration, operation sequence on multi-fit / members, fit or not); after "
    "every operation: cost(multi) = sum of member reference costs (+ constraints) or the dense joint reference with the shared "
    "matrix in all blocks between sharing members, total_cov_mat likewise, same-named parameters equal everywhere; after do_fit "
    "member results (values, symmetric and asymmetric uncertainties, covariance, correlations) = sub-blocks of the multi-fit "
    "result whichever way they were requested from the multi-fit, one-member multi-fit = stand-alone fit; after one more "
    "operation behind the fit the cost / common-value clauses again; non-trivial = >= 2 members sharing a parameter or a source"
)
ASSUMPTIONS = [
    "shared sources: absolute simple (rho = 0 and > 0), matrix, x-axis for xy members; data-relative shared sources need identical references in all sharing members and are not generated",
    "member-level fix/release only together with a value (common values are specified, a common fixed flag is not)",
]
SHARED_KINDS = ["y-abs", "y-abs-rho", "y-cov"]
# chi2 members that take part in shared sources (a source can be shared by members of one data size only)
SHARERS = {"xy_ab", "xy_ac", "idx_ad", "xy_ab_x", "idx_ad_b", "hist_chi2", "idx_ad5", "idx_ad_relm"}
BASE = ["xy_ab", "xy_ac", "idx_ad", "xy_bc", "xy_ab_x", "xy_ab_noerr", "xy_ab_relm", "hist", "unbinned"]
SINGLE_AXIS = ["idx_ad_b", "hist_chi2", "idx_ad5"]  # + idx_ad: pairs of single-axis chi2 members of one size
ASYM_ROUTES = ["fit:asym", "fit+prop", "fit+report", "fit+result"]


def member_lists(tier):
    out = [[n] for n in BASE + SINGLE_AXIS]
    if tier != "quick":
        out += [list(p) for p in itertools.permutations(BASE + SINGLE_AXIS, 2)]
        core = ["xy_ab", "xy_ac", "idx_ad", "xy_bc", "hist"]
        out += [list(p) for p in itertools.permutations(core, 3)]
        out += [list(p) for p in itertools.permutations(["idx_ad", "xy_ab", "idx_ad_b"], 3)]
        out += [list(p) for p in itertools.permutations(["hist_chi2", "hist", "idx_ad5"], 3)]
        out += [list(p) for p in itertools.permutations(["idx_ad_relm", "xy_ab", "idx_ad_b"], 2)]
    else:
        out += [list(p) for p in itertools.permutations(BASE, 2)]
        out += [list(p) for p in itertools.permutations(["idx_ad", "idx_ad_b"], 2)]
        out += [list(p) for p in itertools.permutations(["hist_chi2", "idx_ad5"], 2)]
        out += [["hist_chi2", "hist"], ["xy_ab", "hist_chi2"], ["idx_ad_b", "xy_ac"]]
        out += [list(p) for p in itertools.permutations(["idx_ad_relm", "xy_ab"], 2)] + [["idx_ad_relm", "idx_ad_b"]]
        out += [["xy_ab", "xy_bc", "xy_ac"], ["xy_ac", "hist", "xy_ab_x"], ["idx_ad", "xy_ab", "xy_ac"], ["xy_ab", "unbinned", "idx_ad"]]
        out += [["idx_ad", "xy_ab", "idx_ad_b"], ["hist_chi2", "unbinned", "idx_ad5"], ["xy_ab", "xy_ac", "hist_chi2"]]
    return out


def shared_configs(ml, tier):
    """None | (kind, member indices[, 'explicit']): every subset >= 2 of the sharers of one data size x kind; if all members of
    the subset have a single axis, the source is declared without the axis argument and with it ('explicit')"""
    out = [None]
    for size in sorted({POOL[n][3] for n in ml if n in SHARERS}):
        idx = [i for i, n in enumerate(ml) if n in SHARERS and POOL[n][3] == size]
        subsets = []
        for r in range(2, len(idx) + 1):
            subsets += list(itertools.combinations(idx, r))
        for sub in subsets:
            single_axis = all(POOL[ml[i]][0] != "xy" for i in sub)
            for k in SHARED_KINDS:
                out.append((k, list(sub)))
                if single_axis:
                    out.append((k, list(sub), "explicit"))
            if all(POOL[ml[i]][0] == "xy" for i in sub):
                out.append(("x-abs", list(sub)))
        # two shared sources of one axis whose member lists overlap in two members (their blocks between that pair add up):
        # on the same subset, and on a subset plus its first/last pair
        for sub in subsets:
            out.append(("y-abs-rho+y-cov", list(sub)))
            if len(sub) >= 3:
                out.append(("y-abs+y-abs-rho", list(sub), "second-on", [sub[0], sub[-1]]))
    return out


def op_alphabet(mw):
    p0 = mw.par_names[0]
    pl = mw.par_names[-1]
    w0 = mw.members[0]
    q0 = w0.par_names[-1]
    ops = [
        ("m", ("set", "P1")),
        ("m", ("setall", "P2")),
        ("m", ("fix", p0)),
        ("m", ("fix", pl, round(mw.defaults[pl] * 1.3 + 0.1, 6))),
        ("f0", ("set", {q0: round(mw.defaults[q0] * 0.7 - 0.1, 6)})),
        ("f0", ("fix", w0.par_names[0], round(mw.defaults[w0.par_names[0]] * 1.1 + 0.05, 6))),
    ]
    if len(mw.members) > 1:
        w1 = mw.members[-1]
        ops.append(("f%d" % (len(mw.members) - 1), ("set", {w1.par_names[0]: round(mw.defaults[w1.par_names[0]] * 1.4 + 0.2, 6)})))
    if p0 in mw.fixed:
        ops.append(("m", ("rel", p0)))
    if not mw.cons and not w0.cons:
        ops.append(("m", ("con", "simple")))
        ops.append(("f0", ("con", "simple")))
    for i, w in enumerate(mw.members):  # a source of one member declared through the multi-fit (fits=<int>), simple and matrix form
        if w.ftype in ("xy", "indexed") or (w.ftype == "hist" and w.cost_id == "chi2"):
            for kind in ("y-abs-rho", "y-cov"):
                if not any(n.startswith("via%d" % i) for n in w.sources):
                    ops.append(("m", ("addto", i, kind, "via%d%s" % (i, kind[2:4]))))
    for i in range(len(mw.members)):  # complete value list / the member's own fit, issued on every member
        ops.append(("f%d" % i, ("setall", "P2")))
        ops.append(("f%d" % i, ("fit",)))
    return ops


def member_wide(op):
    """the operations that go through a member's own fitter: complete value list, the member's own fit"""
    return op[0] != "m" and op[1][0] in ("setall", "fit")


def allowed_pair(op1, op2):
    """length-2 sequences: all over the operations by name; two different member-wide operations; a member-wide operation behind a fix on the multi-fit"""
    if member_wide(op1) and op1 == op2:
        return False
    if member_wide(op1) == member_wide(op2):
        return True
    return member_wide(op2) and op1[0] == "m" and op1[1][0] == "fix" and len(op1[1]) == 2


def valid(mw, op):
    o = op[1]
    if op[0] == "m" and o[0] == "addto":
        return not mw.shared  # own sources are declared before the members start sharing (kafe2 rebuilds the joint covariance at sharing time)
    if op[0] == "m":
        if o[0] in ("set", "setall") and mw.fixed:
            return False
        if o[0] == "fix" and (o[1] in mw.fixed or len(mw.fixed) + 1 >= len(mw.par_names)):
            return False
    else:
        w = mw.members[int(op[0][1:])]
        if o[0] == "set" and any(p in mw.fixed or p in w.fixed for p in o[1]):
            return False
        if o[0] == "setall" and any(p in mw.fixed or p in w.fixed for p in w.par_names):
            return False
        if o[0] == "fit" and all(p in mw.fixed or p in w.fixed for p in w.par_names):
            return False
        if o[0] == "fix" and (o[1] in mw.fixed or o[1] in w.fixed):
            return False
    return True


def check_state(mw, order):
    out = []
    multi = mw.multi
    with warnings.catch_warnings():
        warnings.simplefilter("ignore")
        if order == "multi-first":
            cm = float(multi.cost_function_value)
            cs = [float(w.fit.cost_function_value) for w in mw.members]
        else:
            cs = [float(w.fit.cost_function_value) for w in mw.members]
            cm = float(multi.cost_function_value)
        exp = mw.ref_cost()
        if abs(cm - exp) > 1e-8 * max(1.0, abs(exp)):
            out.append(("multi.cost_function_value", exp, cm, "wrong-value"))
        for i, w in enumerate(mw.members):
            e = w.ref_cost()
            shared_here = any(i in s[2] for s in mw.shared)
            if not shared_here and abs(cs[i] - e) > 1e-8 * max(1.0, abs(e)):
                out.append(("member%d.cost_function_value" % i, e, cs[i], "wrong-value"))
        if not mw.shared and abs(cm - (sum(cs) + mw.ref_constraint_cost())) > 1e-8 * max(1.0, abs(cm)):
            out.append(("multi.cost = sum(members)", sum(cs), cm, "wrong-value"))
        mv = dict(zip(mw.par_names, np.asarray(multi.parameter_values, dtype=float)))
        for p in mw.par_names:
            if mv[p] != mw.pv[p] and abs(mv[p] - mw.pv[p]) > 1e-12 * max(1.0, abs(mv[p])):
                out.append(("multi.parameter_values:" + p, mw.pv[p], mv[p], "wrong-value"))
        for i, w in enumerate(mw.members):
            for p, val in zip(w.par_names, np.asarray(w.fit.parameter_values, dtype=float)):
                if val != mv[p]:
                    out.append(("member%d.parameter_values:%s" % (i, p), mv[p], float(val), "not-common"))
        if len(mw.chi2_members()) == len(mw.members):
            V = np.asarray(multi.total_cov_mat, dtype=float)
            if mw.shared:
                E = mw.ref_joint()["V"]
            else:
                blocks = [w.ref_covs()["total"] for w in mw.members]
                n = sum(len(b) for b in blocks)
                E = np.zeros((n, n))
                o = 0
                for b in blocks:
                    E[o : o + len(b), o : o + len(b)] = b
                    o += len(b)
            if V.shape != E.shape or np.max(np.abs(V - E)) > 1e-9 * max(1e-300, np.max(np.abs(E))):
                out.append(("multi.total_cov_mat", E.tolist(), V.tolist(), "wrong-value"))
    return out


def check_after_fit(mw):
    out = []
    multi = mw.multi
    with warnings.catch_warnings():
        warnings.simplefilter("ignore")
        mvals = np.asarray(multi.parameter_values, dtype=float)
        merrs = np.asarray(multi.parameter_errors, dtype=float)
        mcov = multi.parameter_cov_mat
        mcor = multi.parameter_cor_mat
        # a parameter fixed on the multi-fit has exactly the common value it had when the fit started (whoever assigned that value)
        for p, val in mw.fixed.items():
            got = float(mvals[mw.par_names.index(p)])
            if got != float(val):
                out.append(("multi.parameter_values:%s (fixed)" % p, float(val), got, "fixed-moved"))
        for i, w in enumerate(mw.members):
            idx = [mw.par_names.index(p) for p in w.par_names]
            f = w.fit
            for name, got, exp in (
                ("parameter_values", f.parameter_values, mvals[idx]),
                ("parameter_errors", f.parameter_errors, merrs[idx]),
                ("parameter_cov_mat", f.parameter_cov_mat, None if mcov is None else np.asarray(mcov)[np.ix_(idx, idx)]),
                ("parameter_cor_mat", f.parameter_cor_mat, None if mcor is None else np.asarray(mcor)[np.ix_(idx, idx)]),
            ):
                if exp is None or got is None:
                    if (exp is None) != (got is None):
                        out.append(("member%d.%s" % (i, name), None if exp is None else np.asarray(exp).tolist(), None if got is None else np.asarray(got).tolist(), "missing"))
                    continue
                got, exp = np.asarray(got, dtype=float), np.asarray(exp, dtype=float)
                if got.shape != exp.shape or not np.allclose(got, exp, rtol=1e-10, atol=1e-14, equal_nan=True):
                    out.append(("member%d.%s" % (i, name), exp.tolist(), got.tolist(), "not-a-sub-block"))
            if not f.did_fit:
                out.append(("member%d.did_fit" % i, True, False, "wrong-value"))
    return out


def check_single_member(mw):
    """a multi-fit of one fit reproduces that fit's stand-alone results"""
    from kmc.fitworld import FitWorld

    out = []
    ftype, cost, model, n, v, kinds = POOL[mw.member_names[0]]
    w = FitWorld(ftype, cost, model=model, v=v, n=n)
    for j, k in enumerate(kinds):
        w.apply(("add", k, "e%d" % j))
    with warnings.catch_warnings():
        warnings.simplefilter("ignore")
        w.apply(("fit",))
        a, b = w.fit, mw.multi
        sa = np.asarray(a.parameter_errors, dtype=float)
        if np.any(np.abs(np.asarray(a.parameter_values) - np.asarray(b.parameter_values)) > 0.03 * sa):
            out.append(("single-member:parameter_values", np.asarray(a.parameter_values).tolist(), np.asarray(b.parameter_values).tolist(), "differs"))
        if np.any(np.abs(sa - np.asarray(b.parameter_errors)) > 0.05 * sa):
            out.append(("single-member:parameter_errors", sa.tolist(), np.asarray(b.parameter_errors).tolist(), "differs"))
        if abs(a.cost_function_value - b.cost_function_value) > 1e-3:
            out.append(("single-member:cost", float(a.cost_function_value), float(b.cost_function_value), "differs"))
        if a.ndf != b.ndf:
            out.append(("single-member:ndf", a.ndf, int(b.ndf), "differs"))
    return out


def check_asymmetric(mw):
    """asymmetric uncertainties were requested from the multi-fit: every member reports the rows of its own parameters"""
    out = []
    with warnings.catch_warnings():
        warnings.simplefilter("ignore")
        A = mw.multi.asymmetric_parameter_errors
        if A is None or np.shape(A) != (len(mw.par_names), 2):
            return [("multi.asymmetric_parameter_errors", "array of shape (%d, 2)" % len(mw.par_names), None if A is None else np.asarray(A).tolist(), "missing")]
        A = np.asarray(A, dtype=float)
        for i, w in enumerate(mw.members):
            idx = [mw.par_names.index(p) for p in w.par_names]
            got = w.fit.asymmetric_parameter_errors
            if got is None:
                out.append(("member%d.asymmetric_parameter_errors" % i, A[idx].tolist(), None, "missing"))
                continue
            got = np.asarray(got, dtype=float)
            if got.shape != A[idx].shape or not np.allclose(got, A[idx], rtol=1e-10, atol=1e-14, equal_nan=True):
                out.append(("member%d.asymmetric_parameter_errors" % i, A[idx].tolist(), got.tolist(), "not-a-sub-block"))
    return out


def _shared_op(shared):
    return ("shared", shared[0], "sh0", shared[1]) + tuple(shared[2:])


def pre_variants(ml):
    """members used on their own before the multi-fit is built: a fit of one member, new values on one member (each read afterwards)"""
    out = []
    for i in range(len(ml)):
        w = MultiWorld([ml[i]]).members[0]
        out.append(((i, ("fit",)),))
        out.append(((i, ("setall", [round(x * 1.25 + 0.2, 6) for x in w.pv.values()])),))
    if len(ml) >= 2:
        out.append(((0, ("fit",)), (len(ml) - 1, ("fit",))))
    return out


def run_history(ml, shared, seq, fit, order, res=None, post=None, pre_ops=()):
    """fit: False | True (plain do_fit) | one of ASYM_ROUTES; post: one more operation behind the fit; pre_ops: member operations before
    the multi-fit is built.  -> (violations of the unfitted prefix, violations at / behind the fit)"""
    mw = MultiWorld(ml, pre=pre_ops)
    pre, viol = [], []
    cur = pre
    try:
        if shared is not None and "+" in shared[0]:
            k1, k2 = shared[0].split("+")
            second = list(shared[3]) if len(shared) > 3 and shared[2] == "second-on" else list(shared[1])
            mw.apply(("shared", k1, "sh0", list(shared[1])))
            mw.apply(("shared", k2, "sh1", second))
            if res is not None:
                res.transitions += 2
        elif shared is not None:
            mw.apply(_shared_op(shared))
            if res is not None:
                res.transitions += 1
        bad = check_state(mw, order)
        for op in seq:
            if bad:
                break
            mw.apply(op)
            if res is not None:
                res.transitions += 1
                res.evaluations += 3
            bad = check_state(mw, order)
        pre += bad
        if fit and not pre:
            cur = viol
            mw.apply(("m", ("fit", "asym") if fit == "fit:asym" else ("fit",)))
            viol += check_state(mw, order)
            viol += check_after_fit(mw)
            if len(ml) == 1 and not seq and shared is None and fit is True and post is None:
                viol += check_single_member(mw)
            if res is not None:
                res.transitions += 1
                res.evaluations += 6
            if fit in ASYM_ROUTES and not viol:
                if fit != "fit:asym":
                    mw.apply(("m", ("query", fit.split("+")[1])))
                viol += check_asymmetric(mw)
                viol += check_after_fit(mw)
                if res is not None:
                    res.transitions += 1
                    res.evaluations += 5
            if post is not None and not viol:
                mw.apply(post)
                viol += check_state(mw, order)
                if res is not None:
                    res.transitions += 1
                    res.evaluations += 3
    except Exception as e:  # noqa: BLE001
        import traceback

        cur.append(("op", "no exception", "%s: %s | %s" % (type(e).__name__, str(e)[:120], traceback.format_exc()[-200:]), "exception:" + type(e).__name__))
    return pre, viol


def post_ops(ml, shared):
    """operations issued behind the fit (unfitted history empty): the alphabet at the fitted state"""
    mw = MultiWorld(ml)
    return [op for op in op_alphabet(mw) if valid(mw, op)]


def all_sequences(ml, L):
    out = [()]

    def rec(prefix):
        if len(prefix) >= L:
            return
        mw = MultiWorld(ml)
        try:
            for op in prefix:
                mw.apply(op)
        except Exception:  # noqa: BLE001
            return
        for op in op_alphabet(mw):
            if valid(mw, op) and (not prefix or allowed_pair(prefix[-1], op)):
                out.append(prefix + (op,))
                rec(prefix + (op,))

    rec(())
    return out


def jobs(tier, seed):
    lists = member_lists(tier)
    # the long jobs (most members, most sharers) first: the pool works them off in this order
    order = sorted(range(len(lists)), key=lambda i: (-len(lists[i]), -sum(n in SHARERS for n in lists[i]), i))
    return [(i, tier, seed % 2) for i in order]


def bound(tier, seed):
    return (
        "%d ordered member lists (length 1-%d from a pool of 13 members (incl. an indexed member with model-referenced sources): xy(a,b), xy(a,c), indexed(a,d) x 2, xy(b,c), xy(a,b)+x errors, xy without "
        "errors, xy with model-relative errors, nll histogram, unbinned, chi2 histogram, indexed of its size) x shared sources (3 y kinds + x; axis omitted "
        "and given for single-axis members) on every subset >= 2 of equal-size chi2 sharers x operation sequences of length <= 2 (<= 1 with shared "
        "sources) over set / set_all / fix / release / constraint on the multi-fit and set / set_all / fix / do_fit on the members x {unfitted, fitted}; "
        "with the empty sequence also 4 ways to ask for asymmetric uncertainties and every single operation behind the fit"
        % (len(member_lists(tier)), 2 if tier == "quick" else 3)
    )


def _fit_tag(fit, post):
    t = "nofit" if not fit else ("fit" if fit is True else fit)
    if post is not None:
        t += ">%s.%s" % (post[0], post[1][0])
    return t


def run_job(spec):
    i, tier, par = spec
    ml = member_lists(tier)[i]
    res = JobResult()
    order = "multi-first" if par == 0 else "members-first"

    def record(shared, seq, fit, post, viol, pre_ops=()):
        res.executions += 1
        key = (tuple(ml), repr(shared), seq, fit, post, pre_ops)
        if pre_ops:
            res.facts["member-used-before"] += 1
        res.state(repr(key))
        if len(ml) > 1:
            res.nontriv(repr(key))
        res.observe((repr(key), len(viol)))
        res.outcomes[("members%d" % len(ml), "shared" if shared else "plain", _fit_tag(fit, None) + (">post" if post else ""), "ok" if not viol else "VIOLATION")] += 1
        res.facts["shared:%s" % (shared[0] if shared else "none")] += 1
        if shared and "+" in shared[0]:
            res.facts["shared:two-sources"] += 1
        if shared and len(shared[1]) == 2 and shared[1][1] - shared[1][0] == 2:
            res.facts["shared:non-adjacent"] += 1
        if shared and all(POOL[ml[j]][0] != "xy" for j in shared[1]):
            res.facts["shared:single-axis:%s" % ("axis given" if len(shared) > 2 and shared[2] == "explicit" else "axis omitted")] += 1
            if any(POOL[ml[j]][0] == "hist" for j in shared[1]):
                res.facts["shared:chi2-histogram"] += 1
        for op in seq:
            if op[0] != "m" and op[1][0] in ("setall", "fit"):
                res.facts["member-op:%s" % op[1][0]] += 1
        if fit in ASYM_ROUTES:
            res.facts["asymmetric:%s" % fit] += 1
        if post is not None:
            res.facts["post-fit-op"] += 1
        for o, e, a, m in viol:
            hist = [dict(members=ml, shared=list(shared) if shared else None, fit=fit, order=order, post=[post[0], list(post[1])] if post else None, pre=[[i, list(o)] for i, o in pre_ops])]
            hist += [[op[0], list(op[1])] for op in seq]
            sig = "%s%s|%s|%s|%s" % (
                "".join("[f%d.%s first]" % (i, o[0]) for i, o in pre_ops),
                "+".join(ml),
                "none" if not shared else "%s@%s%s" % (shared[0], shared[1], "" if len(shared) < 3 else "/" + "/".join(str(t) for t in shared[2:])),
                ";".join("%s.%s" % (op[0], op[1][0]) for op in seq),
                _fit_tag(fit, post),
            )
            res.violation(sig, hist, o, e, a, m)

    for shared in shared_configs(ml, tier):
        L = 2 if shared is None else 1
        if len(ml) == 3 and shared is None and tier == "quick":
            L = 1
        for seq in all_sequences(ml, L):
            # one run: the unfitted prefix of the fitted execution IS the unfitted execution
            pre, viol = run_history(ml, shared, seq, True, order, res)
            record(shared, seq, False, None, pre)
            if not pre:
                record(shared, seq, True, None, viol)
            if seq or pre:
                continue
            for route in ASYM_ROUTES if shared is None or tier != "quick" else ASYM_ROUTES[1:2]:
                record(shared, seq, route, None, run_history(ml, shared, seq, route, order, res)[1])
            if shared is None or tier != "quick":
                for post in post_ops(ml, shared):
                    record(shared, seq, True, post, run_history(ml, shared, seq, True, order, res, post=post)[1])
            # members that were used on their own (fitted / given values, and read) before the multi-fit was built
            if len(ml) >= 2 and (shared is None or tier != "quick"):
                for pre_ops in pre_variants(ml):
                    p, viol = run_history(ml, shared, (), True, order, res, pre_ops=pre_ops)
                    record(shared, (), False, None, p, pre_ops)
                    if not p:
                        record(shared, (), True, None, viol, pre_ops)
    res.sample(dict(members=ml, shared_configs=len(shared_configs(ml, tier)), order=order))
    return res.as_dict()


def replay(history):
    h = history[0]
    seq = [(o[0], tuple(o[1])) for o in history[1:]]
    post = (h["post"][0], tuple(h["post"][1])) if h.get("post") else None
    pre_ops = tuple((i, tuple(tuple(x) if isinstance(x, list) and x and not isinstance(x[0], (int, float)) else x for x in o)) for i, o in h.get("pre") or [])
    pre, viol = run_history(h["members"], tuple(h["shared"]) if h["shared"] else None, seq, h["fit"], h["order"], post=post, pre_ops=pre_ops)
    return [dict(observable=o, expected=e, actual=a, mode=m) for o, e, a, m in pre + viol]


def triage_key(v):
    f = v["sig"].split("|")
    return (f[0], f[1].split("@")[0], v["observable"].split(":")[0], v["mode"])


def vacuity_guards(tot, tier):
    yield "shared sources on a non-adjacent member pair explored", tot.facts.get("shared:non-adjacent", 0) > 0
    yield "shared x source explored", tot.facts.get("shared:x-abs", 0) > 0
    yield "shared matrix source explored", tot.facts.get("shared:y-cov", 0) > 0
    yield "shared source on single-axis members declared without the axis argument", tot.facts.get("shared:single-axis:axis omitted", 0) > 0
    yield "shared source on a chi2 histogram member explored", tot.facts.get("shared:chi2-histogram", 0) > 0
    yield "set_all / do_fit issued on a member explored", tot.facts.get("member-op:setall", 0) > 0 and tot.facts.get("member-op:fit", 0) > 0
    yield "asymmetric uncertainties requested behind a plain fit", tot.facts.get("asymmetric:fit+prop", 0) > 0
    yield "operations behind the fit explored", tot.facts.get("post-fit-op", 0) > 0
    yield "two shared sources with overlapping member lists explored", tot.facts.get("shared:two-sources", 0) > 0
    yield "members used on their own before the multi-fit was built", tot.facts.get("member-used-before", 0) > 0
