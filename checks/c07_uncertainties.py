"""C07 - reported parameter uncertainties obey their definitions.

Mode D: fitted problems x backends x every free parameter / pair x sigma levels x band points; the defining equations
are evaluated on the independent reference cost (kmc.ref): covariance = 2 H^-1, profile points = cost re-minimised over
the other parameters, asymmetric errors = rise by exactly 1, contour points = rise by n^2, band = J C J^T.
"""
import warnings

import numpy as np
from scipy import optimize

from kmc import problems
from kmc.core import JobResult
from kmc.fitworld import FitWorld

PROPERTY = "C07"
RULE = (
    "cases = (fitted problem, backend, definition) with definition in {covariance vs 2 H^-1 of the reference cost, errors/correlation "
    "consistency, every profile point of every free parameter vs the re-minimised reference cost, asymmetric errors vs rise by 1, "
    "every contour point vs rise by n^2, error band at 5 points vs J C J^T}; non-trivial = nonlinear model, parameter-dependent "
    "covariance, fixed parameter or constraint"
)
ASSUMPTIONS = [
    "reference Hessian by 4th-order central differences (step 0.2 sigma) on the reference cost; reference profiles by Nelder-Mead / Brent on the reference cost started at the reported optimum",
    "tolerances: covariance 1e-2 (linear) / 5e-2 (nonlinear) sigma_i sigma_j; profile points 1e-3 (+1 % of the rise); rise at asymmetric errors 1 +- 2e-2; contour rise n^2 +- 15 % (MNCONTOUR and grid contours locate points to a few per cent; measured worst 4.5 %); band 1e-2",
    "no parameter rests on a limit (the statement excludes it)",
]
LINEAR = {"lin-y", "lin-xhz", "quad-con", "idx3-cov"}
PROBS_QUICK = ["lin-y", "lin-xhz", "quad-con", "idx3-cov", "exp-y", "exp-xy", "exp-fixed", "exp-relm", "sinus-y", "peak-fix13", "hist-nll", "unbinned-nll"]
PROBS_ALL = PROBS_QUICK + ["exp-xy-relm", "pow-y", "peak-fixed", "logistic-xy", "exp-lim", "hist-nllg"]


def make(name, v, backend):
    if name in problems.PROBLEMS or name == "lin-xhz":
        return problems.make(name, v=v, minimizer=backend)
    if name == "unbinned-nll":
        w = FitWorld("unbinned", "nll", model="normal", v=v, minimizer=backend)
    else:
        cost = {"hist-nll": "nll", "hist-nllg": "nll-gaussian"}[name]
        w = FitWorld("hist", cost, model="normal", v=v, minimizer=backend, poisson_data=False)
        if name == "hist-nllg":
            w.apply(("add", "y-abs-s", "e0"))
    with warnings.catch_warnings():
        warnings.simplefilter("ignore")
        w.apply(("fit",))
    return w


def free_pars(w):
    return [p for p in w.par_names if p not in w.fixed]


def cost_at(w, free, x):
    pv = dict(w.pv)
    for p, xv in zip(free, x):
        pv[p] = float(xv)
    return w.ref_cost(pv=pv)


def ref_hessian(w, free, sig):
    x0 = np.array([w.pv[p] for p in free])
    h = 0.2 * sig
    n = len(free)
    H = np.zeros((n, n))
    f0 = cost_at(w, free, x0)
    for i in range(n):
        e = np.zeros(n)
        e[i] = h[i]
        H[i, i] = (-cost_at(w, free, x0 + 2 * e) + 16 * cost_at(w, free, x0 + e) - 30 * f0 + 16 * cost_at(w, free, x0 - e) - cost_at(w, free, x0 - 2 * e)) / (12 * h[i] ** 2)
        for j in range(i + 1, n):
            g = np.zeros(n)
            g[j] = h[j]
            H[i, j] = H[j, i] = (cost_at(w, free, x0 + e + g) - cost_at(w, free, x0 + e - g) - cost_at(w, free, x0 - e + g) + cost_at(w, free, x0 - e - g)) / (4 * h[i] * h[j])
    return H


def ref_profile(w, free, pinned, values):
    """reference cost re-minimised over the other free parameters with `pinned` (dict) held"""
    others = [p for p in free if p not in pinned]
    pv = dict(w.pv)
    pv.update(pinned)
    if not others:
        return w.ref_cost(pv=pv)
    x0 = np.array([w.pv[p] for p in others])

    def f(x):
        q = dict(pv)
        for p, xv in zip(others, np.atleast_1d(x)):
            q[p] = float(xv)
        c = w.ref_cost(pv=q)
        return c if np.isfinite(c) else 1e300

    if len(others) == 1:
        s = max(abs(x0[0]) * 0.05, 1e-3)
        r = optimize.minimize_scalar(f, bracket=(x0[0] - s, x0[0] + s), tol=1e-10)
        return float(r.fun)
    r = optimize.minimize(f, x0, method="Nelder-Mead", options=dict(xatol=1e-9, fatol=1e-10, maxiter=4000, maxfev=8000))
    r2 = optimize.minimize(f, r.x, method="Nelder-Mead", options=dict(xatol=1e-10, fatol=1e-11, maxiter=4000, maxfev=8000))
    return float(min(r.fun, r2.fun))


def check(name, backend, v, parts, res=None):
    from kafe2 import ContoursProfiler

    out = []
    w = make(name, v, backend)
    f = w.fit
    free = free_pars(w)
    idx = [w.par_names.index(p) for p in free]
    C = np.asarray(f.parameter_cov_mat, dtype=float)
    errs = np.asarray(f.parameter_errors, dtype=float)
    sig = errs[idx]
    tolC = 1e-2 if name in LINEAR else 5e-2
    nev = 0
    fmin = ref_profile(w, free, {}, None)
    if "cov-after-refit" in parts:
        # a second minimisation after the problem changed (one more constraint): every result belongs to the new minimum
        with warnings.catch_warnings():
            warnings.simplefilter("ignore")
            if name == "quad-con" or w.cons:
                w.apply(("con", "matrix-cov") if "matrix-cov" not in w.cons else ("con", "simple-rel"))
            else:
                w.apply(("con", "simple"))
            w.apply(("fit",))
        free = free_pars(w)
        idx = [w.par_names.index(p) for p in free]
        C = np.asarray(f.parameter_cov_mat, dtype=float)
        errs = np.asarray(f.parameter_errors, dtype=float)
        sig = errs[idx]
        fmin = ref_profile(w, free, {}, None)
    after = [p for p in parts if p.startswith("cov-after-")]
    if after and "cov-after-refit" not in parts:
        # the same definitions must hold after a query that pins parameters, re-minimises and restores the minimiser state
        with warnings.catch_warnings():
            warnings.simplefilter("ignore")
            if "cov-after-profile" in parts:
                ContoursProfiler(f, profile_points=5).get_profile(free[0])
            if "cov-after-profile-cl" in parts:
                ContoursProfiler(f, profile_points=5).get_profile(free[-1], cl=0.9)
            if "cov-after-asym" in parts:
                f.asymmetric_parameter_errors
        C = np.asarray(f.parameter_cov_mat, dtype=float)
        errs = np.asarray(f.parameter_errors, dtype=float)
    if "cov" in parts or after:
        H = ref_hessian(w, free, sig)
        Cref = 2.0 * np.linalg.inv(H)
        sr = np.sqrt(np.diag(Cref))
        for a, i in enumerate(idx):
            for b, j in enumerate(idx):
                nev += 1
                if abs(C[i, j] - Cref[a, b]) > tolC * sr[a] * sr[b]:
                    out.append(("parameter_cov_mat[%s,%s]" % (free[a], free[b]), float(Cref[a, b]), float(C[i, j]), "wrong-value"))
        for i, p in enumerate(w.par_names):
            if p in w.fixed and (np.any(C[i] != 0) or np.any(C[:, i] != 0)):
                out.append(("parameter_cov_mat[fixed %s]" % p, 0.0, C[i].tolist(), "fixed-nonzero"))
        if not np.allclose(errs, np.sqrt(np.diag(C)), rtol=3e-2, atol=0):
            out.append(("parameter_errors", np.sqrt(np.diag(C)).tolist(), errs.tolist(), "inconsistent"))
        R = np.asarray(f.parameter_cor_mat, dtype=float)
        d = np.sqrt(np.diag(C))
        with np.errstate(divide="ignore", invalid="ignore"):
            Rref = C / np.outer(d, d)
        for a, i in enumerate(idx):
            for b, j in enumerate(idx):
                nev += 1
                if abs(R[i, j] - Rref[i, j]) > 1e-6:
                    out.append(("parameter_cor_mat[%s,%s]" % (free[a], free[b]), float(Rref[i, j]), float(R[i, j]), "inconsistent"))
    with warnings.catch_warnings():
        warnings.simplefilter("ignore")
        if "profile" in parts:
            # every way to say whether the minimum is subtracted: profiler setting {default (True), False} x argument {None, True, False};
            # the number of points through the profiler setting or the argument
            refc = {}
            for pi, p in enumerate(free):
                combos = [(False, None, None, False)]
                if pi == 0:
                    combos += [(None, None, None, False), (None, False, None, False), (None, True, 5, False), (False, True, None, False), (False, False, 5, False)]
                    # explicit, asymmetric bounds with few points (the scanned grid does not contain the optimum): the subtracted
                    # minimum is the cost at the optimum, not the smallest scanned value
                    combos += [(None, True, 5, True), (None, None, 6, True), (False, None, 5, True)]
                i0 = w.par_names.index(p)
                for setting, arg, pts, asymmetric in combos:
                    kw = {} if setting is None else dict(profile_subtract_min=setting)
                    cp = ContoursProfiler(f, profile_points=7, **kw)
                    akw = {} if arg is None else dict(subtract_min=arg)
                    if pts is not None:
                        akw["points"] = pts
                    if asymmetric:
                        prof = np.asarray(cp.get_profile(p, low=w.pv[p] - 1.5 * errs[i0], high=w.pv[p] + 1.1 * errs[i0], **akw))
                    else:
                        prof = np.asarray(cp.get_profile(p, sigma=2, **akw))
                    sub = arg if arg is not None else (True if setting is None else setting)
                    tag = "profile:%s" % p if (setting, arg, pts, asymmetric) == (False, None, None, False) else "profile:%s[setting=%s,subtract_min=%s,points=%s%s]" % (p, setting, arg, pts, ",low/high" if asymmetric else "")
                    if len(prof[0]) != (7 if pts is None else pts):
                        out.append((tag, 7 if pts is None else pts, int(len(prof[0])), "wrong-number-of-points"))
                        continue
                    for xv, yv in zip(prof[0], prof[1]):
                        k = (p, round(float(xv), 12))
                        if k not in refc:
                            refc[k] = ref_profile(w, free, {p: float(xv)}, None)
                        exp = refc[k] - (fmin if sub else 0.0)
                        nev += 1
                        if abs(yv - exp) > 1e-3 + 1e-2 * abs(refc[k] - fmin):
                            out.append((tag, dict(x=float(xv), cost=exp), float(yv), "wrong-value"))
                            break
        if "asym" in parts:
            A = f.asymmetric_parameter_errors
            if A is None:
                out.append(("asymmetric_parameter_errors", "array", None, "missing"))
            else:
                A = np.asarray(A, dtype=float)
                for p in free:
                    i = w.par_names.index(p)
                    for s, e in zip((0, 1), A[i]):
                        rise = ref_profile(w, free, {p: w.pv[p] + float(e)}, None) - fmin
                        nev += 1
                        if abs(rise - 1.0) > 2e-2:
                            out.append(("asymmetric_parameter_errors:%s:%s" % (p, "down" if s == 0 else "up"), 1.0, float(rise), "wrong-rise"))
                for i, p in enumerate(w.par_names):
                    if p in w.fixed and np.any(A[i] != 0):
                        out.append(("asymmetric_parameter_errors:fixed %s" % p, [0, 0], A[i].tolist(), "fixed-nonzero"))
        if "contour" in parts and len(free) >= 2:
            tolc = 0.15  # MNCONTOUR / grid contours locate points to a few per cent of the rise (measured worst 4.5 %)
            for nsig in (1.0, 2.0):
                cs = ContoursProfiler(f, contour_points=10, contour_sigma_values=(nsig,)).get_contours(free[0], free[1])
                for cl, c in cs:
                    if c is None:
                        out.append(("contour:%s" % nsig, "contour", None, "missing"))
                        continue
                    if c.xy_points is not None:
                        xy = np.asarray(c.xy_points)
                    else:
                        # grid contour (scipy backend): the drawn line is the level sigma of grid_z = sqrt(cost - min)
                        import contourpy

                        lines = contourpy.contour_generator(np.asarray(c.grid_x), np.asarray(c.grid_y), np.asarray(c.grid_z).T).lines(float(c.sigma))
                        if not lines:
                            out.append(("contour:%s" % nsig, "contour line", None, "missing"))
                            continue
                        line = max(lines, key=len)
                        step = max(1, len(line) // 10)
                        xy = np.asarray(line[::step]).T
                    for xv, yv in zip(xy[0][:10], xy[1][:10]):
                        rise = ref_profile(w, free, {free[0]: float(xv), free[1]: float(yv)}, None) - fmin
                        nev += 1
                        if abs(rise - nsig**2) > tolc * nsig**2 + 2e-3:
                            out.append(("contour:%s" % nsig, nsig**2, dict(point=[float(xv), float(yv)], rise=float(rise)), "wrong-rise"))
                            break
        if "band" in parts and w.ftype == "xy":
            xs = np.linspace(w.val.x[0] - 0.3, w.val.x[-1] + 0.9, 5)
            band = np.asarray(f.error_band(xs), dtype=float)
            pv = np.array([w.pv[p] for p in w.par_names])
            J = np.zeros((len(xs), len(free)))
            for a, p in enumerate(free):
                i = w.par_names.index(p)
                h = 1e-5 * max(1.0, abs(pv[i]))
                up, dn = pv.copy(), pv.copy()
                up[i] += h
                dn[i] -= h
                J[:, a] = (w.fn(xs, *up) - w.fn(xs, *dn)) / (2 * h)
            Cf = C[np.ix_(idx, idx)]
            exp = np.sqrt(np.einsum("xa,ab,xb->x", J, Cf, J))
            nev += len(xs)
            if not np.allclose(band, exp, rtol=1e-2, atol=1e-9, equal_nan=True):
                out.append(("error_band", exp.tolist(), band.tolist(), "wrong-value"))
    return out, nev, w


PARTS = ["cov", "cov-after-profile", "cov-after-profile-cl", "cov-after-asym", "cov-after-refit", "profile", "asym", "contour", "band"]


def jobs(tier, seed):
    v = seed % 3
    specs = []
    for vv in ([v] if tier == "quick" else [0, 1, 2]):
        for name in PROBS_QUICK if tier == "quick" else PROBS_ALL:
            for backend in ("iminuit", "scipy"):
                for part in PARTS:
                    if name == "lin-xhz" and part not in ("cov", "band"):
                        continue  # badly scaled on purpose (slope ~1e-6): only the covariance and the band are judged on it
                    if backend == "scipy" and part == "contour" and (tier == "quick" or name not in ("lin-y", "exp-y", "exp-xy")):
                        continue
                    if backend == "scipy" and part in ("profile", "asym", "cov-after-profile-cl", "cov-after-asym") and tier == "quick" and name not in ("lin-y", "exp-xy", "exp-fixed"):
                        continue
                    specs.append((name, backend, vv, part))
    return specs


def bound(tier, seed):
    return "%d fitted problems x {iminuit, scipy} x {covariance/errors/correlation (also after a profile, a profile by confidence level, an asymmetric-error query, and after a refit with one more constraint), 7-point profiles of every free parameter (first parameter: every combination of the subtract_min setting / argument and points argument), asymmetric errors, 1- and 2-sigma contours of the first parameter pair (10 points), band at 5 points}; scipy profiles/asymmetric errors on 3 problems and no scipy contours in the quick tier; valuation(s) %s" % (
        len(PROBS_QUICK if tier == "quick" else PROBS_ALL),
        (seed % 3) if tier == "quick" else "0,1,2",
    )


def run_job(spec):
    name, backend, v, part = spec
    res = JobResult()
    hist = [dict(name=name, backend=backend, v=v, part=part)]
    try:
        bad, nev, w = check(name, backend, v, [part])
    except Exception as e:  # noqa: BLE001
        import traceback

        bad, nev, w = [("query:" + part, "no exception", "%s: %s" % (type(e).__name__, traceback.format_exc()[-300:]), "exception:" + type(e).__name__)], 0, None
    res.executions += 1
    res.transitions += 3
    res.evaluations += max(nev, 1)
    res.state(spec)
    if name not in ("lin-y",):
        res.nontriv(spec)
    res.observe((spec, len(bad)))
    res.outcomes[(part, backend, "ok" if not bad else "VIOLATION")] += 1
    res.facts["part:" + part] += 1
    for o, e, a, m in bad:
        res.violation("%s/%s/%s" % (name, backend, part), hist, o, e, a, m)
    res.sample(dict(problem=name, backend=backend, part=part, comparisons=nev))
    return res.as_dict()


def replay(history):
    h = history[0]
    bad, nev, w = check(h["name"], h["backend"], h["v"], [h["part"]])
    return [dict(observable=o, expected=e, actual=a, mode=m) for o, e, a, m in bad]


def triage_key(v):
    return (v["sig"], v["observable"].split(":")[0].split("[")[0], v["mode"])


def vacuity_guards(tot, tier):
    for p in PARTS:
        yield "definition '%s' evaluated" % p, tot.facts.get("part:" + p, 0) > 0
