"""C15 - results are independent of labelling: point order, parameter order, units.

Mode D: fitted problems x point permutations x parameter orders x unit factors x backends, each transformed problem built
through the real API and compared with the untransformed one (symmetry relations need no expected numbers).
"""
import itertools
import warnings

import numpy as np

from kmc import ref
from kmc.core import JobResult
from kmc.valuations import V

PROPERTY = "C15"
RULE = (
    "cases = (problem, backend, point permutation, parameter order, unit factor); the transformed problem is fitted through the real "
    "API and compared with the untransformed fit: cost / goodness of fit / ndf / chi2 probability unchanged, values, errors and "
    "covariance permuted by name, unit-bearing parameters and their errors scaled; non-trivial = non-identity transformation on a "
    "problem with correlated or parameter-dependent covariance, or fixed / limited / constrained parameters"
)
ASSUMPTIONS = [
    "fit tolerances: values 0.03 (iminuit) / 0.05 (scipy) sigma, errors 5 %, covariance 5e-2 sigma_i sigma_j, chi2 1e-3, probability 1e-3 absolute",
    "start values, fixed values, limits and constraints of unit-bearing parameters are expressed in the new unit as a user would",
    "scipy with limited parameters under-converges (known finding, see C06)",
]

# model key -> (function, names of the parameters that carry the unit of y)
UNIT_PARS = {"expo": ["A0"], "expc": ["A0", "c"], "powerlaw": ["A0"], "lin": ["a", "b"], "quad": ["a", "b", "c"], "sinus": ["A0", "c"], "peak": ["A0", "c"], "logistic": ["L"]}

PROBLEMS = {
    # name: model, truth, sources, fixed, limits, constraints
    "exp-y": dict(model="expo", truth=[1.6, 0.22], sources=[("y", "vec")]),
    "exp-rho-cov": dict(model="expo", truth=[1.6, 0.22], sources=[("y", "rho"), ("y", "cov")]),
    "exp-xy-relm": dict(model="expo", truth=[1.6, 0.22], sources=[("y", "vec"), ("x", "vec"), ("y", "relmodel")]),
    "expc-fixed": dict(model="expc", truth=[1.6, 0.22, 0.5], sources=[("y", "vec")], fixed={"c": 0.45}),
    "expc-con": dict(model="expc", truth=[1.6, 0.22, 0.5], sources=[("y", "vec"), ("y", "rel")], cons=[("c", 0.5, 0.1)]),
    "sinus-lim": dict(model="sinus", truth=[1.7, 0.85, 3.0], sources=[("y", "vec")], limits={"om": (0.5, 1.2)}),
    "quad-rho": dict(model="quad", truth=[0.05, 0.7, 1.2], sources=[("y", "rho")]),
    "peak-fixed": dict(model="peak", truth=[3.3, 4.3, 1.3, 1.0], sources=[("y", "vec"), ("y", "cov")], fixed={"c": 1.0}),
    "peak-fix2": dict(model="peak", truth=[3.3, 4.3, 1.3, 1.0], sources=[("y", "vec")], fixed={"mu": 4.32, "c": 1.0}),  # two non-adjacent fixed parameters
    "exp-y-nodet": dict(model="expo", truth=[1.6, 0.22], sources=[("y", "vec")], cost="nodet"),  # cost OBJECT built with add_determinant_cost=False
    "pow-xy": dict(model="powerlaw", truth=[1.1, 0.9], sources=[("y", "vec"), ("x", "vec")]),
    "logistic-lim": dict(model="logistic", truth=[8.0, 0.7, 4.2], sources=[("y", "vec")], limits={"L": (5.0, 12.0)}),
}
QUICK = ["exp-y", "exp-y-nodet", "exp-rho-cov", "exp-xy-relm", "expc-fixed", "expc-con", "sinus-lim", "quad-rho", "peak-fix2"]
ASYM = ["expc-fixed", "peak-fix2", "quad-rho", "exp-y"]  # problems whose asymmetric (profile) uncertainties are compared as well
N = 10


def perms(tier):
    idn = list(range(N))
    out = [("id", idn), ("reverse", idn[::-1])]

    def swap(i, j):
        p = list(idn)
        p[i], p[j] = p[j], p[i]
        return p

    out += [("swap01", swap(0, 1)), ("swap45", swap(4, 5)), ("swap89", swap(8, 9)), ("swap09", swap(0, 9))]
    out.append(("shuffle", [3, 7, 0, 9, 4, 1, 8, 2, 6, 5]))
    out.append(("cycle3", idn[3:] + idn[:3]))
    if tier != "quick":
        out += [("swap%d%d" % (i, i + 1), swap(i, i + 1)) for i in (1, 2, 3, 5, 6, 7)]
    return out


def build(name, v, backend, perm, order, unit):
    import kafe2

    P = PROBLEMS[name]
    val = V(v, N)
    base = ref.MODELS[P["model"]]
    import inspect

    sig = inspect.signature(base)
    pnames = [p for p in sig.parameters][1:]
    defaults = {p: sig.parameters[p].default for p in pnames}
    unitp = UNIT_PARS[P["model"]]
    scale = {p: (unit if p in unitp else 1.0) for p in pnames}
    oname = [pnames[i] for i in order]
    src = "def model(x, %s):\n    return _base(x, %s)\n" % (", ".join("%s=%r" % (p, defaults[p] * scale[p]) for p in oname), ", ".join(pnames))
    ns = {"_base": base}
    exec(src, ns)
    model = ns["model"]
    pi = np.array(perm)
    x = val.x[pi]
    y = (base(val.x, *P["truth"]) + 0.3 * val.noise)[pi] * unit
    with warnings.catch_warnings():
        warnings.simplefilter("ignore")
        kw = {}
        if P.get("cost") == "nodet":
            from kafe2.fit.xy.cost import XYCostFunction_Chi2

            kw["cost_function"] = XYCostFunction_Chi2(add_determinant_cost=False)
        f = kafe2.XYFit([x, y], model, minimizer=backend, **kw)
        for axis, kind in P["sources"]:
            if kind == "vec":
                e = (val.ey if axis == "y" else val.ex)[pi] * (unit if axis == "y" else 1.0)
                f.add_error(axis, e)
            elif kind == "rho":
                f.add_error(axis, val.ey2[pi] * unit, correlation=val.rho)
            elif kind == "cov":
                f.add_matrix_error(axis, val.My[np.ix_(pi, pi)] * 0.3 * unit**2, "cov")
            elif kind == "rel":
                f.add_error(axis, val.ryv[pi] * 0.5, relative=True)
            elif kind == "relmodel":
                f.add_error(axis, val.rm, relative=True, reference="model")
        for p, (lo, hi) in P.get("limits", {}).items():
            f.limit_parameter(p, lo * scale[p], hi * scale[p])
        for p, val_ in P.get("fixed", {}).items():
            f.fix_parameter(p, val_ * scale[p])
        for p, val_, unc in P.get("cons", []):
            f.add_parameter_constraint(p, val_ * scale[p], unc * scale[p])
        f.do_fit()
    return f, oname, scale


def summary(f, oname, scale, asym=False):
    with warnings.catch_warnings():
        warnings.simplefilter("ignore")
        vals = dict(zip(oname, np.asarray(f.parameter_values, dtype=float)))
        errs = dict(zip(oname, np.asarray(f.parameter_errors, dtype=float)))
        C = np.asarray(f.parameter_cov_mat, dtype=float)
        cov = {(a, b): C[i, j] for i, a in enumerate(oname) for j, b in enumerate(oname)}
        out = dict(vals=vals, errs=errs, cov=cov, gof=float(f.goodness_of_fit), ndf=int(f.ndf), prob=float(f.chi2_probability), cost=float(f.cost_function_value))
        if asym:
            A = f.asymmetric_parameter_errors
            out["asym"] = None if A is None else {p: [float(t) for t in A[i]] for i, p in enumerate(oname)}
        return out


def compare(base, tr, scale, unit, backend, n, det=True):
    out = []
    if tr.get("member_asym") is not None and tr.get("asym") is not None:
        # within the transformed problem: a member reports, for each of its parameters, the multi-fit's asymmetric uncertainties of that name
        for key, got in tr["member_asym"].items():
            p = key.split(":")[1]
            exp = tr["asym"][p]
            if got is None or any(abs(g - e) > 1e-9 * max(1.0, abs(e)) for g, e in zip(got, exp)):
                out.append(("asym:" + key, exp, got, "not-the-multi-fit's"))
    if base.get("asym") is not None:
        if tr.get("asym") is None:
            out.append(("asymmetric_parameter_errors", "as for the untransformed problem", None, "missing"))
        else:
            for p, (dn, up) in base["asym"].items():
                e0 = base["errs"][p]
                td, tu = tr["asym"][p]
                if e0 > 0 and (abs(td / scale[p] - dn) > 0.1 * e0 or abs(tu / scale[p] - up) > 0.1 * e0):
                    out.append(("asym:" + p, [dn * scale[p], up * scale[p]], [td, tu], "wrong-value"))
    tolv = 0.03 if backend == "iminuit" else 0.05
    for p, v0 in base["vals"].items():
        s = scale[p]
        e0 = base["errs"][p]
        if e0 == 0:
            if abs(tr["vals"][p] - v0 * s) > 1e-12 * abs(v0 * s):
                out.append(("value:" + p, v0 * s, tr["vals"][p], "fixed-moved"))
            continue
        if abs(tr["vals"][p] / s - v0) > tolv * e0:
            out.append(("value:" + p, v0 * s, tr["vals"][p], "wrong-value"))
        if abs(tr["errs"][p] / s - e0) > 0.05 * e0:
            out.append(("error:" + p, e0 * s, tr["errs"][p], "wrong-value"))
    for (a, b), c0 in base["cov"].items():
        ea, eb = base["errs"][a], base["errs"][b]
        if abs(tr["cov"][(a, b)] / (scale[a] * scale[b]) - c0) > 5e-2 * ea * eb + 1e-300:
            out.append(("cov:%s,%s" % (a, b), c0 * scale[a] * scale[b], tr["cov"][(a, b)], "wrong-value"))
    if abs(tr["gof"] - base["gof"]) > 1e-3 + 1e-6 * abs(base["gof"]):
        out.append(("goodness_of_fit", base["gof"], tr["gof"], "wrong-value"))
    if tr["ndf"] != base["ndf"]:
        out.append(("ndf", base["ndf"], tr["ndf"], "wrong-value"))
    if abs(tr["prob"] - base["prob"]) > 1e-3:
        out.append(("chi2_probability", base["prob"], tr["prob"], "wrong-value"))
    exp_cost = base["cost"] + (2.0 * n * np.log(unit) if det else 0.0)  # the ln det term is the only part that knows the unit of y
    if abs(tr["cost"] - exp_cost) > 1e-3 + 1e-6 * abs(exp_cost):
        out.append(("cost_function_value", exp_cost, tr["cost"], "wrong-value"))
    return out


def build_multi(v, backend, perm, unit, swap=False):
    """MultiFit of two straight lines sharing the slope, with one shared (correlated) y uncertainty and one own source each;
    the second member constrains its own parameter c; swap: the second member's model lists its parameters as (c, a)"""
    import kafe2

    val = V(v, N)
    pi = np.array(perm)
    src0 = "def m0(x, a=%r, b=%r):\n    return a * x + b\n" % (1.0 * unit, 0.5 * unit)
    src1 = "def m1(x, a=%r, c=%r):\n    return a * x + c\n" % (1.0 * unit, 2.0 * unit)
    if swap:
        src1 = "def m1(x, c=%r, a=%r):\n    return a * x + c\n" % (2.0 * unit, 1.0 * unit)
    ns = {}
    exec(src0, ns)
    exec(src1, ns)
    x0, x1 = val.x[pi], val.x_alt[pi]
    y0 = ((1.05 * val.x + 0.45) + 0.3 * val.noise)[pi] * unit
    y1 = ((1.05 * val.x_alt + 1.9) - 0.25 * val.noise[::-1])[pi] * unit
    with warnings.catch_warnings():
        warnings.simplefilter("ignore")
        f0 = kafe2.XYFit([x0, y0], ns["m0"], minimizer=backend)
        f1 = kafe2.XYFit([x1, y1], ns["m1"], minimizer=backend)
        f0.add_error("y", val.ey[pi] * unit)
        f1.add_error("y", val.ey2[pi] * unit)
        f1.add_parameter_constraint("c", 2.3 * unit, 0.2 * unit)
        m = kafe2.MultiFit([f0, f1], minimizer=backend)
        m.add_error(0.15 * unit, fits="all", axis="y", correlation=val.rho)
        m.do_fit()
        names = list(m.parameter_names)
        C = np.asarray(m.parameter_cov_mat, dtype=float)
        # asymmetric uncertainties of the multi-fit by name, and what each member reports for its own parameters (by name as well)
        A = m.asymmetric_parameter_errors
        asym = None if A is None else {p: [float(t) for t in A[i]] for i, p in enumerate(names)}
        masym = {}
        for k, fk in enumerate((f0, f1)):
            Ak = fk.asymmetric_parameter_errors
            for i, p in enumerate(fk.parameter_names):
                masym["member%d:%s" % (k, p)] = None if Ak is None or np.shape(Ak) != (len(fk.parameter_names), 2) else [float(t) for t in Ak[i]]
        return dict(
            asym=asym,
            member_asym=masym,
            vals=dict(zip(names, np.asarray(m.parameter_values, dtype=float))),
            errs=dict(zip(names, np.asarray(m.parameter_errors, dtype=float))),
            cov={(a, b): C[i, j] for i, a in enumerate(names) for j, b in enumerate(names)},
            gof=float(m.goodness_of_fit), ndf=int(m.ndf), prob=float(m.chi2_probability), cost=float(m.cost_function_value),
        )


NBIG = 40


def build_big(v, backend, unit, reverse=False):
    """40 points, straight line, one correlated and one uncorrelated y source: with this many points the PRODUCT of the variances
    leaves the floating-point range already for everyday unit factors (1e5: (1e9)^40), their log-sum does not"""
    import kafe2

    i = np.arange(NBIG, dtype=float)
    x = 0.5 + 0.25 * i + 0.03 * np.sin(1.7 * i + v)
    noise = 0.3 * np.sin(2.3 * i + 0.5 * v) + 0.15 * np.cos(0.9 * i)
    y = (0.8 * x + 1.5 + noise) * unit
    e1 = (0.25 + 0.1 * np.cos(1.3 * i + v) ** 2) * unit
    e2 = (0.12 + 0.05 * np.sin(0.7 * i) ** 2) * unit
    if reverse:
        x, y, e1, e2 = x[::-1], y[::-1], e1[::-1], e2[::-1]
    ns = {}
    exec("def model(x, a=%r, b=%r):\n    return a * x + b\n" % (1.0 * unit, 1.0 * unit), ns)
    with warnings.catch_warnings():
        warnings.simplefilter("ignore")
        f = kafe2.XYFit([x, y], ns["model"], minimizer=backend)
        f.add_error("y", e1)
        f.add_error("y", e2, correlation=(0.5, 0.3, 0.7)[v % 3])
        f.do_fit()
    return summary(f, ["a", "b"], None)


def orders(npar, tier):
    allp = list(itertools.permutations(range(npar)))
    if tier == "quick" and npar > 3:
        return [allp[0], allp[-1], tuple(range(1, npar)) + (0,)]
    return allp if npar <= 3 or tier != "quick" else allp[:6]


def transformations(name, tier):
    import inspect

    npar = len(inspect.signature(ref.MODELS[PROBLEMS[name]["model"]]).parameters) - 1
    idn = tuple(range(npar))
    ps = perms(tier)
    os_ = orders(npar, tier)
    if npar > 3:
        os_ = os_[:6] if tier != "quick" else os_
    units = [1.0, 1e-3, 7.0, 1e3, 1e-5, 1e5]
    out = []
    if tier == "quick":
        for pn, p in ps[1:]:
            out.append((pn, p, idn, 1.0))
        for o in os_[1:]:
            out.append(("id", ps[0][1], o, 1.0))
        for u in units[1:]:
            out.append(("id", ps[0][1], idn, u))
        out.append(("shuffle", dict(ps)["shuffle"], os_[-1], 7.0))
        out.append(("reverse", dict(ps)["reverse"], os_[-1], 1e3))
    else:
        for (pn, p), o, u in itertools.product(ps, os_, units):
            if pn == "id" and o == idn and u == 1.0:
                continue
            out.append((pn, p, o, u))
    return out


def jobs(tier, seed):
    v = seed % 3
    specs = []
    for vv in ([v] if tier == "quick" else [0, 1, 2]):
        for name in QUICK if tier == "quick" else list(PROBLEMS):
            for backend in ("iminuit", "scipy"):
                nsh = 1 if tier == "quick" else 4
                for sh in range(nsh):
                    specs.append((name, backend, vv, tier, sh, nsh))
        for backend in ("iminuit", "scipy"):
            specs.append(("multi-shared", backend, vv, tier, 0, 1))
        specs.append(("lin40-rho", "iminuit", vv, tier, 0, 1))
    return specs


def bound(tier, seed):
    if tier == "quick":
        return "8 problems x 2 backends x {7 point permutations, all parameter orders, unit factors 1e-5 / 1e-3 / 7 / 1e3 / 1e5, 2 combined; a 40-point correlated straight-line problem x the unit factors x {id, reverse} (iminuit) transformations}, each applied to the untransformed problem; valuation %d" % (seed % 3)
    return "11 problems x 2 backends x full product of 14 point permutations x all parameter orders (<= 6) x unit factors {1, 1e-5, 1e-3, 7, 1e3, 1e5}; a 40-point correlated straight-line problem (iminuit); valuations 0,1,2"


def run_case(name, backend, v, perm, order, unit):
    import inspect

    if name == "lin40-rho":
        return compare(build_big(v, backend, 1.0), build_big(v, backend, unit, reverse=list(perm)[:1] != [0]), {"a": unit, "b": unit}, unit, backend, NBIG)
    if name == "multi-shared":
        base = build_multi(v, backend, list(range(N)), 1.0)
        return compare(base, build_multi(v, backend, perm, unit, swap=list(order) == [1, 0]), {k: unit for k in "abc"}, unit, backend, 2 * N)

    npar = len(inspect.signature(ref.MODELS[PROBLEMS[name]["model"]]).parameters) - 1
    f0, on0, sc0 = build(name, v, backend, list(range(N)), tuple(range(npar)), 1.0)
    b = summary(f0, on0, sc0, asym=name in ASYM)
    f1, on1, sc1 = build(name, v, backend, perm, order, unit)
    t = summary(f1, on1, sc1, asym=name in ASYM)
    return compare(b, t, sc1, unit, backend, N, det=PROBLEMS[name].get("cost") != "nodet")


def run_multi_job(spec):
    name, backend, v, tier, shard, nshard = spec
    res = JobResult()
    idn = list(range(N))
    base = build_multi(v, backend, idn, 1.0)
    res.executions += 1
    scale = {"a": None, "b": None, "c": None}
    trs = [(pn, p, 1.0, False) for pn, p in perms(tier)[1:4]] + [("id", idn, u, False) for u in (1e-3, 7.0, 1e3)] + [("shuffle", dict(perms(tier))["shuffle"], 7.0, False)]
    trs += [("id", idn, 1.0, True), ("reverse", dict(perms(tier))["reverse"], 1e3, True)]  # parameter order of the second member's model
    for pn, perm, unit, swap in trs:
        hist = [dict(name=name, backend=backend, v=v, perm=list(perm), order=[1, 0] if swap else [0, 1, 2], unit=unit)]
        try:
            t = build_multi(v, backend, perm, unit, swap=swap)
            bad = compare(base, t, {k: unit for k in scale}, unit, backend, 2 * N)
        except Exception as e:  # noqa: BLE001
            bad = [("do_fit", "no exception", "%s: %s" % (type(e).__name__, str(e)[:120]), "exception:" + type(e).__name__)]
        res.executions += 1
        res.transitions += 10
        res.evaluations += 10
        key = (name, backend, v, pn, unit, swap)
        res.state(key)
        res.nontriv(key)
        res.observe((key, len(bad)))
        res.outcomes[(name, backend, "order" if swap else ("perm" if pn != "id" else "unit"), "ok" if not bad else "VIOLATION")] += 1
        res.facts["transform:multi"] += 1
        for o, e, a, m in bad:
            res.violation("%s/%s|perm=%s|order=%s|unit=%g" % (name, backend, pn, "10" if swap else "012", unit), hist, o, e, a, m)
    res.sample(dict(problem=name, backend=backend, transformations=len(trs)))
    return res.as_dict()


def run_big_job(spec):
    name, backend, v, tier, shard, nshard = spec
    res = JobResult()
    base = build_big(v, backend, 1.0)
    res.executions += 1
    for unit in (1.0, 1e-5, 1e-3, 7.0, 1e3, 1e5):
        for rev in (False, True):
            if unit == 1.0 and not rev:
                continue
            hist = [dict(name=name, backend=backend, v=v, perm=list(range(N))[::-1] if rev else list(range(N)), order=[0, 1], unit=unit)]
            try:
                bad = compare(base, build_big(v, backend, unit, reverse=rev), {"a": unit, "b": unit}, unit, backend, NBIG)
            except Exception as e:  # noqa: BLE001
                bad = [("do_fit", "no exception", "%s: %s" % (type(e).__name__, str(e)[:120]), "exception:" + type(e).__name__)]
            res.executions += 1
            res.transitions += 4
            res.evaluations += 10
            key = (name, backend, v, rev, unit)
            res.state(key)
            res.nontriv(key)
            res.observe((key, len(bad)))
            res.outcomes[(name, backend, "perm" if rev else "unit", "ok" if not bad else "VIOLATION")] += 1
            res.facts["transform:big"] += 1
            for o, e, a, m in bad:
                res.violation("%s/%s|perm=%s|order=01|unit=%g" % (name, backend, "reverse" if rev else "id", unit), hist, o, e, a, m)
    res.sample(dict(problem=name, backend=backend, points=NBIG))
    return res.as_dict()


def run_job(spec):
    name, backend, v, tier, shard, nshard = spec
    if name == "multi-shared":
        return run_multi_job(spec)
    if name == "lin40-rho":
        return run_big_job(spec)
    res = JobResult()
    trs = [t for i, t in enumerate(transformations(name, tier)) if i % nshard == shard]
    import inspect

    npar = len(inspect.signature(ref.MODELS[PROBLEMS[name]["model"]]).parameters) - 1
    try:
        f0, on0, sc0 = build(name, v, backend, list(range(N)), tuple(range(npar)), 1.0)
        base = summary(f0, on0, sc0, asym=name in ASYM)
    except Exception as e:  # noqa: BLE001
        res.violation("%s/%s|base" % (name, backend), [dict(name=name, backend=backend, v=v, perm=list(range(N)), order=list(range(npar)), unit=1.0)], "do_fit", "no exception", type(e).__name__ + str(e)[:100], "exception:" + type(e).__name__)
        return res.as_dict()
    res.executions += 1
    for pn, perm, order, unit in trs:
        hist = [dict(name=name, backend=backend, v=v, perm=list(perm), order=list(order), unit=unit)]
        try:
            f1, on1, sc1 = build(name, v, backend, perm, order, unit)
            bad = compare(base, summary(f1, on1, sc1, asym=name in ASYM), sc1, unit, backend, N, det=PROBLEMS[name].get("cost") != "nodet")
        except Exception as e:  # noqa: BLE001
            bad = [("do_fit", "no exception", "%s: %s" % (type(e).__name__, str(e)[:120]), "exception:" + type(e).__name__)]
        res.executions += 1
        res.transitions += 8
        res.evaluations += 10
        key = (name, backend, v, pn, tuple(order), unit)
        res.state(key)
        if name != "exp-y":
            res.nontriv(key)
        res.observe((key, len(bad)))
        kind = "perm" if pn != "id" else ("order" if tuple(order) != tuple(range(npar)) else "unit")
        res.outcomes[(name, backend, kind, "ok" if not bad else "VIOLATION")] += 1
        res.facts["transform:" + kind] += 1
        for o, e, a, m in bad:
            sig = "%s/%s|perm=%s|order=%s|unit=%g" % (name, backend, pn, "".join(map(str, order)), unit)
            res.violation(sig, hist, o, e, a, m)
    res.sample(dict(problem=name, backend=backend, transformations=len(trs), example=dict(perm=trs[0][0], order=list(trs[0][2]), unit=trs[0][3]) if trs else None))
    return res.as_dict()


def replay(history):
    h = history[0]
    try:
        bad = run_case(h["name"], h["backend"], h["v"], h["perm"], tuple(h["order"]), h["unit"])
    except Exception as e:  # noqa: BLE001
        bad = [("do_fit", "no exception", type(e).__name__, "exception:" + type(e).__name__)]
    return [dict(observable=o, expected=e, actual=a, mode=m) for o, e, a, m in bad]


def triage_key(v):
    f = v["sig"].split("|")
    return (f[0], "perm" if f[1] != "perm=id" else "", "order" if not f[2].endswith("=" + "".join(sorted(f[2].split("=")[1]))) else "", f[3], v["observable"].split(":")[0], v["mode"])


def vacuity_guards(tot, tier):
    for k in ("perm", "order", "unit"):
        yield "transformation kind %s explored" % k, tot.facts.get("transform:" + k, 0) > 0
