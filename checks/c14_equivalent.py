"""C14 - equivalent specifications of the same problem give identical results.

Mode D: every pair of equivalent specifications of the listed families x data sets (positive and mixed sign) x sizes x
correlations x constraint values (either sign) x 3 parameter points; both members of a pair are built through the real API
and compared: cost at the common points (1e-9), total covariance, constraint cost, and do_fit results (fit tolerance).

Family 'sources-dtype': the forms of a constant source (python / numpy scalar, 0-d array, list, constant vector, diagonal /
equicorrelated covariance matrix, correlation matrix + vector; absolute and relative; integer-valued given as int) x the DTYPE of
the data they are attached to (histogram counts, IndexedContainer / XYContainer built with dtype=int, float controls) x level
(container, HistFit / IndexedFit / XYFit both axes, shared source of a MultiFit, hist_fit / indexed_fit / xy_fit keywords) x
sizes below and above 1; besides the pairwise comparison the pointwise uncertainty must be the specified number.
Family 'dispatcher': kafe2.Fit(data, [model], **options) vs the class of the matching fit type called with the same arguments,
for every data kind the dispatcher accepts (XYContainer, list, ndarray, IndexedContainer, HistContainer, UnbinnedContainer) x
model function given / omitted (default model) x options (cost_function, minimizer, minimizer_kwargs, dynamic_error_algorithm,
bin_evaluation, density, combinations): class, parameter names and defaults, option read-back, cost surface, fit result.
"""
import os
import shutil
import tempfile
import warnings

import numpy as np

from kmc import ref
from kmc.core import JobResult
from kmc.valuations import V

PROPERTY = "C14"
RULE = (
    "cases = (family, pair of equivalent specifications, data variant, valuation); both are built on the real API; cost at 3 common "
    "parameter points and total covariance to 1e-9, constraint.cost(p) to 1e-12, do_fit values within 0.03 sigma / errors 5 % / cost "
    "1e-3; non-trivial = the two specifications use different API forms (always) and the quantity compared depends on the form "
    "(non-zero uncertainty / constraint); sources-dtype additionally compares the pointwise uncertainties of both members with the number that was specified; "
    "dispatcher compares class, parameter names / defaults and the public read-back of the options as well"
)
ASSUMPTIONS = [
    "a relative simple source with rho > 0 on mixed-sign data has no simple absolute equivalent; its matrix equivalent is used",
    "wrappers are called with save=False, report=False; relative matrix sources are not passed with errors_rel_to_model=True (documented as not implemented)",
    "wrapper keyword combinations: the explicit fit applies starting values, step sizes, limits, fixed parameters, constraints in the order of the wrapper documentation; "
    "a parameter fixed outside its own limits is compared between the two specifications only (no documented winner); with profile=True the returned fit object may have "
    "been moved by MINOS after the result values were read",
    "an uncertainty is a real number whatever the dtype of the data it is attached to (integer histogram counts, containers built with dtype=int): "
    "add_error(0.5) on integer data means 0.5, as the constant vector and the matrix forms do; a shared relative source of a MultiFit exists for the axes of xy fits with a common reference only",
    "kafe2.Fit(data, model_function=None, minimizer=None, **kwargs) passes 'any further keyword arguments' to the fit class chosen by the type of data (docstring), with and without a model function; "
    "an IndexedFit has no default model; the unbinned likelihood is minimised with iminuit only (scipy walks into sigma <= 0 from the common start)",
]
N = 6


def lm(x, a=1.1, b=0.4):
    return a * x + b


def em(x, A0=1.4, k=0.25):
    return A0 * np.exp(k * x)


def im(a=1.2, b=0.7):
    return a * np.arange(N) * 0.5 + b + a * 0.2


POINTS = [[1.1, 0.4], [1.45, 0.62], [0.8, 0.25]]


def data_sets(v):
    val = V(v, N)
    return {"pos": (val.x, val.y), "mixed": (val.x, val.y_mixed)}, val


def rho_matrix(n, rho):
    R = np.full((n, n), rho)
    np.fill_diagonal(R, 1.0)
    return R


# ---------------------------------------------------------------------------------------
# comparison


def fit_signature(f, points=POINTS, do_fit=True):
    out = {}
    with warnings.catch_warnings():
        warnings.simplefilter("ignore")
        names = list(f.parameter_names)
        for i, p in enumerate(points):
            f.set_all_parameter_values(list(p)[: len(names)] + [0.3] * max(0, len(names) - len(p)))
            out["cost@%d" % i] = float(f.cost_function_value)
            if i == 1:
                try:
                    tc = f.total_cov_mat
                    out["total_cov_mat"] = None if tc is None else np.asarray(tc, dtype=float)
                except Exception:  # noqa: BLE001
                    pass
        if do_fit:
            f.set_all_parameter_values(list(points[0])[: len(names)] + [0.3] * max(0, len(names) - len(points[0])))
            f.do_fit()
            out["fit:values"] = np.asarray(f.parameter_values, dtype=float)
            out["fit:errors"] = np.asarray(f.parameter_errors, dtype=float)
            out["fit:cost"] = float(f.cost_function_value)
            out["fit:ndf"] = int(f.ndf)
    return out


def compare(a, b):
    bad = []
    for k in a:
        if k not in b:
            bad.append((k, _l(a[k]), "<missing>", "missing"))
            continue
        x, y = a[k], b[k]
        if k.startswith("cost@") or k == "total_cov_mat" or k.startswith("ccost") or k.startswith("arr:"):
            if x is None or y is None:
                if (x is None) != (y is None):
                    bad.append((k, _l(x), _l(y), "wrong-value"))
                continue
            x, y = np.asarray(x, dtype=float), np.asarray(y, dtype=float)
            s = max(np.abs(x).max(), np.abs(y).max(), 1e-300)
            if x.shape != y.shape or np.abs(x - y).max() > 1e-9 * s:
                bad.append((k, _l(x), _l(y), "wrong-value"))
        elif k == "start":
            if np.any(np.abs(np.asarray(x, dtype=float) - np.asarray(y, dtype=float)) > 1e-12):
                bad.append((k, _l(x), _l(y), "wrong-value"))
        elif k == "fit:values":
            sig = a["fit:errors"]
            tol = np.where(sig > 0, 0.03 * sig, 1e-9 * np.maximum(1.0, np.abs(x)))
            if np.any(np.abs(x - y) > tol):
                bad.append((k, _l(x), _l(y), "wrong-value"))
        elif k == "fit:errors":
            if np.any(np.abs(x - y) > 0.05 * np.abs(x) + 1e-12):
                bad.append((k, _l(x), _l(y), "wrong-value"))
        elif k == "fit:cost":
            if abs(x - y) > 1e-3:
                bad.append((k, x, y, "wrong-value"))
        elif k == "fit:ndf":
            if x != y:
                bad.append((k, x, y, "wrong-value"))
        elif k == "fit:cov" or k == "fit:asym":
            if x is None or y is None:
                if (x is None) != (y is None):
                    bad.append((k, _l(x), _l(y), "wrong-value"))
                continue
            x, y = np.asarray(x, dtype=float), np.asarray(y, dtype=float)
            sg = np.asarray(a["fit:errors"], dtype=float)
            tol = 0.05 * (np.outer(sg, sg) if k == "fit:cov" else sg[:, None] + 0.0 * x) + 1e-12
            if x.shape != y.shape or not np.all(np.isfinite(x) == np.isfinite(y)) or np.any(np.abs(np.where(np.isfinite(x), x - y, 0.0)) > tol):
                bad.append((k, _l(x), _l(y), "wrong-value"))
        elif k.startswith("kw:"):  # what the keyword asks for (reference reading of the wrapper documentation), on both sides
            if x is not True or y is not True:
                bad.append((k, "as requested by the keyword", [x, y], "wrong-value"))
    return bad


def _l(x):
    return x.tolist() if isinstance(x, np.ndarray) else x


# ---------------------------------------------------------------------------------------
# families: each returns a list of (case name, builderA, builderB) with builders returning a signature dict


def fam_sources(v):
    import kafe2

    ds, val = data_sets(v)
    cases = []
    r, rv, rho = val.ry, val.ryv, val.rho
    e, C = val.ey, val.C
    for dname, (x, y) in ds.items():
        for ftype in ("xy", "indexed"):

            def mk(adders, x=x, y=y, ftype=ftype):
                def build():
                    with warnings.catch_warnings():
                        warnings.simplefilter("ignore")
                        if ftype == "xy":
                            f = kafe2.XYFit([x, y], lm)
                            for meth, kw in adders:
                                getattr(f, meth)("y", **kw)
                        else:
                            f = kafe2.IndexedFit(y, im)
                            for meth, kw in adders:
                                getattr(f, meth)(**kw)
                    return fit_signature(f, do_fit=(dname == "pos"))

                return build

            pairs = {
                "rel-scalar<->abs-vector": ([("add_error", dict(err_val=r, relative=True))], [("add_error", dict(err_val=r * np.abs(y)))]),
                "rel-vector<->abs-vector": ([("add_error", dict(err_val=rv, relative=True))], [("add_error", dict(err_val=rv * np.abs(y)))]),
                "rel-rho<->matrix": (
                    [("add_error", dict(err_val=r, relative=True, correlation=rho))],
                    [("add_matrix_error", dict(err_matrix=np.outer(r * y, r * y) * rho_matrix(N, rho), matrix_type="cov"))],
                ),
                "cor+err<->cov": (
                    [("add_matrix_error", dict(err_matrix=C, matrix_type="cor", err_val=e))],
                    [("add_matrix_error", dict(err_matrix=np.outer(e, e) * C, matrix_type="cov"))],
                ),
                "rel-cor+err<->rel-cov": (
                    [("add_matrix_error", dict(err_matrix=C, matrix_type="cor", err_val=rv, relative=True))],
                    [("add_matrix_error", dict(err_matrix=np.outer(rv, rv) * C, matrix_type="cov", relative=True))],
                ),
                "rel-cov<->abs-cov": (
                    [("add_matrix_error", dict(err_matrix=val.Mrel, matrix_type="cov", relative=True))],
                    [("add_matrix_error", dict(err_matrix=val.Mrel * np.outer(y, y), matrix_type="cov"))],
                ),
                "simple-rho<->matrix": (
                    [("add_error", dict(err_val=e, correlation=rho))],
                    [("add_matrix_error", dict(err_matrix=np.outer(e, e) * rho_matrix(N, rho), matrix_type="cov"))],
                ),
                "simple-rho1<->matrix": (
                    [("add_error", dict(err_val=val.ys, correlation=1.0)), ("add_error", dict(err_val=e))],
                    [("add_matrix_error", dict(err_matrix=np.full((N, N), val.ys**2) + np.diag(e**2), matrix_type="cov"))],
                ),
                "scalar<->constant-vector": ([("add_error", dict(err_val=val.ys))], [("add_error", dict(err_val=np.full(N, val.ys)))]),
                "rel-scalar<->rel-constant-vector": ([("add_error", dict(err_val=r, relative=True))], [("add_error", dict(err_val=np.full(N, r), relative=True))]),
                "two-sources<->sum-matrix": (
                    [("add_error", dict(err_val=e)), ("add_error", dict(err_val=r, relative=True, correlation=rho))],
                    [("add_matrix_error", dict(err_matrix=np.diag(e**2) + np.outer(r * y, r * y) * rho_matrix(N, rho), matrix_type="cov"))],
                ),
            }
            if dname == "pos":
                pairs["rel-rho<->abs-rho"] = ([("add_error", dict(err_val=r, relative=True, correlation=rho))], [("add_error", dict(err_val=r * y, correlation=rho))])
            for pname, (A, B) in pairs.items():
                cases.append(("%s/%s/%s" % (ftype, dname, pname), mk(A), mk(B)))
    # x axis of xy fits
    x, y = ds["pos"]
    for pname, A, B in (
        ("x-rel<->x-abs", dict(err_val=val.rx, relative=True), dict(err_val=val.rx * np.abs(x))),
        ("x-scalar<->x-vector", dict(err_val=val.xs), dict(err_val=np.full(N, val.xs))),
    ):

        def mkx(kw):
            def build():
                with warnings.catch_warnings():
                    warnings.simplefilter("ignore")
                    f = kafe2.XYFit([x, y], em)
                    f.add_error("y", val.ey)
                    f.add_error("x", **kw)
                return fit_signature(f, points=[[1.4, 0.25], [1.7, 0.2], [1.2, 0.3]])

            return build

        cases.append(("xy/pos/" + pname, mkx(A), mkx(B)))
    return cases


def fam_constraints(v):
    import kafe2
    from kafe2.core.constraint import GaussianMatrixParameterConstraint, GaussianSimpleParameterConstraint

    ds, val = data_sets(v)
    x, y = ds["pos"]
    cases = []
    for sign in (1.0, -1.0):
        v0, v1 = sign * (1.3 + 0.1 * v), 0.7 + 0.05 * v
        u0, u1 = 0.2, 0.15
        cov = np.array([[u0**2, 0.3 * u0 * u1], [0.3 * u0 * u1, u1**2]])
        cor = np.array([[1.0, 0.3], [0.3, 1.0]])
        vals = np.array([v0, v1])
        specs = {
            "simple-abs<->simple-rel": (("s", dict(name="a", value=v0, uncertainty=u0)), ("s", dict(name="a", value=v0, uncertainty=u0 / abs(v0), relative=True))),
            "simple<->1x1-matrix": (("s", dict(name="a", value=v0, uncertainty=u0)), ("m", dict(names=["a"], values=[v0], matrix=[[u0**2]]))),
            "cov<->cor+unc": (("m", dict(names=["a", "b"], values=vals, matrix=cov)), ("m", dict(names=["a", "b"], values=vals, matrix=cor, matrix_type="cor", uncertainties=[u0, u1]))),
            "cov<->rel-cov": (("m", dict(names=["a", "b"], values=vals, matrix=cov)), ("m", dict(names=["a", "b"], values=vals, matrix=cov / np.outer(vals, vals), relative=True))),
            "cor+unc<->cor+rel-unc": (
                ("m", dict(names=["a", "b"], values=vals, matrix=cor, matrix_type="cor", uncertainties=[u0, u1])),
                ("m", dict(names=["a", "b"], values=vals, matrix=cor, matrix_type="cor", uncertainties=[u0 / abs(v0), u1 / abs(v1)], relative=True)),
            ),
            "cov(a,b)<->cov(b,a)": (("m", dict(names=["a", "b"], values=vals, matrix=cov)), ("m", dict(names=["b", "a"], values=vals[::-1], matrix=cov[::-1, ::-1]))),
        }
        for pname, (A, B) in specs.items():

            def mk(spec):
                def build():
                    with warnings.catch_warnings():
                        warnings.simplefilter("ignore")
                        f = kafe2.XYFit([x, y], lm)
                        f.add_error("y", val.ey)
                        kind, kw = spec
                        if kind == "s":
                            f.add_parameter_constraint(**kw)
                        else:
                            f.add_matrix_parameter_constraint(**kw)
                        sigd = fit_signature(f)
                        c = f.parameter_constraints[0]
                        for i, p in enumerate(POINTS):
                            sigd["ccost@%d" % i] = float(c.cost(np.asarray(p)))
                    return sigd

                return build

            cases.append(("constraint/%s/%s" % ("pos" if sign > 0 else "neg", pname), mk(A), mk(B)))
    return cases


def fam_wrappers(v):
    import kafe2

    ds, val = data_sets(v)
    x, y = ds["pos"]
    cases = []
    M = val.My
    kws = {
        "y_error-scalar": (dict(y_error=val.ys), [("y", dict(err_val=val.ys))]),
        "y_error-vector+x_error": (dict(y_error=val.ey, x_error=val.ex), [("x", dict(err_val=val.ex)), ("y", dict(err_val=val.ey))]),
        "y_error-matrix": (dict(y_error=M), [("ym", dict(err_matrix=M, matrix_type="cov"))]),
        "y_error_rel-model": (dict(y_error=val.ey, y_error_rel=val.ry), [("y", dict(err_val=val.ey)), ("y", dict(err_val=val.ry, relative=True, reference="model"))]),
        "y_error_rel-data": (dict(y_error=val.ey, y_error_rel=val.ry, errors_rel_to_model=False), [("y", dict(err_val=val.ey)), ("y", dict(err_val=val.ry, relative=True, reference="data"))]),
        "x_error_rel": (dict(y_error=val.ey, x_error_rel=val.rx), [("y", dict(err_val=val.ey)), ("x", dict(err_val=val.rx, relative=True, reference="data"))]),
        "y_error_cor": (dict(y_error=val.ey, y_error_cor=val.ys), [("y", dict(err_val=val.ey)), ("y", dict(err_val=val.ys, correlation=1.0))]),
        "y_error_cor-list": (dict(y_error=val.ey, y_error_cor=[val.ys, 0.11]), [("y", dict(err_val=val.ey)), ("y", dict(err_val=val.ys, correlation=1.0)), ("y", dict(err_val=0.11, correlation=1.0))]),
        "x_error_cor": (dict(y_error=val.ey, x_error_cor=val.xs), [("y", dict(err_val=val.ey)), ("x", dict(err_val=val.xs, correlation=1.0))]),
        "y_error_cor_rel-model": (dict(y_error=val.ey, y_error_cor_rel=0.04), [("y", dict(err_val=val.ey)), ("y", dict(err_val=0.04, correlation=1.0, relative=True, reference="model"))]),
        "y_error_cor_rel-data": (dict(y_error=val.ey, y_error_cor_rel=0.04, errors_rel_to_model=False), [("y", dict(err_val=val.ey)), ("y", dict(err_val=0.04, correlation=1.0, relative=True))]),
        "x_error_cor_rel": (dict(y_error=val.ey, x_error_cor_rel=0.02), [("y", dict(err_val=val.ey)), ("x", dict(err_val=0.02, correlation=1.0, relative=True))]),
    }
    extras = {
        "plain": (dict(), []),
        "limits": (dict(limits=("b", -1.0, 3.0)), [("limit_parameter", ("b", -1.0, 3.0))]),
        "fixed": (dict(fixed=("b", 0.55)), [("fix_parameter", ("b", 0.55))]),
        "constraints": (dict(constraints=[("a", 1.2, 0.1), ("b", 0.5, 0.2)]), [("add_parameter_constraint", ("a", 1.2, 0.1)), ("add_parameter_constraint", ("b", 0.5, 0.2))]),
        "p0": (dict(p0=[1.4, 0.2]), [("set_all_parameter_values", ([1.4, 0.2],))]),
    }

    def sig_of(f):
        with warnings.catch_warnings():
            warnings.simplefilter("ignore")
            out = {"fit:values": np.asarray(f.parameter_values, dtype=float), "fit:errors": np.asarray(f.parameter_errors, dtype=float), "fit:cost": float(f.cost_function_value), "fit:ndf": int(f.ndf)}
            tc = f.total_cov_mat
            out["total_cov_mat"] = None if tc is None else np.asarray(tc, dtype=float)
            free = [p for p in f.parameter_names if p not in f._fitter.fixed_parameters]
            f.set_parameter_values(**{p: {"a": 1.27, "b": 0.52}[p] for p in free})  # a common fixed point
            out["cost@0"] = float(f.cost_function_value)
            tc = f.total_cov_mat
            out["total_cov_mat"] = None if tc is None else np.asarray(tc, dtype=float)
        return out

    for kname, (wkw, adders) in kws.items():
        for ename, (ekw, eops) in extras.items():
            if ename != "plain" and kname not in ("y_error-vector+x_error", "y_error_rel-model"):
                continue

            def A(wkw=wkw, ekw=ekw):
                with warnings.catch_warnings():
                    warnings.simplefilter("ignore")
                    r = kafe2.xy_fit(lm, x, y, save=False, report=False, **wkw, **ekw)
                return sig_of(r["fit"])

            def B(adders=adders, eops=eops):
                with warnings.catch_warnings():
                    warnings.simplefilter("ignore")
                    f = kafe2.XYFit([x, y], lm)
                    for ax, kw in adders:
                        if ax == "ym":
                            f.add_matrix_error("y", **kw)
                        else:
                            f.add_error(ax, **kw)
                    for meth, args in eops:
                        getattr(f, meth)(*args)
                    f.do_fit()
                return sig_of(f)

            cases.append(("wrapper/xy_fit/%s/%s" % (kname, ename), A, B))
    # indexed_fit
    ikws = {
        "error": (dict(error=val.ey), [dict(err_val=val.ey)]),
        "error-matrix": (dict(error=M), ["m"]),
        "error_rel-model": (dict(error=val.ey, error_rel=val.ry), [dict(err_val=val.ey), dict(err_val=val.ry, relative=True, reference="model")]),
        "error_rel-data": (dict(error=val.ey, error_rel=val.ry, errors_rel_to_model=False), [dict(err_val=val.ey), dict(err_val=val.ry, relative=True)]),
        "error_cor": (dict(error=val.ey, error_cor=val.ys), [dict(err_val=val.ey), dict(err_val=val.ys, correlation=1.0)]),
        "error_cor_rel": (dict(error=val.ey, error_cor_rel=0.03), [dict(err_val=val.ey), dict(err_val=0.03, correlation=1.0, relative=True, reference="model")]),
    }
    for kname, (wkw, adders) in ikws.items():

        def A(wkw=wkw):
            with warnings.catch_warnings():
                warnings.simplefilter("ignore")
                r = kafe2.indexed_fit(im, y, save=False, report=False, profile=False, **wkw)
            return sig_of(r["fit"])

        def B(adders=adders):
            with warnings.catch_warnings():
                warnings.simplefilter("ignore")
                f = kafe2.IndexedFit(y, im)
                for kw in adders:
                    if kw == "m":
                        f.add_matrix_error(M, "cov")
                    else:
                        f.add_error(**kw)
                f.do_fit()
            return sig_of(f)

        cases.append(("wrapper/indexed_fit/%s" % kname, A, B))
    # hist_fit / unbinned_fit
    entries = [0.3, 0.8, 1.1, 1.4, 1.7, 1.9, 2.2, 2.4, 2.5, 2.7, 2.9, 3.0, 3.2, 3.3, 3.6, 3.8, 4.1, 4.4, 4.6, 4.9, 5.3, 5.8, 2.1, 2.8, 3.1, 1.5, 3.9, 0.6, 4.2, 2.6]

    def hsig(f):
        with warnings.catch_warnings():
            warnings.simplefilter("ignore")
            return {"fit:values": np.asarray(f.parameter_values, dtype=float), "fit:errors": np.asarray(f.parameter_errors, dtype=float), "fit:cost": float(f.cost_function_value), "fit:ndf": int(f.ndf)}

    for hname, wkw, cost, adders in (
        ("poisson", dict(), "poisson", []),
        ("gauss-approx-error", dict(error=0.4), "gauss_approximation", [dict(err_val=0.4)]),
        ("gauss-approx-rel", dict(error_rel=0.05), "gauss_approximation", [dict(err_val=0.05, relative=True, reference="model")]),
        ("gauss-approx-rel-data", dict(error_rel=0.05, errors_rel_to_model=False), "gauss_approximation", [dict(err_val=0.05, relative=True)]),
        ("gauss-approx-cor", dict(error_cor=0.3), "gauss_approximation", [dict(err_val=0.3, correlation=1.0)]),
        ("gauss-approx-cor-rel", dict(error_cor_rel=0.04), "gauss_approximation", [dict(err_val=0.04, correlation=1.0, relative=True, reference="model")]),
        ("gauss-approx-forced", dict(gauss_approximation=True), "gauss_approximation", []),
        ("poisson-forced", dict(error=0.4, gauss_approximation=False), "poisson", [dict(err_val=0.4)]),
    ):

        def A(wkw=wkw):
            with warnings.catch_warnings():
                warnings.simplefilter("ignore")
                r = kafe2.hist_fit(ref.normal_density, entries, n_bins=5, bin_range=(0.0, 6.0), save=False, report=False, profile=False, **wkw)
            return hsig(r["fit"])

        def B(cost=cost, adders=adders):
            with warnings.catch_warnings():
                warnings.simplefilter("ignore")
                c = kafe2.HistContainer(5, (0.0, 6.0), None, entries)
                f = kafe2.HistFit(c, ref.normal_density, cost_function=cost)
                for kw in adders:
                    f.add_error(**kw)
                f.do_fit()
            return hsig(f)

        cases.append(("wrapper/hist_fit/" + hname, A, B))

    def UA():
        with warnings.catch_warnings():
            warnings.simplefilter("ignore")
            r = kafe2.unbinned_fit(ref.normal_density, entries, save=False, report=False, profile=False, constraints=("mu", 3.0, 0.2))
        return hsig(r["fit"])

    def UB():
        with warnings.catch_warnings():
            warnings.simplefilter("ignore")
            f = kafe2.UnbinnedFit(entries, ref.normal_density)
            f.add_parameter_constraint("mu", 3.0, 0.2)
            f.do_fit()
        return hsig(f)

    cases.append(("wrapper/unbinned_fit/constraint", UA, UB))
    return cases


HIST_ENTRIES = [0.3, 0.8, 1.1, 1.4, 1.7, 1.9, 2.2, 2.4, 2.5, 2.7, 2.9, 3.0, 3.2, 3.3, 3.6, 3.8, 4.1, 4.4, 4.6, 4.9, 5.3, 5.8, 2.1, 2.8, 3.1, 1.5, 3.9, 0.6, 4.2, 2.6]


def custom_cost(a=1.0, b=2.0):
    u, w = (a - 1.7) / 0.3, (b - 0.6) / 0.2
    return (u * u - 0.8 * u * w + w * w) / (1.0 - 0.16)


# the control keywords of the wrappers in the order in which the documentation lists them; a combination is applied to the
# explicitly built fit in this order: starting values, step sizes, limits, fixed parameters ("the parameter name followed by
# an optional value to which the parameter should be set prior to fixing"), constraints, do_fit(asymmetric errors = profile)
CONTROL_ITEMS = ("p0", "dp0", "limin", "limact", "fixv", "fixn", "con", "profile")


def _control_alphabet(v):
    """fit type -> (parameter names, defaults, {item: contribution}); all values differ from each other, from the defaults and
    from the minimum: the value a parameter is fixed to is not its p0 entry, p0 is inside 'limin' and outside 'limact' (whose
    upper bound is active at the minimum), the fixed value is inside both."""
    d = 0.01 * v

    def table(n0, n1, defaults, p0, dp0, limin, limact, fixv, con):
        return (n0, n1), defaults, {
            "p0": dict(p0=list(p0)),
            "dp0": dict(dp0=list(dp0)),
            "limin": dict(limits=[(n0,) + tuple(limin)]),
            "limact": dict(limits=[(n1,) + tuple(limact)]),
            "fixv": dict(fixed=[(n1, fixv)]),
            "fixn": dict(fixed=[(n1,)]),
            "con": dict(constraints=[(n0,) + tuple(con[0]), (n1,) + tuple(con[1]) + (True,)]),
            "profile": dict(profile=True),
        }

    return {
        "xy_fit": table("a", "b", [1.1, 0.4], [1.4 + d, 0.2], [0.3, 0.05], (-1.0, 3.0), (0.3, 0.6 + d), 0.55 + d, [(1.2, 0.1), (0.5, 0.4)]),
        "indexed_fit": table("a", "b", [1.2, 0.7], [1.8 + d, 0.3], [0.2, 0.04], (0.0, 4.0), (0.35, 0.65 + d), 0.6 + d, [(1.5, 0.2), (0.8, 0.3)]),
        "hist_fit": table("mu", "sigma", [2.9, 1.6], [3.3 + d, 1.2], [0.2, 0.1], (0.0, 6.0), (1.25, 1.4 + d), 1.3 + d, [(3.0, 0.2), (1.5, 0.1)]),
        "unbinned_fit": table("mu", "sigma", [2.9, 1.6], [3.3 + d, 1.1], [0.2, 0.1], (0.0, 6.0), (1.15, 1.3 + d), 1.25 + d, [(3.0, 0.2), (1.5, 0.1)]),
        "custom_fit": table("a", "b", [1.0, 2.0], [1.4 + d, 0.2], [0.3, 0.05], (-1.0, 3.0), (0.3, 0.5 + d), 0.45 + d, [(1.2, 0.1), (0.5, 0.4)]),
    }


def _merge(contribs):
    out = dict(p0=None, dp0=None, limits=[], fixed=[], constraints=[], profile=False)
    for c in contribs:
        for k, val in c.items():
            if isinstance(out[k], list):
                out[k] = out[k] + list(val)
            else:
                out[k] = val
    return out


def _kwform(entries, form):
    """The documented forms of limits / fixed / constraints: one bare entry, or an iterable of entries."""
    if not entries:
        return None
    if form == "auto":
        return tuple(entries[0]) if len(entries) == 1 else [tuple(e) for e in entries]
    if form == "bare-list":
        assert len(entries) == 1
        return list(entries[0])
    if form == "list-of-tuples":
        return [tuple(e) for e in entries]
    if form == "tuple-of-lists":
        return tuple(list(e) for e in entries)
    raise KeyError(form)


def fam_wrapper_combos(v):
    import kafe2
    from kafe2.fit.custom.fit import CustomFit

    ds, val = data_sets(v)
    x, y = ds["pos"]
    alpha = _control_alphabet(v)

    wrappers = {
        "xy_fit": lambda **kw: kafe2.xy_fit(lm, x, y, y_error=val.ey, y_error_cor=val.ys, **kw),
        "indexed_fit": lambda **kw: kafe2.indexed_fit(im, y, error=val.ey, error_cor_rel=0.03, errors_rel_to_model=False, **kw),
        "hist_fit": lambda **kw: kafe2.hist_fit(ref.normal_density, HIST_ENTRIES, n_bins=5, bin_range=(0.0, 6.0), **kw),
        "unbinned_fit": lambda **kw: kafe2.unbinned_fit(ref.normal_density, HIST_ENTRIES, **kw),
        "custom_fit": lambda **kw: kafe2.custom_fit(custom_cost, **kw),
    }

    def explicit(ftype):
        if ftype == "xy_fit":
            f = kafe2.XYFit([x, y], lm)
            f.add_error("y", val.ey)
            f.add_error("y", val.ys, correlation=1.0)
        elif ftype == "indexed_fit":
            f = kafe2.IndexedFit(y, im)
            f.add_error(val.ey)
            f.add_error(0.03, correlation=1.0, relative=True, reference="data")
        elif ftype == "hist_fit":
            f = kafe2.HistFit(kafe2.HistContainer(5, (0.0, 6.0), None, HIST_ENTRIES), ref.normal_density, cost_function="poisson")
        elif ftype == "unbinned_fit":
            f = kafe2.UnbinnedFit(HIST_ENTRIES, ref.normal_density)
        else:
            f = CustomFit(custom_cost)
        return f

    def signature(res, f, m, names, defaults):
        vals = np.array([res["parameter_values"][n] for n in names], dtype=float)
        errs = np.array([res["parameter_errors"][n] for n in names], dtype=float)
        out = {"fit:values": vals, "fit:errors": errs, "fit:cost": float(res["cost"]), "fit:ndf": -1 if res["ndf"] is None else int(res["ndf"])}
        out["fit:cov"] = None if res["parameter_cov_mat"] is None else np.asarray(res["parameter_cov_mat"], dtype=float)
        asym = res["asymmetric_parameter_errors"]
        out["fit:asym"] = None if asym is None else np.array([asym[n] for n in names], dtype=float)
        out["kw:profile"] = bool((asym is not None) == bool(m["profile"]))
        # the returned fit object is at the reported minimum (not demanded with profile=True: MINOS may move the minimum afterwards)
        out["kw:fit-object"] = bool(res["did_fit"] is True and (m["profile"] or np.array_equal(np.asarray(f.parameter_values, dtype=float), vals)))
        fixed_names = [e[0] for e in m["fixed"]]
        for e in m["fixed"]:
            i = names.index(e[0])
            want = e[1] if len(e) > 1 else (m["p0"][i] if m["p0"] is not None else defaults[i])
            if any(l[0] == e[0] and ((l[1] is not None and want < l[1]) or (l[2] is not None and want > l[2])) for l in m["limits"]):
                continue  # fixed outside its limits: nothing is documented about which of the two requests wins
            out["kw:fixed:" + e[0]] = bool(abs(vals[i] - want) <= 1e-12 * max(1.0, abs(want)) and errs[i] == 0.0)
        for e in m["limits"]:
            if e[0] in fixed_names:
                continue
            i = names.index(e[0])
            out["kw:limits:" + e[0]] = bool((e[1] is None or vals[i] >= e[1] - 1e-9) and (e[2] is None or vals[i] <= e[2] + 1e-9))
        return out

    def mk(ftype, contribs, forms=("auto", "auto", "auto")):
        names, defaults, _ = alpha[ftype]
        names = list(names)
        m = _merge(contribs)

        def A():
            with warnings.catch_warnings():
                warnings.simplefilter("ignore")
                kw = dict(save=False, report=False, profile=m["profile"])
                for key in ("p0", "dp0"):
                    if m[key] is not None:
                        kw[key] = list(m[key])
                for key, form in zip(("limits", "fixed", "constraints"), forms):
                    if m[key]:
                        kw[key] = _kwform(m[key], form)
                res = wrappers[ftype](**kw)
                return signature(res, res["fit"], m, names, defaults)

        def B():
            with warnings.catch_warnings():
                warnings.simplefilter("ignore")
                f = explicit(ftype)
                if m["p0"] is not None:
                    f.set_all_parameter_values(list(m["p0"]))
                if m["dp0"] is not None:
                    f.parameter_errors = list(m["dp0"])
                for e in m["limits"]:
                    f.limit_parameter(*e)
                for e in m["fixed"]:
                    f.fix_parameter(*e)
                for e in m["constraints"]:
                    f.add_parameter_constraint(*e)
                res = f.do_fit(asymmetric_parameter_errors=m["profile"])
                return signature(res, f, m, names, defaults)

        return A, B

    cases = []
    for ftype in wrappers:
        items = alpha[ftype][2]
        n0, n1 = alpha[ftype][0]
        combos = [()] + [(i,) for i in CONTROL_ITEMS]
        combos += [(i, j) for a_, i in enumerate(CONTROL_ITEMS) for j in CONTROL_ITEMS[a_ + 1 :] if (i, j) != ("fixv", "fixn") and (j != "profile" or i in ("limact", "fixv"))]
        combos += [("p0", "dp0", "limin", "fixv", "con"), ("p0", "dp0", "limin", "limact", "con", "profile"), ("p0", "limact", "fixn", "con", "profile")]
        for combo in combos:
            A, B = mk(ftype, [items[i] for i in combo])
            cases.append(("combo/%s/%s" % (ftype, "+".join(combo) if combo else "none"), A, B))
        # the forms of one keyword: a bare list, an iterable holding one entry, tuples / lists, one-sided limits
        lim1, fix1, con1 = items["limact"]["limits"], items["fixv"]["fixed"], items["con"]["constraints"][:1]
        for fname, contribs, forms in (
            ("limits:bare-list", [dict(limits=lim1)], ("bare-list", "auto", "auto")),
            ("limits:list-of-one", [dict(limits=lim1)], ("list-of-tuples", "auto", "auto")),
            ("limits:tuple-of-lists", [items["limin"], items["limact"]], ("tuple-of-lists", "auto", "auto")),
            ("limits:upper-only", [dict(limits=[(n1, None, lim1[0][2])]), items["p0"]], ("auto", "auto", "auto")),
            ("limits:lower-only", [dict(limits=[(n1, lim1[0][2] + 0.3, None)]), items["p0"]], ("auto", "auto", "auto")),
            ("fixed:bare-list", [dict(fixed=fix1), items["p0"]], ("auto", "bare-list", "auto")),
            ("fixed:list-of-one", [dict(fixed=fix1), items["p0"]], ("auto", "list-of-tuples", "auto")),
            ("fixed:tuple-of-lists", [dict(fixed=fix1), items["p0"]], ("auto", "tuple-of-lists", "auto")),
            ("constraints:bare-tuple", [dict(constraints=con1)], ("auto", "auto", "auto")),
            ("constraints:bare-list", [dict(constraints=con1)], ("auto", "auto", "bare-list")),
            ("constraints:tuple-of-lists", [items["con"], items["fixv"]], ("auto", "auto", "tuple-of-lists")),
        ):
            A, B = mk(ftype, contribs, forms)
            cases.append(("form/%s/%s" % (ftype, fname), A, B))

    # pairs of uncertainty keywords (the family 'wrappers' uses each keyword next to y_error / error only)
    xy_kw = {
        "x_error": (val.ex, ("x", dict(err_val=val.ex))),
        "y_error": (val.ey, ("y", dict(err_val=val.ey))),
        "x_error_rel": (val.rx, ("x", dict(err_val=val.rx, relative=True, reference="data"))),
        "y_error_rel": (val.ry, ("y", dict(err_val=val.ry, relative=True, reference="model"))),
        "x_error_cor": (val.xs, ("x", dict(err_val=val.xs, correlation=1.0))),
        "y_error_cor": (val.ys, ("y", dict(err_val=val.ys, correlation=1.0))),
        "x_error_cor_rel": (0.02, ("x", dict(err_val=0.02, correlation=1.0, relative=True, reference="data"))),
        "y_error_cor_rel": (0.04, ("y", dict(err_val=0.04, correlation=1.0, relative=True, reference="model"))),
    }
    i_kw = {
        "error": (val.ey, dict(err_val=val.ey)),
        "error_rel": (val.ry, dict(err_val=val.ry, relative=True, reference="model")),
        "error_cor": (val.ys, dict(err_val=val.ys, correlation=1.0)),
        "error_cor_rel": (0.03, dict(err_val=0.03, correlation=1.0, relative=True, reference="model")),
    }
    h_kw = {
        "error": (0.4, dict(err_val=0.4)),
        "error_rel": (0.05, dict(err_val=0.05, relative=True, reference="model")),
        "error_cor": (0.3, dict(err_val=0.3, correlation=1.0)),
        "error_cor_rel": (0.04, dict(err_val=0.04, correlation=1.0, relative=True, reference="model")),
    }

    def err_sig(res, f, names):
        out = {"fit:values": np.array([res["parameter_values"][n] for n in names], dtype=float), "fit:errors": np.array([res["parameter_errors"][n] for n in names], dtype=float)}
        out["fit:cost"], out["fit:ndf"] = float(res["cost"]), int(res["ndf"])
        out["fit:cov"] = np.asarray(res["parameter_cov_mat"], dtype=float)
        tc = f.total_cov_mat
        out["total_cov_mat"] = None if tc is None else np.asarray(tc, dtype=float)
        return out

    def mk_err(ftype, table, pair):
        keys = list(pair)
        if ftype == "xy_fit" and "y_error" not in keys:
            keys = ["y_error"] + keys  # a fit of xy data needs an absolute y uncertainty to be comparable at all parameter points
        if ftype == "indexed_fit" and "error" not in keys:
            keys = ["error"] + keys

        def A():
            with warnings.catch_warnings():
                warnings.simplefilter("ignore")
                kw = {k: table[k][0] for k in keys}
                if ftype == "xy_fit":
                    res = kafe2.xy_fit(lm, x, y, save=False, report=False, profile=False, **kw)
                elif ftype == "indexed_fit":
                    res = kafe2.indexed_fit(im, y, save=False, report=False, profile=False, **kw)
                else:
                    res = kafe2.hist_fit(ref.normal_density, HIST_ENTRIES, n_bins=5, bin_range=(0.0, 6.0), save=False, report=False, profile=False, **kw)
                return err_sig(res, res["fit"], list(res["parameter_values"]))

        def B():
            with warnings.catch_warnings():
                warnings.simplefilter("ignore")
                if ftype == "xy_fit":
                    f = kafe2.XYFit([x, y], lm)
                    for k in keys[::-1]:  # the order in which sources are added is immaterial
                        f.add_error(table[k][1][0], **table[k][1][1])
                elif ftype == "indexed_fit":
                    f = kafe2.IndexedFit(y, im)
                    for k in keys[::-1]:
                        f.add_error(**table[k][1])
                else:
                    f = kafe2.HistFit(kafe2.HistContainer(5, (0.0, 6.0), None, HIST_ENTRIES), ref.normal_density, cost_function="gauss_approximation")
                    for k in keys[::-1]:
                        f.add_error(**table[k][1])
                res = f.do_fit()
                return err_sig(res, f, list(f.parameter_names))

        return A, B

    for ftype, table in (("xy_fit", xy_kw), ("indexed_fit", i_kw), ("hist_fit", h_kw)):
        ks = list(table)
        for a_, k1 in enumerate(ks):
            for k2 in ks[a_ + 1 :]:
                A, B = mk_err(ftype, table, (k1, k2))
                cases.append(("errors/%s/%s+%s" % (ftype, k1, k2), A, B))
    return cases


def fam_models(v):
    import kafe2

    ds, val = data_sets(v)
    x, y = ds["pos"]

    def linear_model(x, a, b):
        return a * x + b

    def quadratic_model(x, a, b, c):
        return a * x**2 + b * x + c

    def exponential_model(x, A_0=1.0, x_0=1.0):
        return A_0 * np.exp(x / x_0)

    def cubic_model(x, a=1.0, b=1.0, c=1.0, d=1.0):
        return a * x**3 + b * x**2 + c * x + d

    def normal_distribution(x, mu=1.0, sigma=1.0):  # the normal density depends on sigma**2 only
        return np.exp(-0.5 * (x - mu) ** 2 / sigma**2) / np.sqrt(2.0 * np.pi * sigma**2)

    def sym(x, a=1.5, b=0.3):
        return a * x + b * x**2

    def symexp(x, a, b):
        return a * np.exp(-b * x)

    pairs = [
        ("library:linear_model", "linear_model", linear_model, [[1.0, 1.0], [1.3, 0.4], [0.8, 1.2]]),
        ("library:line", "line", linear_model, [[1.0, 1.0], [1.3, 0.4], [0.8, 1.2]]),
        ("library:quadratic", "quadratic", quadratic_model, [[1.0, 1.0, 1.0], [0.05, 0.7, 1.2], [0.1, 0.5, 0.9]]),
        ("library:exponential_model", "exponential_model", exponential_model, [[1.0, 1.0], [1.4, 4.0], [1.7, 5.0]]),
        ("library:cubic", "cubic", cubic_model, [[1.0, 1.0, 1.0, 1.0], [0.02, -0.05, 0.7, 1.2], [-0.01, 0.1, 0.5, 0.9]]),
        ("library:exp", "exp", exponential_model, [[1.0, 1.0], [1.4, -4.0], [-1.7, 5.0]]),
        ("library:normal_distribution", "normal_distribution", normal_distribution, [[1.0, 1.0], [2.5, 1.8], [3.0, -2.2]]),
        ("library:normal", "normal", normal_distribution, [[1.0, 1.0], [2.0, -1.5], [3.5, 0.9]]),
        ("sympy:defaults", "f: x a=1.5 b=0.3 -> a*x + b*x**2", sym, [[1.5, 0.3], [1.1, 0.1], [0.9, 0.05]]),
        ("sympy:exp", "g: x a b -> a*exp(-b*x)", symexp, [[1.0, 1.0], [2.0, 0.1], [3.0, -0.2]]),
    ]
    cases = []
    for name, spec, fn, pts in pairs:

        def mk(model, pts=pts):
            def build():
                with warnings.catch_warnings():
                    warnings.simplefilter("ignore")
                    f = kafe2.XYFit([x, y], model)
                    f.add_error("y", val.ey)
                    out = {"defaults": np.asarray(f.parameter_values, dtype=float), "names": list(f.parameter_names)}
                    out.update(fit_signature(f, points=pts, do_fit=name.startswith("library:l") or name == "sympy:defaults"))
                return out

            return build

        cases.append(("model/" + name, mk(spec), mk(fn)))

    # default values written as integers or as floats are the same specification - for every backend and for the values assigned afterwards
    def lin_int(x, a=1, b=2):
        return a * x + b

    def lin_float(x, a=1.0, b=2.0):
        return a * x + b

    for backend in ("iminuit", "scipy"):
        for opname in ("plain", "fix-b-0.5", "set-a-2.5", "setall", "limit-a"):

            def mk2(model, backend=backend, opname=opname):
                def build():
                    with warnings.catch_warnings():
                        warnings.simplefilter("ignore")
                        f = kafe2.XYFit([x, y], model, minimizer=backend)
                        f.add_error("y", val.ey)
                        if opname == "fix-b-0.5":
                            f.fix_parameter("b", 0.5)
                        elif opname == "set-a-2.5":
                            f.set_parameter_values(a=2.5)
                        elif opname == "setall":
                            f.set_all_parameter_values([1.25, 0.75])
                        elif opname == "limit-a":
                            f.limit_parameter("a", 0.25, 1.05)
                        out = {"start": np.asarray(f.parameter_values, dtype=float), "cost@start": float(f.cost_function_value)}
                        f.do_fit()
                        out["fit:values"] = np.asarray(f.parameter_values, dtype=float)
                        out["fit:errors"] = np.asarray(f.parameter_errors, dtype=float)
                        out["fit:cost"] = float(f.cost_function_value)
                        out["fit:ndf"] = int(f.ndf)
                    return out

                return build

            cases.append(("model/int-defaults/%s/%s" % (backend, opname), mk2(lin_int), mk2(lin_float)))
    return cases


EXPLICIT_YAML = """
type: xy
dataset:
  type: xy
  x_data: {x}
  y_data: {y}
  y_errors:
  - type: simple
    error_value: {yerr}
    relative: false
    correlation_coefficient: 0.0
  x_errors:
  - type: simple
    error_value: {xrel}
    relative: true
    correlation_coefficient: 0.0
parametric_model:
  type: xy
  x_data: {x}
  model_function:
    python_code: |
      def lm(x, a=1.1, b=0.4):
          return a * x + b
  model_parameters: [1.1, 0.4]
parameter_constraints:
- type: simple
  index: 0
  value: 1.2
  uncertainty: 0.1
  relative: false
"""

SHORT_YAML = {
    "top-level-keys+scalar+percent": """
x_data: {x}
y_data: {y}
y_errors: {yerr0}
x_errors: {xpct}%
model_function: |
  def lm(x, a=1.1, b=0.4):
      return a * x + b
parameter_constraints:
  a:
    value: 1.2
    uncertainty: 0.1
""",
    "vector-errors+type": """
type: xy
x_data: {x}
y_data: {y}
y_errors: {yerrlist}
x_errors: [{xpctlist}]
model_function: |
  def lm(x, a=1.1, b=0.4):
      return a * x + b
parameter_constraints:
  a:
    value: 1.2
    uncertainty: 0.1
""",
}


def fam_yaml(v):
    import kafe2

    ds, val = data_sets(v)
    x, y = ds["pos"]
    yerr0 = round(float(val.ys), 6)
    xpct = round(float(val.rx) * 100.0, 6)
    fmt = dict(
        x=[round(float(t), 6) for t in x],
        y=[round(float(t), 6) for t in y],
        yerr=[yerr0] * N,
        xrel=[xpct / 100.0] * N,
        yerr0=yerr0,
        xpct=xpct,
        yerrlist=[yerr0] * N,
        xpctlist=", ".join("'%s%%'" % xpct for _ in range(N)),
    )

    def loader(text):
        def build():
            d = tempfile.mkdtemp(prefix="kmc_c14_")
            try:
                path = os.path.join(d, "fit.yml")
                with open(path, "w") as fh:
                    fh.write(text.format(**fmt))
                with warnings.catch_warnings():
                    warnings.simplefilter("ignore")
                    f = kafe2.XYFit.from_file(path)
                    return fit_signature(f)
            finally:
                shutil.rmtree(d, ignore_errors=True)

        return build

    def explicit_api():
        with warnings.catch_warnings():
            warnings.simplefilter("ignore")
            f = kafe2.XYFit([np.array(fmt["x"]), np.array(fmt["y"])], lm)
            f.add_error("y", yerr0)
            f.add_error("x", xpct / 100.0, relative=True)
            f.add_parameter_constraint("a", 1.2, 0.1)
            return fit_signature(f)

    cases = [("yaml/explicit-yaml<->api", loader(EXPLICIT_YAML), explicit_api)]
    for name, text in SHORT_YAML.items():
        cases.append(("yaml/%s<->explicit-yaml" % name, loader(text), loader(EXPLICIT_YAML)))

    # a list of uncertainties mixing plain numbers (absolute) and percent strings (relative to the data), for data with and without axes
    short = ["0.4", "5%", "8%", "0.3", "12%", "0.25"]
    rel = np.array([0.0, 0.05, 0.08, 0.0, 0.12, 0.0])
    ab = np.array([0.4, 0.0, 0.0, 0.3, 0.0, 0.25])
    ylist = [round(float(t), 6) for t in y]
    xlist = [round(float(t), 6) for t in x]

    def file_fit(cls, text):
        def build():
            d = tempfile.mkdtemp(prefix="kmc_c14_")
            try:
                path = os.path.join(d, "fit.yml")
                with open(path, "w") as fh:
                    fh.write(text)
                with warnings.catch_warnings():
                    warnings.simplefilter("ignore")
                    return fit_signature(cls.from_file(path))
            finally:
                shutil.rmtree(d, ignore_errors=True)

        return build

    idx_code = "def im(a=1.2, b=0.7):\n    return a * np.arange(%d) * 0.5 + b + a * 0.2\n" % N
    idx_text = "type: indexed\ndata: %s\nerrors: [%s]\nmodel_function: |\n  %s" % (ylist, ", ".join(short), idx_code.replace("\n", "\n  "))

    def idx_api():
        with warnings.catch_warnings():
            warnings.simplefilter("ignore")
            f = kafe2.IndexedFit(np.array(ylist), im)
            f.add_error(rel, relative=True)
            f.add_error(ab)
            return fit_signature(f)

    cases.append(("yaml/indexed-mixed-percent-list<->api", file_fit(kafe2.IndexedFit, idx_text), idx_api))
    for first in ("number", "percent"):
        sh = short if first == "number" else short[1:] + short[:1]
        r_ = rel if first == "number" else np.roll(rel, -1)
        a_ = ab if first == "number" else np.roll(ab, -1)
        xy_text = "x_data: %s\ny_data: %s\ny_errors: [%s]\nx_errors: [%s]\nmodel_function: |\n  def lm(x, a=1.1, b=0.4):\n      return a * x + b\n" % (
            xlist, ylist, ", ".join(sh), ", ".join(["2%", "0.05"] * (N // 2)))

        def xy_api(r_=r_, a_=a_):
            with warnings.catch_warnings():
                warnings.simplefilter("ignore")
                f = kafe2.XYFit([np.array(xlist), np.array(ylist)], lm)
                f.add_error("y", r_, relative=True)
                f.add_error("y", a_)
                f.add_error("x", np.array([0.02, 0.0] * (N // 2)), relative=True)
                f.add_error("x", np.array([0.0, 0.05] * (N // 2)))
                return fit_signature(f)

        cases.append(("yaml/xy-mixed-percent-list-%s-first<->api" % first, file_fit(kafe2.XYFit, xy_text), xy_api))
    return cases


# ---------------------------------------------------------------------------------------
# the forms of a constant source (scalar / constant vector / matrix) x the dtype of the data they are attached to


def int_counts(v):
    """integer contents (histogram counts / integer measurements), no empty bin; integer abscissa"""
    return np.array([3 + v, 7, 12 + v, 9, 5, 2 + v]), np.arange(1, N + 1)


def imc(a=1.2, b=0.7):
    return a * np.array([2.0, 6.0, 10.0, 8.0, 4.0, 1.0]) + b


def fam_sources_dtype(v):
    import kafe2

    ds, val = data_sets(v)
    counts, xs = int_counts(v)
    centres = np.arange(N) + 0.5
    entries = np.repeat(centres, counts)
    rho, r = val.rho, 0.1 + val.ry
    R = rho_matrix(N, rho)

    def hist(dtype):
        return kafe2.HistContainer(N, (0.0, float(N)), fill_data=entries, dtype=dtype)

    # container kinds: (constructor, axis or None, the data the relative forms refer to)
    kinds = {
        "hist": (lambda: hist(int), None, counts),  # HistContainer: integer bin contents
        "hist-float": (lambda: hist(float), None, counts),
        "indexed-int": (lambda: kafe2.IndexedContainer(counts, dtype=int), None, counts),
        "indexed-float": (lambda: kafe2.IndexedContainer(counts), None, counts),
        "xy-int:y": (lambda: kafe2.XYContainer(xs, counts, dtype=int), "y", counts),
        "xy-int:x": (lambda: kafe2.XYContainer(xs, counts, dtype=int), "x", xs),
    }

    def forms(refd):
        """name -> (adders A, adders B, the pointwise uncertainty both describe)"""
        refd = np.asarray(refd, dtype=float)
        out = {}
        for sz in (0.5, 2.5, float(val.ys)):
            t = "%g" % sz
            vec = np.full(N, sz)
            out["scalar(%s)<->constant-vector" % t] = ([("add_error", dict(err_val=sz))], [("add_error", dict(err_val=vec))], vec)
            out["np-scalar(%s)<->constant-vector" % t] = ([("add_error", dict(err_val=np.float64(sz)))], [("add_error", dict(err_val=vec))], vec)
            out["0d-array(%s)<->constant-vector" % t] = ([("add_error", dict(err_val=np.array(sz)))], [("add_error", dict(err_val=vec))], vec)
            out["list(%s)<->constant-vector" % t] = ([("add_error", dict(err_val=[sz] * N))], [("add_error", dict(err_val=vec))], vec)
            out["scalar(%s)<->diag-cov" % t] = ([("add_error", dict(err_val=sz))], [("add_matrix_error", dict(err_matrix=np.diag(vec**2), matrix_type="cov"))], vec)
            out["scalar-rho(%s)<->cov" % t] = ([("add_error", dict(err_val=sz, correlation=rho))], [("add_matrix_error", dict(err_matrix=sz**2 * R, matrix_type="cov"))], vec)
            out["scalar-rho(%s)<->cor+err" % t] = ([("add_error", dict(err_val=sz, correlation=rho))], [("add_matrix_error", dict(err_matrix=R, matrix_type="cor", err_val=vec))], vec)
        two = np.full(N, 2.0)
        out["int-scalar<->float-scalar"] = ([("add_error", dict(err_val=2))], [("add_error", dict(err_val=2.0))], two)
        out["int-vector<->float-vector"] = ([("add_error", dict(err_val=np.full(N, 2)))], [("add_error", dict(err_val=two))], two)
        rvec = r * np.abs(refd)
        out["rel-scalar<->rel-constant-vector"] = ([("add_error", dict(err_val=r, relative=True))], [("add_error", dict(err_val=np.full(N, r), relative=True))], rvec)
        out["rel-scalar<->abs-vector"] = ([("add_error", dict(err_val=r, relative=True))], [("add_error", dict(err_val=rvec))], rvec)
        out["rel-scalar-rho<->cov"] = ([("add_error", dict(err_val=r, relative=True, correlation=rho))], [("add_matrix_error", dict(err_matrix=np.outer(rvec, rvec) * R, matrix_type="cov"))], rvec)
        out["rel-scalar<->rel-diag-cov"] = ([("add_error", dict(err_val=r, relative=True))], [("add_matrix_error", dict(err_matrix=np.diag(np.full(N, r**2)), matrix_type="cov", relative=True))], rvec)
        return out

    def apply(obj, axis, adders):
        for meth, kw in adders:
            if axis is None:
                getattr(obj, meth)(**kw)
            else:
                getattr(obj, meth)(axis, **kw)

    cases = []
    # 1. on the containers themselves
    for kname, (make, axis, refd) in kinds.items():
        for pname, (A, B, expected) in forms(refd).items():

            def mk(adders, make=make, axis=axis, expected=expected):
                def build():
                    with warnings.catch_warnings():
                        warnings.simplefilter("ignore")
                        c = make()
                        apply(c, axis, adders)
                        err = np.asarray(c.err if axis is None else getattr(c, axis + "_err"), dtype=float)
                        cov = np.asarray(c.cov_mat if axis is None else getattr(c, axis + "_cov_mat"), dtype=float)
                    return {"arr:err": err, "total_cov_mat": cov, "kw:pointwise-uncertainty": bool(err.shape == expected.shape and np.allclose(err, expected, rtol=1e-12, atol=0))}

                return build

            cases.append(("container/%s/%s" % (kname, pname), mk(A), mk(B)))

    # 2. on fits of integer data
    hpts = [[2.9, 1.6], [3.3, 1.2], [2.5, 1.9]]
    fits = {
        "hist-chi2": (lambda: kafe2.HistFit(hist(int), ref.normal_density, cost_function="chi2"), None, counts, hpts),
        "indexed-int": (lambda: kafe2.IndexedFit(kafe2.IndexedContainer(counts, dtype=int), imc), None, counts, POINTS),
        "xy-int:y": (lambda: kafe2.XYFit(kafe2.XYContainer(xs, counts, dtype=int), lm), "y", counts, POINTS),
        "xy-int:x": (lambda: kafe2.XYFit(kafe2.XYContainer(xs, counts, dtype=int), lm), "x", xs, POINTS),
    }
    fit_pairs = ("scalar(0.5)<->constant-vector", "scalar(2.5)<->constant-vector", "np-scalar(2.5)<->constant-vector", "scalar-rho(2.5)<->cov", "rel-scalar<->rel-constant-vector", "rel-scalar<->abs-vector")
    for kname, (make, axis, refd, pts) in fits.items():
        table = forms(refd)
        for pname in fit_pairs:
            A, B, expected = table[pname]

            def mk(adders, make=make, axis=axis, pts=pts, expected=expected, fit_it=pname in ("scalar(2.5)<->constant-vector", "rel-scalar<->abs-vector")):
                def build():
                    with warnings.catch_warnings():
                        warnings.simplefilter("ignore")
                        f = make()
                        if axis == "x":
                            f.add_error("y", np.full(N, 1.5))
                        apply(f, axis, adders)
                        err = np.asarray(f.data_error if axis is None else getattr(f, axis + "_data_error"), dtype=float)
                        out = {"arr:data_error": err, "kw:pointwise-uncertainty": bool(np.allclose(err, expected, rtol=1e-12, atol=0))}
                        out.update(fit_signature(f, points=pts, do_fit=fit_it))
                    return out

                return build

            cases.append(("fit/%s/%s" % (kname, pname), mk(A), mk(B)))

    # 3. an uncertainty shared by the members of a MultiFit
    counts2 = counts[::-1] + 1
    for kname, axis, members in (
        ("xy-int", "y", lambda: [kafe2.XYFit(kafe2.XYContainer(xs, counts, dtype=int), lm), kafe2.XYFit(kafe2.XYContainer(xs + 1, counts, dtype=int), lm)]),  # the same y data: a shared relative uncertainty needs a common reference
        ("hist-chi2", None, lambda: [kafe2.HistFit(hist(int), ref.normal_density, cost_function="chi2"), kafe2.HistFit(kafe2.HistContainer(N, (0.0, float(N)), fill_data=np.repeat(centres, counts2)), ref.normal_density, cost_function="chi2")]),
        ("indexed-int", None, lambda: [kafe2.IndexedFit(kafe2.IndexedContainer(counts, dtype=int), imc), kafe2.IndexedFit(kafe2.IndexedContainer(counts2, dtype=int), imc)]),
    ):
        for pname, ea, eb in (("scalar(2.5)<->constant-vector", 2.5, np.full(N, 2.5)), ("scalar(0.5)<->constant-vector", 0.5, np.full(N, 0.5)), ("rel-scalar<->rel-constant-vector", r, np.full(N, r))):
            if pname.startswith("rel") and axis is None:
                continue  # a shared uncertainty relative to the data exists for the axes of xy fits only

            def mk(err_val, members=members, axis=axis, relative=pname.startswith("rel")):
                def build():
                    with warnings.catch_warnings():
                        warnings.simplefilter("ignore")
                        m = kafe2.MultiFit(members())
                        akw = {} if axis is None else dict(axis=axis)
                        for k in (0, 1):
                            m.add_error(np.full(N, 1.0 + 0.5 * k), fits=k, **akw)
                        m.add_error(err_val, fits="all", relative=relative, **(dict(akw, reference="data") if relative else akw))
                        return fit_signature(m, points=hpts if kname.startswith("hist") else POINTS, do_fit=False)

                return build

            cases.append(("multifit/%s/%s" % (kname, pname), mk(ea), mk(eb)))

    # 3b. single-axis members with the SAME data: a shared uncertainty relative to the data, declared without and with the axis argument
    for kname, members in (
        ("indexed-same", lambda: [kafe2.IndexedFit(kafe2.IndexedContainer(counts, dtype=float), imc), kafe2.IndexedFit(kafe2.IndexedContainer(counts, dtype=float), imc)]),
        ("indexed-int-same", lambda: [kafe2.IndexedFit(kafe2.IndexedContainer(counts, dtype=int), imc), kafe2.IndexedFit(kafe2.IndexedContainer(counts, dtype=int), imc)]),
    ):
        for pname, err_val, relative in (("rel-scalar", r, True), ("abs-vector", np.full(N, 0.5), False)):

            def mk(with_axis, members=members, err_val=err_val, relative=relative):
                def build():
                    with warnings.catch_warnings():
                        warnings.simplefilter("ignore")
                        m = kafe2.MultiFit(members())
                        for k in (0, 1):
                            m.add_error(np.full(N, 1.0 + 0.5 * k), fits=k)
                        m.add_error(err_val, fits="all", relative=relative, **(dict(axis="y") if with_axis else {}))
                        return fit_signature(m, points=POINTS, do_fit=False)

                return build

            cases.append(("multifit/%s/%s/axis-omitted<->axis-y" % (kname, pname), mk(False), mk(True)))

    # 4. through the wrappers
    def wsig(res):
        f = res["fit"]
        out = {"fit:values": np.array(list(res["parameter_values"].values()), dtype=float), "fit:errors": np.array(list(res["parameter_errors"].values()), dtype=float)}
        out["fit:cost"], out["fit:ndf"] = float(res["cost"]), int(res["ndf"])
        tc = f.total_cov_mat
        out["total_cov_mat"] = None if tc is None else np.asarray(tc, dtype=float)
        return out

    hkw = dict(n_bins=N, bin_range=(0.0, float(N)), save=False, report=False, profile=False)
    wr = {
        "hist_fit/error(2.5)": (lambda e: kafe2.hist_fit(ref.normal_density, entries, error=e, **hkw), 2.5, [2.5] * N),
        "hist_fit/error(0.5)": (lambda e: kafe2.hist_fit(ref.normal_density, entries, error=e, **hkw), 0.5, [0.5] * N),
        "hist_fit/error_rel-data": (lambda e: kafe2.hist_fit(ref.normal_density, entries, error_rel=e, errors_rel_to_model=False, **hkw), r, [r] * N),
        "indexed_fit/error(2.5)": (lambda e: kafe2.indexed_fit(imc, counts, error=e, save=False, report=False, profile=False), 2.5, [2.5] * N),
        "xy_fit/y_error(2.5)+x_error(0.25)": (lambda e: kafe2.xy_fit(lm, xs, counts, y_error=e[0], x_error=e[1], save=False, report=False, profile=False), (2.5, 0.25), ([2.5] * N, [0.25] * N)),
    }
    for wname, (call, ea, eb) in wr.items():

        def mk(e, call=call):
            def build():
                with warnings.catch_warnings():
                    warnings.simplefilter("ignore")
                    return wsig(call(e))

            return build

        cases.append(("wrapper/%s/scalar<->constant-vector" % wname, mk(ea), mk(eb)))
    return cases


# ---------------------------------------------------------------------------------------
# the generic dispatcher kafe2.Fit(data, [model], **options) vs the explicitly constructed fit of the matching class


def fam_dispatcher(v):
    import kafe2

    ds, val = data_sets(v)
    x, y = ds["pos"]
    hpts = [[2.9, 1.6], [3.3, 1.2], [2.5, 1.9]]
    lpts = [[1.0, 1.0], [1.3, 0.4], [0.8, 1.2]]

    def xy_container():
        c = kafe2.XYContainer(x, y)
        c.add_error("y", val.ey)
        return c

    def indexed_container():
        c = kafe2.IndexedContainer(y)
        c.add_error(val.ey)
        return c

    def hist_container():
        c = kafe2.HistContainer(5, (0.0, 6.0), fill_data=HIST_ENTRIES)
        c.add_error(np.sqrt(np.maximum(c.data, 1.0)))
        return c

    # data kind -> (data maker, explicit class, model function (None: the default model of the fit type is part of the
    # enumeration), parameter points, what is added after construction, options)
    rel_model = lambda f: f.add_error("y", val.rm, relative=True, reference="model")  # noqa: E731
    rel_model_i = lambda f: f.add_error(val.rm, relative=True, reference="model")  # noqa: E731
    plain_y = lambda f: f.add_error("y", val.ey)  # noqa: E731
    xy_options = {
        "none": (dict(), None),
        "cost=chi2_no_errors": (dict(cost_function="chi2_no_errors"), None),
        "cost=nll_gaussian": (dict(cost_function="nll_gaussian"), None),
        "minimizer=scipy": (dict(minimizer="scipy"), None),
        "dynamic=iterative": (dict(dynamic_error_algorithm="iterative"), rel_model),
        "dynamic=nonlinear": (dict(dynamic_error_algorithm="nonlinear"), rel_model),
        "minimizer_kwargs": (dict(minimizer_kwargs=dict(tolerance=1e-3)), None),
        "cost+dynamic+minimizer": (dict(cost_function="chi2_covariance", dynamic_error_algorithm="iterative", minimizer="scipy"), rel_model),
    }
    table = {
        "xy-container": (xy_container, kafe2.XYFit, lm, POINTS, None, xy_options),
        "xy-list": (lambda: [list(x), list(y)], kafe2.XYFit, lm, POINTS, plain_y, {k: xy_options[k] for k in ("none", "cost=chi2_no_errors", "dynamic=iterative")}),
        "xy-ndarray": (lambda: np.array([x, y]), kafe2.XYFit, lm, POINTS, plain_y, {k: xy_options[k] for k in ("none", "cost=nll_gaussian", "minimizer=scipy")}),
        "indexed": (
            indexed_container,
            kafe2.IndexedFit,
            im,
            POINTS,
            None,
            {
                "none": (dict(), None),
                "cost=chi2_no_errors": (dict(cost_function="chi2_no_errors"), None),
                "minimizer=scipy": (dict(minimizer="scipy"), None),
                "dynamic=iterative": (dict(dynamic_error_algorithm="iterative"), rel_model_i),
            },
        ),
        "hist": (
            hist_container,
            kafe2.HistFit,
            ref.normal_density,
            hpts,
            None,
            {
                "none": (dict(), None),
                "cost=chi2": (dict(cost_function="chi2"), None),
                "cost=gauss_approximation": (dict(cost_function="gauss_approximation"), None),
                "bin_evaluation=rectangle": (dict(bin_evaluation="rectangle"), None),
                "bin_evaluation=numerical": (dict(bin_evaluation="numerical"), None),
                "density=False": (dict(density=False, cost_function="chi2_no_errors"), None),
                "minimizer=scipy": (dict(minimizer="scipy"), None),
                "dynamic=iterative": (dict(dynamic_error_algorithm="iterative", cost_function="chi2"), rel_model_i),
                "cost+bin_evaluation+density": (dict(cost_function="chi2", bin_evaluation="trapezoid", density=True), None),
            },
        ),
        "unbinned": (
            lambda: kafe2.UnbinnedContainer(HIST_ENTRIES),
            kafe2.UnbinnedFit,
            ref.normal_density,
            hpts,
            None,
            {"none": (dict(), None), "minimizer=iminuit": (dict(minimizer="iminuit"), None), "cost=nll": (dict(cost_function="nll"), None)},
        ),
    }

    def readback(f, opts):
        """what the options ask for, where a public attribute tells"""
        out = {}
        if "dynamic_error_algorithm" in opts:
            out["kw:dynamic_error_algorithm"] = bool(f.dynamic_error_algorithm == opts["dynamic_error_algorithm"])
        if "density" in opts:
            out["kw:density"] = bool(f.density == opts["density"])
        return out

    cases = []
    for dname, (data, cls, model, pts, after, options) in table.items():
        for given in ("model", "default"):
            if given == "default" and dname == "indexed":
                continue  # an indexed fit has no default model
            ppts = pts if given == "model" or dname in ("hist", "unbinned") else lpts
            for oname, (opts, after2) in options.items():

                def mk(how, data=data, cls=cls, model=model, given=given, opts=opts, after=after, after2=after2, ppts=ppts, fit_it=not (dname == "hist" and "density" in opts and not opts["density"])):
                    def build():
                        with warnings.catch_warnings():
                            warnings.simplefilter("ignore")
                            args = (data(),) + ((model,) if given == "model" else ())
                            f = (kafe2.Fit if how == "Fit" else cls)(*args, **opts)
                            for op in (after, after2):
                                if op is not None:
                                    op(f)
                            out = {"kw:class": bool(type(f) is cls), "names": list(f.parameter_names), "defaults": np.asarray(f.parameter_values, dtype=float)}
                            out.update(readback(f, opts))
                            out.update(fit_signature(f, points=ppts, do_fit=fit_it))
                        return out

                    return build

                cases.append(("Fit/%s/%s/%s" % (dname, given, oname), mk("Fit"), mk("class")))
    return cases


FAMILIES = {"sources": fam_sources, "constraints": fam_constraints, "wrappers": fam_wrappers, "wrapper-combos": fam_wrapper_combos, "models": fam_models, "yaml": fam_yaml, "sources-dtype": fam_sources_dtype, "dispatcher": fam_dispatcher}


def jobs(tier, seed):
    v = seed % 3
    specs = []
    for vv in ([v] if tier == "quick" else [0, 1, 2]):
        for fam in FAMILIES:
            nsh = {"sources": 3, "wrappers": 4, "wrapper-combos": 14, "sources-dtype": 3, "dispatcher": 2}.get(fam, 2)
            for sh in range(nsh):
                specs.append((fam, vv, sh, nsh))
    return specs


def bound(tier, seed):
    return "all pairs of the eight families (forms of a constant source {python scalar, numpy scalar, 0-d array, list, constant vector, diagonal covariance, scalar + rho vs covariance / correlation matrix + vector} x sizes {0.5, 2.5, valuation} and integer-valued / relative forms x data of dtype int (histogram counts, IndexedContainer, XYContainer both axes) and float controls on containers; a subset on HistFit / IndexedFit / XYFit, shared MultiFit sources and the hist_fit / indexed_fit / xy_fit keywords; kafe2.Fit vs the fit class for 6 data kinds x model given / omitted x the options of the fit type; source forms on xy/indexed fits with positive and mixed-sign data and on the x axis; simple / matrix constraint forms with values of either sign; xy_fit / indexed_fit / hist_fit / unbinned_fit keywords vs explicit construction incl. errors_rel_to_model both ways, limits, fixed, constraints, p0; COMBINATIONS of the control keywords of xy_fit / indexed_fit / hist_fit / unbinned_fit / custom_fit: none, each and every pair of {p0, dp0, limits containing p0, limits excluding p0 and active at the minimum, fixed with a value different from the p0 entry, fixed without a value, constraints (absolute + relative), profile} plus three larger combinations, the container forms of limits / fixed / constraints (bare entry, list, tuple of lists, one-sided limits), and every pair of uncertainty keywords of xy_fit (8), indexed_fit (4), hist_fit (4), each against the explicitly built fit (values, step sizes, limits, fix, constrain, fit) and against what the keyword asks for (fixed value, limits respected); library names and SymPy strings vs callables; YAML shorthand vs explicit YAML vs API); valuation(s) %s" % (
        (seed % 3) if tier == "quick" else "0,1,2"
    )


def run_case(fam, v, name):
    for n, A, B in FAMILIES[fam](v):
        if n == name:
            try:
                a = A()
                b = B()
            except Exception as e:  # noqa: BLE001
                import traceback

                return [("build", "no exception", "%s: %s | %s" % (type(e).__name__, str(e)[:150], traceback.format_exc()[-250:]), "exception:" + type(e).__name__)]
            bad = compare(a, b)
            if "defaults" in a and (list(a["names"]) != list(b["names"]) or not np.allclose(a["defaults"], b["defaults"], rtol=1e-12, atol=0)):
                bad.append(("defaults", [a["names"], _l(a["defaults"])], [b["names"], _l(b["defaults"])], "wrong-value"))
            return bad
    raise KeyError(name)


def run_job(spec):
    fam, v, shard, nshard = spec
    res = JobResult()
    cases = FAMILIES[fam](v)
    for i, (name, A, B) in enumerate(cases):
        if i % nshard != shard:
            continue
        bad = run_case(fam, v, name)
        res.executions += 2
        res.transitions += 8
        res.evaluations += 6
        res.state((fam, v, name))
        res.nontriv((fam, v, name))
        res.observe((fam, v, name, len(bad)))
        res.outcomes[(fam, name.split("/")[1] if "/" in name else name, "ok" if not bad else "MISMATCH")] += 1
        res.facts["family:" + fam] += 1
        for o, e, a, m in bad:
            res.violation("%s|%s" % (fam, name), [dict(fam=fam, v=v, name=name)], o, e, a, m)
    res.sample(dict(family=fam, valuation=v, cases=[c[0] for c in cases][:4], n_cases=len(cases)))
    return res.as_dict()


def replay(history):
    h = history[0]
    bad = run_case(h["fam"], h["v"], h["name"])
    return [dict(observable=o, expected=e, actual=a, mode=m) for o, e, a, m in bad]


def triage_key(v):
    return (v["sig"], v["observable"], v["mode"])


def vacuity_guards(tot, tier):
    for f in FAMILIES:
        yield "family %s compared" % f, tot.facts.get("family:" + f, 0) > 0
