"""C10 - degrees of freedom, goodness of fit and chi2 probability follow the documented formulas.

Mode B without merging: all operation sequences up to length L over {fix p (also twice), release p, simple / matrix
constraints (n = 2, 3), set_parameter_values, do_fit} on single fits of the four types x cost identifiers and on multi-fits
of 1-3 members (operations on the multi-fit and on members); after every sequence ndf, goodness_of_fit, chi2_probability
and gof/ndf are compared with the documented formulas evaluated by the reference (kmc.ref, mpmath for the chi2 tail).
"""
import itertools
import warnings

import numpy as np

from kmc import ref
from kmc.core import JobResult
from kmc.fitworld import FitWorld
from kmc.multiworld import MultiWorld

PROPERTY = "C10"
RULE = (
    "executions = (fit or multi-fit configuration, operation sequence of length <= L over fix / fix-again / release / simple and "
    "matrix constraints on fit, member or multi-fit / set / do_fit); ndf, goodness of fit, chi2 probability and gof/ndf compared "
    "with NDF = N_d + N_con - N_p + N_fixed, cost - saturated cost (no determinant term), upper chi2 tail (mpmath); non-trivial = "
    "at least one fix/release/constraint in the sequence"
)
ASSUMPTIONS = [
    "error-needing costs always have at least one enabled source (the no-source fallback is documented and not generated)",
    "multi-fits: parameters are fixed / released on the multi-fit (a common fixed flag between member and multi-fit is not specified)",
]
SINGLE = [
    ("xy", "chi2", "expo", ["y-abs"]),
    ("xy", "chi2", "quad", ["y-abs-rho", "x-abs"]),
    ("xy", "chi2_pointwise", "lin", ["y-abs", "y-abs-rho"]),
    ("xy", "chi2_fast", "lin", ["y-cov"]),
    ("xy", "chi2:nodet", "lin", ["y-abs"]),  # cost function OBJECT with add_determinant_cost=False (diagonal covariance: do_fit switches to its pointwise twin)
    ("indexed", "chi2:nodet", "idx2", ["y-abs", "y-rel"]),
    ("xy", "chi2", "lin", ["y-abs", "y-abs-model"]),  # uncorrelated data source + correlated model-referenced source
    ("indexed", "chi2", "idx2", ["y-abs", "y-abs-model"]),
    ("xy", "chi2_no_errors", "lin", []),
    ("xy", "nll-gaussian", "lin", ["y-abs"]),
    ("xy", "gauss_approximation", "lin", ["y-abs"]),
    ("xy", "nll", "lin", []),
    ("indexed", "chi2", "idx3", ["y-cov"]),
    ("indexed", "chi2_pointwise_errors", "idx2", ["y-abs-rho", "y-rel"]),
    ("indexed", "nllr-gaussian", "idx2", ["y-abs"]),
    ("hist", "nll", "normal", []),
    ("hist", "chi2", "normal", ["y-abs"]),
    ("hist", "gauss_approximation_pointwise", "normal", ["y-abs"]),
    ("unbinned", "nll", "normal", []),
    # the fast (Cholesky) variants and the Gaussian approximation with a correlated source: every cost family x {qr, cholesky} x {diagonal, correlated}
    ("indexed", "gauss_approximation_covariance_fast", "idx2", ["y-abs-rho"]),
    ("indexed", "gauss_approximation", "idx2", ["y-abs-rho"]),
    ("hist", "gauss_approximation_covariance_fast", "normal", ["y-abs-rho"]),
    ("hist", "gauss_approximation", "normal", ["y-abs", "y-abs-rho"]),
    ("indexed", "chi2_covariance_fast", "idx2", ["y-abs-rho", "y-rel"]),
    ("xy", "chi2_fast", "lin", ["y-abs"]),
    ("xy", "chi2_pointwise", "expo", ["y-abs", "x-abs"]),
]
MULTI = [["xy_ab"], ["xy_ab", "xy_ac"], ["xy_ab", "idx_ad"], ["xy_ab", "xy_ac", "xy_bc"], ["xy_ab", "hist"], ["xy_ab_x", "xy_ac"], ["xy_ab_noerr", "xy_ac"], ["xy_ac", "xy_ab_relm"]]


# multi-fits with a shared uncertainty source: (member list, (kind, member indices))
MULTI_SHARED = [(["xy_ab", "xy_ac"], ("y-abs-rho", [0, 1])), (["xy_ab", "idx_ad", "xy_ac"], ("y-cov", [0, 2])), (["xy_ab_x", "xy_ac"], ("x-abs", [0, 1])), (["xy_ab", "hist", "xy_ac"], ("y-abs-rho", [0, 2]))]


def single_alphabet(w):
    p0, p1 = w.par_names[0], w.par_names[1]
    ops = [("fix", p0), ("fix", p1), ("rel", p0), ("rel", p1), ("con", "simple"), ("con", "matrix-cov"), ("con", "matrix-scales"), ("set", "P1"), ("fit",)]
    if len(w.par_names) >= 3:
        ops.append(("con", "matrix3"))
        ops.append(("fix", w.par_names[2]))
    return ops


def single_valid(w, op):
    if op[0] == "rel":
        return op[1] in w.fixed
    if op[0] == "set":
        return not w.fixed
    if op[0] == "fix":
        return len(set(w.fixed) | {op[1]}) < len(w.par_names)
    if op[0] == "fit":
        return len(w.fixed) < len(w.par_names)
    return True


def multi_alphabet(mw):
    p0 = mw.par_names[0]
    p1 = mw.par_names[1]
    ops = [("m", ("fix", p0)), ("m", ("fix", p1)), ("m", ("rel", p0)), ("m", ("con", "simple")), ("m", ("con", "matrix-cov")), ("m", ("set", "P1")), ("m", ("fit",))]
    ops.append(("f0", ("con", "simple")))
    if len(mw.members) > 1 and mw.members[1].ftype in ("xy", "indexed"):
        ops.append(("f1", ("con", "simple-rel")))
    # a shared source declared late (after parameters were fixed / constrained)
    eq = [i for i, n in enumerate(mw.member_names) if n in ("xy_ab", "xy_ac", "idx_ad", "xy_ab_x", "xy_ab_noerr", "xy_ab_relm")]
    if not mw.shared and len(eq) >= 2:
        ops.append(("shared", "y-abs-rho", "shl", [eq[0], eq[-1]]))
    return ops


def multi_valid(mw, op):
    o = op[1]
    if op[0] == "m":
        if o[0] == "rel":
            return o[1] in mw.fixed
        if o[0] == "set":
            return not mw.fixed
        if o[0] == "fix":
            return len(set(mw.fixed) | {o[1]}) < len(mw.par_names)
    return True


def gof_ref(w):
    if w.ftype == "unbinned":
        return None
    return w.ref_cost(with_det=False) - w.ref_cost(model_is_data=True, with_det=False)


def check_single(w):
    f = w.fit
    out = []
    with warnings.catch_warnings():
        warnings.simplefilter("ignore")
        ndf, gof, prob = f.ndf, f.goodness_of_fit, f.chi2_probability
        rd = f.get_result_dict()
    endf = w.ref_ndf()
    if ndf != endf:
        out.append(("ndf", endf, ndf, "wrong-value"))
    egof = gof_ref(w)
    fam = ref.cost_family(w.cost_id)[0] if w.ftype != "unbinned" else "nll"
    posed = True
    if fam == "ga":
        # the Gaussian approximation is a likelihood only where its covariance V + diag(model) is positive definite: a fit that has
        # wandered to negative model values leaves numbers of order 1e17 that mean nothing (not a well-posed state; ndf still is)
        m = np.asarray(w.ref_model(), dtype=float)
        W = w.ref_covs()["total"] + np.diag(m)
        ev = np.linalg.eigvalsh(W)
        posed = bool(np.all(m > 0) and ev[0] > 1e-10 * max(1.0, ev[-1]))
    if posed and ((egof is None) != (gof is None) or (egof is not None and abs(gof - egof) > 1e-8 * max(1.0, abs(egof)))):
        out.append(("goodness_of_fit", egof, gof, "wrong-value"))
    if fam == "chi2" and endf > 0:
        eprob = ref.chi2_sf(w.ref_cost(with_det=False), endf)
        if prob is None or abs(prob - eprob) > 1e-9 + 1e-7 * eprob:
            out.append(("chi2_probability", eprob, prob, "wrong-value"))
    elif fam != "chi2" and prob is not None:
        out.append(("chi2_probability", None, prob, "wrong-value"))
    if gof is not None and ndf:
        if abs(rd["gof/ndf"] - gof / ndf) > 1e-9 * max(1.0, abs(gof / ndf)) or rd["ndf"] != ndf:
            out.append(("result_dict:gof/ndf", gof / ndf, rd["gof/ndf"], "inconsistent"))
    return out


def check_multi(mw):
    f = mw.multi
    out = []
    with warnings.catch_warnings():
        warnings.simplefilter("ignore")
        ndf, gof, prob = f.ndf, f.goodness_of_fit, f.chi2_probability
    endf = mw.ref_ndf()
    if ndf != endf:
        out.append(("ndf", endf, int(ndf), "wrong-value"))
    if mw.shared:
        # joint chi2 with the shared matrix in all blocks + constraint cost; members outside the chi2 block add their own gof
        egof = mw.ref_cost(with_det=False)
        for w in mw.members:
            if w.ftype not in ("xy", "indexed"):
                g = gof_ref(w)
                egof = None if (g is None or egof is None) else egof - w.ref_cost(with_det=False) + g
    else:
        gofs = [gof_ref(w) for w in mw.members]
        egof = None if any(g is None for g in gofs) else sum(gofs) + mw.ref_constraint_cost()
    if (egof is None) != (gof is None) or (egof is not None and abs(gof - egof) > 1e-8 * max(1.0, abs(egof))):
        out.append(("goodness_of_fit", egof, gof, "wrong-value"))
    allchi2 = all(w.ftype in ("xy", "indexed") for w in mw.members)
    if allchi2 and endf > 0:
        eprob = ref.chi2_sf(mw.ref_cost(with_det=False), endf)
        if prob is None or abs(prob - eprob) > 1e-9 + 1e-7 * eprob:
            out.append(("chi2_probability", eprob, prob, "wrong-value"))
    return out


def sequences(alphabet_fn, valid_fn, make, L):
    out = []

    def rec(prefix):
        if len(prefix) >= L:
            return
        w = make()
        try:
            with warnings.catch_warnings():
                warnings.simplefilter("ignore")
                for op in prefix:
                    w.apply(op)
        except Exception:  # noqa: BLE001
            return
        for op in alphabet_fn(w):
            if valid_fn(w, op):
                out.append(prefix + (op,))
                rec(prefix + (op,))

    rec(())
    return out


def make_single(cfg, v):
    ftype, cost, model, kinds = cfg
    w = FitWorld(ftype, cost, model=model, v=v, n=8 if ftype in ("xy", "indexed") else 5)
    for i, k in enumerate(kinds):
        w.apply(("add", k, "e%d" % i))
    return w


def make_shared(names, shared):
    mw = MultiWorld(names)
    mw.apply(("shared", shared[0], "sh0", list(shared[1])))
    return mw


def jobs(tier, seed):
    v = seed % 3
    L = 3 if tier == "quick" else 4
    specs = []
    for vv in ([v] if tier == "quick" else [0, 1, 2]):
        for i, cfg in enumerate(SINGLE):
            for sh in range(2):
                specs.append(("single", i, vv, L, sh, 2))
        for i, names in enumerate(MULTI):
            for sh in range(4):
                specs.append(("multi", i, vv, L, sh, 4))
        for i in range(len(MULTI_SHARED)):
            for sh in range(4):
                specs.append(("multi-shared", i, vv, L, sh, 4))
    return specs


def bound(tier, seed):
    return "all operation sequences of length <= %d over fix/fix-again/release/constraints(n=1,2,3)/set/do_fit on 19 single-fit configurations (4 fit types, 12 cost identifiers) and 8 multi-fits of 1-3 members plus 4 multi-fits with a shared y / matrix / x source (one with a non-chi2 member) (operations on multi-fit and members); valuation(s) %s" % (
        3 if tier == "quick" else 4,
        (seed % 3) if tier == "quick" else "0,1,2",
    )


def run_job(spec):
    kind, i, v, L, shard, nshard = spec
    res = JobResult()
    if kind == "single":
        cfg = SINGLE[i]
        make = lambda: make_single(cfg, v)  # noqa: E731
        seqs = [()] + sequences(single_alphabet, single_valid, make, L)
        checker, tag = check_single, "%s/%s/%s" % (cfg[0], cfg[1], "+".join(cfg[3]))
    elif kind == "multi-shared":
        names, shared = MULTI_SHARED[i]
        make = lambda: make_shared(names, shared)  # noqa: E731
        seqs = [()] + sequences(multi_alphabet, multi_valid, make, L)
        checker, tag = check_multi, "multi-shared/%s/%s@%s" % ("+".join(names), shared[0], shared[1])
    else:
        names = MULTI[i]
        make = lambda: MultiWorld(names)  # noqa: E731
        seqs = [()] + sequences(multi_alphabet, multi_valid, make, L)
        checker, tag = check_multi, "multi/" + "+".join(names)
    seqs = [s for k, s in enumerate(seqs) if k % nshard == shard]
    for seq in seqs:
        hist = [dict(kind=kind, index=i, v=v)] + [_j(o) for o in seq]
        try:
            w = make()
            with warnings.catch_warnings():
                warnings.simplefilter("ignore")
                for op in seq:
                    w.apply(op)
            bad = checker(w)
        except Exception as e:  # noqa: BLE001
            bad = [("op", "no exception", "%s: %s" % (type(e).__name__, str(e)[:150]), "exception:" + type(e).__name__)]
        res.executions += 1
        res.transitions += len(seq)
        res.evaluations += 4
        key = (kind, i, v, seq)
        res.state(key)
        if any(_name(o) in ("fix", "rel", "con") for o in seq):
            res.nontriv(key)
        res.observe((repr(key), len(bad)))
        res.outcomes[(tag, "ok" if not bad else "MISMATCH")] += 1
        for o in seq:
            res.facts["op:%s:%s" % (kind, _name(o))] += 1
        for o, e, a, m in bad:
            res.violation("%s|%s" % (tag, ";".join(_tag(x) for x in seq)), hist, o, e, a, m)
    res.sample(dict(kind=kind, config=tag, sequences=len(seqs), example=[_j(o) for o in (seqs[-1] if seqs else ())]))
    return res.as_dict()


def _name(o):
    if o[0] == "shared":
        return "shared"
    return o[1][0] if o[0] in ("m",) or (isinstance(o[0], str) and o[0].startswith("f") and o[0][1:].isdigit()) else o[0]


def _tag(o):
    if o[0] == "shared":
        return "shared:%s@%s" % (o[1], o[3])
    if o[0] == "m" or (o[0].startswith("f") and o[0][1:].isdigit()):
        return o[0] + "." + ":".join(str(x) for x in o[1][:2])
    return ":".join(str(x) for x in o[:2])


def _j(o):
    return [list(x) if isinstance(x, tuple) else x for x in o]


def _t(o):
    if o and o[0] == "shared":
        return (o[0], o[1], o[2], list(o[3]))
    return tuple(tuple(x) if isinstance(x, list) else x for x in o)


def replay(history):
    h = history[0]
    seq = [_t(o) for o in history[1:]]
    try:
        if h["kind"] == "single":
            w = make_single(SINGLE[h["index"]], h["v"])
            checker = check_single
        elif h["kind"] == "multi-shared":
            w = make_shared(*MULTI_SHARED[h["index"]])
            checker = check_multi
        else:
            w = MultiWorld(MULTI[h["index"]])
            checker = check_multi
        with warnings.catch_warnings():
            warnings.simplefilter("ignore")
            for op in seq:
                w.apply(op)
        bad = checker(w)
    except Exception as e:  # noqa: BLE001
        bad = [("op", "no exception", type(e).__name__, "exception:" + type(e).__name__)]
    return [dict(observable=o, expected=e, actual=a, mode=m) for o, e, a, m in bad]


def triage_key(v):
    return (v["sig"].split("|")[0], v["observable"], v["mode"])


def vacuity_guards(tot, tier):
    for k in ("fix", "rel", "con", "fit"):
        yield "operation %s explored on single fits and multi-fits" % k, tot.facts.get("op:single:" + k, 0) > 0 and tot.facts.get("op:multi:" + k, 0) > 0
    yield "multi-fits with shared sources explored", tot.facts.get("op:multi-shared:fix", 0) > 0
