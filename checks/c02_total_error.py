"""C02 - the total uncertainty is the exact sum of the enabled sources at the current reference.

Mode C (deviation-bounded): all valid mutator sequences up to length L over add / disable / enable / value
changes on each container and parametric-model class; one read of any observable inserted at any position
(the deviation), then every observable read at the end in every rotation of the read order.  Oracle: the
dense sum of (sigma sigma^T) o rho over the enabled sources at the *current* values (kmc.ref.source_cov).
"""
import itertools
import warnings

import numpy as np

from kmc import ref
from kmc.core import JobResult
from kmc.fitworld import HIST_EDGES, canon, close_scaled, hist_counts
from kmc.valuations import V

PROPERTY = "C02"
RULE = (
    "executions = (object class, valid mutator sequence of length <= L, position and observable of one intermediate read, "
    "rotation of the final read order); at the end err / cov_mat / cor_mat / cov_mat_inverse (per axis for xy) are compared "
    "with the dense reference at the current values; non-trivial = at least one enabled source AND at least one value "
    "change or disable/enable in the sequence"
)
ASSUMPTIONS = [
    "relative sources: sigma = relative size x current (signed) values, as the statement says",
    "cor_mat / inverse are only compared when the reference total is positive definite",
    "rebin keeps the number of bins (changing the data size while sources are declared is not defined)",
    "every array returned by a getter is modified in place by the harness after it was compared (getters hand out copies; a returned array that aliases a cache would show in the next read)",
]

HIST_EDGES2 = np.array([0.0, 0.8, 2.2, 3.1, 4.9, 6.0])
FILL1 = [0.4, 1.5, 2.5, 2.6, 3.7, 5.0, 5.5, 1.1]
FILL2 = [2.1, 2.9, 0.2, 4.7]
FILL0 = [0.3, 0.9, 1.4, 1.6, 2.2, 2.4, 2.7, 3.0, 3.3, 3.6, 3.8, 4.1, 4.6, 5.2, 5.7, 2.05, 2.95, 3.15]

KINDS_BY_OBJ = {
    "indexed": ["y-abs", "y-abs-rho", "y-rel", "y-relv-rho", "y-cov", "y-cor", "y-cov-rel", "y-cor-rel", "y-abs-rho1"],
    "xy": ["y-abs", "y-relv-rho", "y-cov-rel", "y-cor", "x-abs", "x-rel", "x-cov", "x-cov-rel"],
    "hist": ["y-abs", "y-abs-rho", "y-rel", "y-cov-rel"],
    "indexed-model": ["y-abs", "y-rel", "y-cov-rel", "y-relv-rho"],
    "xy-model": ["y-abs", "y-rel", "y-relv-rho", "x-abs", "x-rel"],
    "hist-model": ["y-abs", "y-rel", "y-cov-rel"],
}
QUICK_KINDS = {
    "indexed": ["y-abs", "y-rel", "y-relv-rho", "y-cov-rel", "y-cor"],
    "xy": ["y-abs", "y-relv-rho", "y-cov-rel", "x-rel", "x-cov-rel"],
    "hist": ["y-abs", "y-rel", "y-cov-rel"],
    "indexed-model": ["y-abs", "y-rel", "y-cov-rel"],
    "xy-model": ["y-abs", "y-rel", "x-rel"],
    "hist-model": ["y-abs", "y-rel"],
}
ref.KINDS.setdefault("x-cov-rel", ("x", "cov", True, "data", "Mrel", None))


class CWorld(object):
    def __init__(self, obj, v):
        import kafe2
        from kafe2.fit.histogram.model import HistParametricModel
        from kafe2.fit.indexed.model import IndexedParametricModel
        from kafe2.fit.xy.model import XYParametricModel

        self.obj, self.val = obj, V(v, 5)
        val = self.val
        self.sources = []  # [name, kind, enabled]
        self.vals = {}
        with warnings.catch_warnings():
            warnings.simplefilter("ignore")
            if obj == "indexed":
                self.c = kafe2.IndexedContainer(val.y)
                self.vals["y"] = val.y.copy()
            elif obj == "xy":
                self.c = kafe2.XYContainer(val.x, val.y)
                self.vals["x"], self.vals["y"] = val.x.copy(), val.y.copy()
            elif obj == "hist":
                self.c = kafe2.HistContainer(n_bins=5, bin_range=(0.0, 6.0), bin_edges=list(HIST_EDGES), fill_data=list(FILL0))
                self.entries, self.edges = list(FILL0), HIST_EDGES
                self.vals["y"] = hist_counts(self.entries, self.edges)
            elif obj == "indexed-model":
                self.fn = ref.make_indexed_model(5, 2)
                self.pars = [1.2, 0.7]
                self.c = IndexedParametricModel(self.fn, list(self.pars), shape_like=np.zeros(5))
                self.vals["y"] = self.fn(*self.pars)
            elif obj == "xy-model":
                self.fn, self.pars, self.x = ref.expo, [1.4, 0.25], val.x.copy()
                self.c = XYParametricModel(self.x, self.fn, list(self.pars))
                self.vals["x"], self.vals["y"] = self.x.copy(), self.fn(self.x, *self.pars)
            elif obj == "hist-model":
                self.fn, self.pars, self.edges = ref.normal_density, [2.9, 1.6], HIST_EDGES
                self.c = HistParametricModel(5, (0.0, 6.0), self.fn, list(self.pars), bin_edges=list(HIST_EDGES), bin_evaluation=ref.normal_cdf)
                cdf = ref.normal_cdf(self.edges, *self.pars)
                self.vals["y"] = cdf[1:] - cdf[:-1]
            else:
                raise ValueError(obj)

    @property
    def axes(self):
        return ("x", "y") if self.obj.startswith("xy") else ("y",)

    def reads(self):
        out = []
        for ax in self.axes:
            pre = ax + "_" if self.obj.startswith("xy") else ""
            out += [pre + "err", pre + "cov_mat", pre + "cor_mat", pre + "cov_mat_inverse"]
        if self.obj in ("hist", "indexed-model", "hist-model"):
            out.append("data")
        if self.obj == "xy-model":
            out.append("y")
        return out

    # -- mutators
    def mutators(self, kinds, max_adds):
        ops = []
        nadd = len(self.sources)
        if nadd < max_adds:
            for k in kinds:
                ops.append(("add", k, "e%d" % nadd))
                if self.obj == "xy" and ref.KINDS[k][1] != "simple" and ref.KINDS[k][2]:
                    ops.append(("add", k, "e%d" % nadd, "int"))  # axis given as integer
        for name, kind, en in self.sources:
            ops.append(("dis", name) if en else ("en", name))
        o = self.obj
        # composite: disable a source, change the values, enable it again (a disabled source must follow value changes too)
        if self.sources and self.sources[0][2]:
            _chg = {"indexed": ("data", "alt"), "xy": ("y", "alt"), "hist": ("fill", 1) if not getattr(self, "manual", False) else ("setbins", 2), "indexed-model": ("pars", 1), "xy-model": ("pars", 1), "hist-model": ("pars", 1)}[o]
            ops.append(("around", self.sources[0][0], _chg))
            if o == "xy":
                ops.append(("around", self.sources[0][0], ("data", "alt")))
                ops.append(("around", self.sources[0][0], ("x", "alt")))
        if o in ("indexed", "xy", "hist") and not getattr(self, "forked", False):
            ops.append(("fork",))
        if o == "indexed":
            ops += [("data", "alt"), ("data", "mixed")]
        elif o == "xy":
            ops += [("x", "alt"), ("y", "alt"), ("y", "mixed"), ("data", "alt"), ("data", "altT")]
        elif o == "hist":
            if not getattr(self, "manual", False):
                ops += [("fill", 1), ("fill", 2), ("rebin", 2)]  # refused once the bin contents were set by hand
            ops += [("setbins", 1), ("setbins", 2)]
        elif o == "indexed-model" or o == "hist-model":
            ops += [("pars", 1), ("pars", 2)]
        elif o == "xy-model":
            ops += [("pars", 1), ("pars", 2), ("x", "alt")]
        return ops

    def apply(self, op):
        c, val, k = self.c, self.val, op[0]
        with warnings.catch_warnings():
            warnings.simplefilter("ignore")
            if k == "around":
                self.apply(("dis", op[1]))
                self.apply(tuple(op[2]))
                self.apply(("en", op[1]))
                return
            if k == "add":
                meth, kw = ref.kind_call(op[1], val, axis_as=("int" if len(op) > 3 else "str"))
                kw.pop("reference")
                if not self.obj.startswith("xy"):
                    kw.pop("axis")
                # the caller owns the arrays it passes in: it hands over private float copies and scribbles on them right after the call
                mine = {k_: np.array(v_, dtype=float) for k_, v_ in kw.items() if isinstance(v_, np.ndarray)}
                kw.update(mine)
                getattr(c, meth)(name=op[2], **kw)
                for v_ in mine.values():
                    v_ *= 3.0
                    v_ += 0.5
                self.sources.append([op[2], op[1], True])
            elif k == "dis":
                c.disable_error(op[1])
                self._s(op[1])[2] = False
            elif k == "en":
                c.enable_error(op[1])
                self._s(op[1])[2] = True
            elif k == "data":
                if self.obj == "indexed":
                    new = val.y_alt if op[1] == "alt" else val.y_mixed
                    c.data = new
                    self.vals["y"] = np.array(new, dtype=float)
                else:
                    new = np.array([val.x_alt, val.y_alt])
                    c.data = new if op[1] == "alt" else new.T
                    self.vals["x"], self.vals["y"] = val.x_alt.copy(), val.y_alt.copy()
            elif k == "x":
                if self.obj == "xy":
                    c.x = val.x_alt
                    self.vals["x"] = val.x_alt.copy()
                else:
                    c.x = val.x_alt
                    self.x = val.x_alt.copy()
                    self.vals["x"], self.vals["y"] = self.x.copy(), self.fn(self.x, *self.pars)
            elif k == "y":
                new = val.y_alt if op[1] == "alt" else val.y_mixed
                c.y = new
                self.vals["y"] = np.array(new, dtype=float)
            elif k == "fill":
                b = FILL1 if op[1] == 1 else FILL2
                c.fill(list(b))
                self.entries = self.entries + list(b)
                self.vals["y"] = hist_counts(self.entries, self.edges)
            elif k == "fork":
                # continue with a deep copy (as a fit does with the container it is given) and change the values of the ORIGINAL:
                # the copy's uncertainties refer to the copy's own values
                import copy

                orig = c
                self.c = copy.deepcopy(orig)
                self.forked = True
                if self.obj == "indexed":
                    orig.data = val.y_alt
                elif self.obj == "xy":
                    orig.y = val.y_alt
                    orig.x = val.x_alt
                elif not getattr(self, "manual", False):
                    orig.fill(list(FILL1))
                else:
                    orig.set_bins([9.0, 9.0, 9.0, 9.0, 9.0])
            elif k == "setbins":
                h = [7.0, 3.0, 9.0, 1.0, 4.0] if op[1] == 1 else [2.0, 8.0, 5.0, 6.0, 3.0]
                c.set_bins(list(h), underflow=2, overflow=1)
                self.manual = True
                self.vals["y"] = np.array(h, dtype=float)
            elif k == "rebin":
                c.rebin(list(HIST_EDGES2))
                self.edges = HIST_EDGES2
                self.vals["y"] = hist_counts(self.entries, self.edges)
            elif k == "pars":
                p = [1.9, 0.15] if op[1] == 1 else [0.8, 0.4]
                if self.obj == "hist-model":
                    p = [3.4, 1.2] if op[1] == 1 else [2.2, 2.0]
                if self.obj == "indexed-model":
                    p = [1.9, -0.45] if op[1] == 1 else [-0.6, 1.4]
                c.parameters = list(p)
                self.pars = list(p)
                if self.obj == "indexed-model":
                    self.vals["y"] = self.fn(*p)
                elif self.obj == "xy-model":
                    self.vals["y"] = self.fn(self.x, *p)
                else:
                    cdf = ref.normal_cdf(self.edges, *p)
                    self.vals["y"] = cdf[1:] - cdf[:-1]
            else:
                raise ValueError(op)

    def _s(self, name):
        for s in self.sources:
            if s[0] == name:
                return s
        raise KeyError(name)

    # -- reference
    def ref_total(self, ax):
        n = len(self.vals["y"])
        tot = np.zeros((n, n))
        for name, kind, en in self.sources:
            if en and ref.KINDS[kind][0] == ax:
                tot += ref.source_cov(kind, self.val, self.vals[ax])
        return tot

    def read(self, name):
        with warnings.catch_warnings():
            warnings.simplefilter("ignore")
            try:
                v = getattr(self.c, name)
                out = None if v is None else np.array(v, dtype=float)
                # the caller owns what a getter returns: scribbling on it must not reach the container's caches
                if isinstance(v, np.ndarray) and v.flags.writeable and v.size:
                    try:
                        v *= 1.5
                        v += 0.25
                    except Exception:  # noqa: BLE001
                        pass
                return out
            except RecursionError:
                return ("EXC", "RecursionError")
            except Exception as e:  # noqa: BLE001
                return ("EXC", type(e).__name__)

    def check(self, name, act):
        """-> None if fine else (expected, mode)"""
        if name in ("data", "y"):
            exp = self.vals["y"]
            return None if _npclose(act, exp, 1e-12) else (exp, "wrong-value")
        ax = name[0] if self.obj.startswith("xy") else "y"
        what = name[2:] if self.obj.startswith("xy") else name
        tot = self.ref_total(ax)
        if isinstance(act, tuple):
            return (what, "exception:" + act[1])
        n = len(tot)
        if what == "cov_mat":
            exp = tot
            if not _npclose(act, exp, 1e-10):
                return (exp, "wrong-value")
            A = act
            if not np.allclose(A, A.T, rtol=0, atol=1e-13 * max(1.0, np.abs(A).max())):
                return ("symmetric", "asymmetric")
            if np.linalg.eigvalsh(0.5 * (A + A.T))[0] < -1e-10 * max(1e-300, np.trace(A)):
                return ("positive semi-definite", "not-psd")
            return None
        if what == "err":
            exp = np.sqrt(np.diag(tot))
            return None if _npclose(act, exp, 1e-10) else (exp, "wrong-value")
        sig = np.sqrt(np.diag(tot))
        if np.any(sig == 0):
            return None  # cor / inverse undefined
        if what == "cor_mat":
            exp = tot / np.outer(sig, sig)
            return None if _npclose(act, exp, 1e-10) else (exp, "wrong-value")
        if what == "cov_mat_inverse":
            w = np.linalg.eigvalsh(tot)
            if w[0] <= 1e-9 * w[-1]:
                return None  # singular total: documented fallback, excluded
            if act is None:
                return ("inverse", "missing-inverse")
            P = act.dot(tot)
            cond = w[-1] / w[0]
            return None if np.allclose(P, np.eye(n), rtol=0, atol=1e-12 * cond + 1e-10) else ("cov . inverse = 1", "wrong-value")
        raise KeyError(name)


def _npclose(a, b, rtol):
    if a is None or isinstance(a, tuple):
        return False
    a, b = np.asarray(a, dtype=float), np.asarray(b, dtype=float)
    if a.shape != b.shape:
        return False
    scale = max(np.abs(a).max(initial=0.0), np.abs(b).max(initial=0.0))
    d = np.abs(a - b)
    return bool(np.all(d <= rtol * scale + 1e-300)) and not np.any(np.isnan(d))


def _dig(act):
    if act is None or isinstance(act, tuple):
        return act
    return (act.shape, repr(float(np.sum(act))))


def sequences(obj, v, L, kinds, max_adds):
    """All valid mutator sequences of length 1..L (depth first)."""
    out = []

    def rec(prefix):
        if len(prefix) >= L:
            return
        w = CWorld(obj, v)
        try:
            for op in prefix:
                w.apply(op)
        except Exception:  # noqa: BLE001 - reported when the sequence itself is executed
            return
        for op in w.mutators(kinds, max_adds):
            seq = prefix + (op,)
            out.append(seq)
            rec(seq)

    rec(())
    return out


def _interesting(seq):
    """Sequences in which nothing but adds happens after the last add carry no history dependence beyond C01;
    keep every sequence that contains a value change / disable / enable or at least one add."""
    return any(op[0] == "add" for op in seq)


NSHARD = 8


def jobs(tier, seed):
    v = seed % 3
    specs = []
    for obj in ("indexed", "xy", "hist", "indexed-model", "xy-model", "hist-model"):
        if tier == "quick":
            for sh in range(NSHARD):
                specs.append((obj, v, tier, sh))
        else:
            # thorough: length 4 over the quick kind alphabet on one valuation (long jobs first), length 3 over ALL source kinds on all three
            for sh in range(4 * NSHARD):
                specs.append((obj, v, "thorough-L4", sh))
    if tier != "quick":
        for obj in ("indexed", "xy", "hist", "indexed-model", "xy-model", "hist-model"):
            for vv in (0, 1, 2):
                for sh in range(NSHARD):
                    specs.append((obj, vv, "thorough-kinds", sh))
    return specs


def bound(tier, seed):
    if tier == "quick":
        return "mutator sequences of length <= 3 (<= 2 declared sources) starting with each source kind, <= 1 intermediate read at any position, all rotations of the final read order; valuation %d" % (seed % 3)
    return "mutator sequences of length <= 4 (<= 2 declared sources) over the quick source-kind alphabet on valuation %d, and of length <= 3 over ALL source kinds on valuations 0,1,2; <= 1 intermediate read (any observable, any position), all rotations of the final read order" % (seed % 3)


def execute(res, obj, v, seq, inter, rot, record=True):
    """inter: tuple of (position, read name); rot: rotation of the final read order. -> violations (raw)"""
    w = CWorld(obj, v)
    hist = [dict(obj=obj, v=v)]
    reads = w.reads()
    viol = []
    inter_multi = {}
    for p, r in inter:
        inter_multi.setdefault(p, []).append(r)
    for i, op in enumerate(seq):
        hist.append(list(op))
        try:
            w.apply(op)
        except Exception as e:  # noqa: BLE001
            viol.append(("op:" + op[0], "no exception", "%s: %s" % (type(e).__name__, str(e)[:120]), "exception:" + type(e).__name__, list(hist)))
            return viol
        res.transitions += 1
        for r in inter_multi.get(i + 1, []):
            hist.append(["read", r])
            act = w.read(r)
            bad = w.check(r, act)
            res.evaluations += 1
            if bad:
                viol.append((r, bad[0], act, bad[1], list(hist)))
                return viol
    order = reads[rot:] + reads[:rot]
    for r in order:
        hist.append(["read", r])
        act = w.read(r)
        res.evaluations += 1
        if record:
            res.observe((obj, v, seq, inter, rot, r, _dig(act)))
        bad = w.check(r, act)
        res.outcomes[(obj, r, "ok" if not bad else bad[1])] += 1
        if bad:
            viol.append((r, bad[0], act, bad[1], list(hist)))
            break
    res.executions += 1
    return viol


def run_job(spec):
    obj, v, tier, shard = spec
    res = JobResult()
    L = 4 if tier == "thorough-L4" else 3
    kinds = (KINDS_BY_OBJ if tier == "thorough-kinds" else QUICK_KINDS)[obj]
    nshard = 4 * NSHARD if tier == "thorough-L4" else NSHARD
    allseqs = [s for s in sequences(obj, v, L, kinds, 2) if _interesting(s)]
    seqs = [s for i, s in enumerate(allseqs) if i % nshard == shard]
    nreads = len(CWorld(obj, v).reads())
    rd = CWorld(obj, v).reads()
    for seq in seqs:
        if not _interesting(seq):
            continue
        nontrivial = any(op[0] not in ("add",) for op in seq)
        for rot in range(nreads):
            _report(res, obj, v, seq, (), rot, execute(res, obj, v, seq, (), rot))
        for pos in range(1, len(seq)):
            for r1 in rd:
                for rot in range(nreads):
                    _report(res, obj, v, seq, ((pos, r1),), rot, execute(res, obj, v, seq, ((pos, r1),), rot))
        res.state((obj, v, seq))
        if nontrivial:
            res.nontriv((obj, v, seq))
        res.facts["seq:" + obj] += 1
        for op in seq:
            res.facts["op:%s:%s" % (obj, op[0] if op[0] != "around" else op[2][0])] += 1
    res.sample(dict(object=obj, valuation=v, shard=shard, sequences=len(seqs), example=[list(o) for o in (seqs[len(seqs) // 2] if seqs else ())]))
    return res.as_dict()


def _report(res, obj, v, seq, inter, rot, raw):
    for obs, exp, act, mode, hist in raw:
        ops = ";".join(":".join(str(x) for x in h) for h in hist[1:])
        sig = "%s|%s" % (obj, ops)
        res.violation(sig, hist, obs, exp, act, mode)


def replay(history):
    head = history[0]
    w = CWorld(head["obj"], head["v"])
    out = []
    for op in history[1:]:
        op = tuple(op)
        if op[0] == "read":
            act = w.read(op[1])
            bad = w.check(op[1], act)
            if bad:
                out.append(dict(observable=op[1], expected=bad[0], actual=act, mode=bad[1]))
        else:
            try:
                w.apply(op)
            except Exception as e:  # noqa: BLE001
                return [dict(observable="op:" + op[0], expected="no exception", actual=type(e).__name__, mode="exception:" + type(e).__name__)]
    return out


def triage_key(v):
    ops = [o.split(":")[0] + (":" + o.split(":")[1] if o.split(":")[0] in ("add",) else "") for o in v["sig"].split("|")[1].split(";")]
    kinds = sorted(set(o for o in ops if o.startswith("add")))
    muts = sorted(set(o for o in ops if not o.startswith("add") and o != "read"))
    return (v["sig"].split("|")[0], v["observable"], v["mode"], tuple(kinds), tuple(muts))


def vacuity_guards(tot, tier):
    for obj in ("indexed", "xy", "hist", "indexed-model", "xy-model", "hist-model"):
        yield "object class %s explored" % obj, tot.facts.get("seq:" + obj, 0) > 0
    yield "value changes explored on every class", all(
        any(tot.facts.get("op:%s:%s" % (o, k), 0) > 0 for k in ("data", "x", "y", "fill", "pars")) for o in ("indexed", "xy", "hist", "indexed-model", "xy-model", "hist-model")
    )
