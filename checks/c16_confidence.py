"""C16 - confidence level / sigma conversions are exact inverses matching chi2 quantiles.

Mode D (dense grids / complete products), three families of jobs:

conv     for every dimension n in 1..8: sigma on the uniform grid 0.01, 0.02 ... 8.00 and CL on a 2000-point grid that is
         uniform in logit space.  Reference: cl = P(n/2, sigma^2/2) (regularised lower incomplete gamma function) from mpmath
         with 30 digits - not scipy's gammaincc / gammainccinv which the code calls.
profile  a small fitted XYFit (model linear in its parameters, y-uncertainties only, so that the profile cost is an exact
         parabola with a closed form) on both minimizer backends: the complete product of interval specifications (central CL,
         one-sided CL next to a given lower / upper bound, given bounds only, the `sigma` half width alone and next to each
         of them) x subtract_min x arrows x parameter; the arrow specifications returned next to the profile are compared with
         min cost + sigma_i^2 and the outside probability, and the profiled interval itself (first / last abscissa and the cost
         there) with the interval the specification describes: sigma(cl) for a central level, sigma(2 cl - 1) on the open side of
         a one-sided one, the given bounds, +- sigma; the public ContoursProfiler.get_profile has to span the same interval.
pplot    the PLOTTING entry point of the same product: ContoursProfiler.plot_profile(parameter, low / high / sigma / cl) for every
         interval specification x profile_subtract_min x parameter on both backends.  What was drawn is read back from the
         matplotlib figure (the profile line, the pairs of arrows and the percentage written next to each of them) and judged with
         the same closed forms as the arrow specifications of `profile`; the drawn line must contain the interval the
         specification describes and the interval get_profile returns for the same request (and be that interval when nothing
         is marked).
cplot    plot_contours for every parameter pair x naming convention and plot_profiles_contours_matrix (lower triangle / full
         matrix) on the iminuit backend: the filled polygons are compared with the exact ellipse at each sigma, the legend labels
         with sigma resp. 100 (1 - exp(-sigma^2/2)) %, the profiles on the diagonal with get_profile without arguments.
contour  ContoursProfiler.get_contours on the iminuit backend for every parameter pair and a list of sigma values; the `cl`
         keyword that reaches iminuit.Minuit.mncontour is observed by a spy wrapper installed from outside (no hook in kafe2),
         and the returned contour points are compared with the exact ellipse of the linear problem.
scontour the same on the scipy backend for every contour algorithm that contour_method_kwargs can select: the heuristic grid
         (level line `sigma` of the returned sqrt(cost rise) grid, extracted with contourpy) and 'beacon' (returned points).  One
         complete beacon walk costs 10 - 30 s, so it runs in the thorough tier only; the quick tier (and the thorough tier for all
         pairs and sigmas) observes the point the walk starts from - the root scipy.optimize.brentq hands back to kafe2, seen by
         a spy wrapper that then abandons the computation - and compares its cost rise with sigma^2.
"""
import math
import re
import warnings

import numpy as np

from kmc.core import JobResult

PROPERTY = "C16"
RULE = (
    "cases = (dimension n, grid point) for the conversions (sigma grid 0.01..8.00 step 0.01; 2000 CL values uniform in logit "
    "space between logit -30 and +30), (backend, model, parameter, interval specification, subtract_min, arrows) for the arrow "
    "specifications and the profiled interval of profile(), (backend, model, parameter, interval specification, profile_subtract_min) for what plot_profile draws, (model, pair, naming convention | matrix layout) for what plot_contours / plot_profiles_contours_matrix draw, (backend, contour algorithm, model, parameter pair, sigma) for the contour level; every case is executed on the real "
    "classes; non-trivial = the reference value is strictly inside (0, 1) and differs from its grid neighbours / the arrow "
    "list is non-empty or an end of the profiled interval is determined / mncontour was reached / a level line or start point was obtained"
)
ASSUMPTIONS = [
    "conversion values are compared absolutely in probability (1e-13): cl is computed by kafe2 as 1 - Q, so tiny confidence levels carry the absolute resolution of a double near 1",
    "round trips are judged in the well-conditioned direction: sigma -> cl -> sigma is accepted within 1e-13 * dsigma/dCL (at 8 sigma in one dimension 1 - CL is ~1e-15 and the round trip is skipped as vacuous); strict monotonicity is demanded where adjacent reference values differ by more than 1e-14, monotonicity (<=) everywhere",
    "arrow positions and heights are compared with the closed form of a model that is linear in its parameters with y-uncertainties only (exact parabola); the minimum cost and the parameter value are read from the fit itself",
    "the contour level is checked on the iminuit backend through a spy on Minuit.mncontour and the geometry of the returned points, on the scipy backend through the geometry only (mean cost rise on the level line / the returned points / the start point of the beacon walk = sigma^2; the 17 x 17 heuristic grid of the quick tier locates its line to 3 %, tolerance 10 %)",
    "the complete 'beacon' walk (10 - 30 s per contour) is executed in the thorough tier only, for the first parameter pair and 3 sigma values; elsewhere the algorithm is observed at its start point (root returned by scipy.optimize.brentq) and then abandoned by an exception raised from the spy",
    "the profiled interval is compared exactly only when no margin for arrows is requested (arrows=False); with arrows=True it must contain the specified interval and every arrow. A side for which none of low / high / cl / sigma is given has an undocumented default width and is not judged. `sigma` is taken in units of the uncertainty the fit reports",
    "with subtract_min=True the iminuit backend subtracts the smallest value of the scan (iminuit's mnprofile semantics), not the cost at the optimum: the cost at the two ends of a profile is then judged through their difference only",
    "x_margin of an arrow specification is a plotting aid and not compared",
    "profile() is reached as fit._fitter.profile(...), the call ContoursProfiler makes: no public accessor returns the arrow specifications",
    "drawn figures are read through matplotlib's artists: the line labelled 'profile ...', FancyArrowPatch end points (matplotlib keeps them in _posA_posB), the texts of the form '$<number>\\%$' (two decimals, so the outside probability is compared within 5.1e-5), Polygon vertices of filled contours, legend labels; tick labels, the parabolic approximation and the text that repeats the parameter value are layout and not compared",
    "contour plots are read on the iminuit backend only (a scipy grid contour costs 5 s; its level is covered by the scontour family)",
]

# ----------------------------------------------------------------------------------------------------------------------
# tolerances (measured on the unchanged tree, see the calibration notes next to each)
TOL_CL = 1e-13  # |cl_code(sigma) - P_ref| : measured worst 4.3e-15 (n = 1, gammaincc(0.5, .)) over 6400 grid points
TOL_INV = 1e-13  # |P_ref(sigma_code(cl)) - cl| : measured worst 4.2e-15 over 16000 grid points
TOL_RT = 1e-13  # |cl_code(sigma_code(cl)) - cl| : measured worst 3.1e-15
TOL_SRT_CL = 1e-13  # sigma round trip, expressed as an error in cl: measured worst 2.2e-15
TOL_SRT_REL = 1e-12  # plus this relative part
TOL_DNLL = 4e-15  # delta_nll == sigma^2, relative: measured worst 2.2e-16 (one rounding)
STRICT_GAP = 1e-14  # adjacent reference values that differ by more than this must map to strictly ordered results
TOL_ARROW_CONV = 1e-11  # arrow y - (min + sigma_ref^2) relative to max(1, sigma^2): pure conversion, measured 4e-15
TOL_ARROW_CL = 1e-12  # arrow 'cl' against the outside probability: measured 0 (same arithmetic)
TOL_ARROW_X = 2e-3  # arrow x against the exact parabola, in units of the parameter uncertainty: measured worst 9.3e-6 (3 valuations, both backends)
TOL_ARROW_COST = 1e-4  # cost at a user-given bound against the exact parabola, relative to max(1, rise): measured worst 8.6e-11
TOL_RANGE_COST = 1e-4  # cost at the two ends of a profile against the exact parabola, relative to max(1, rise): measured worst 1.1e-5 (iminuit), 4.8e-7 (scipy) over all 27 specifications x 3 valuations x all parameters; the ends themselves: 9.3e-6 uncertainties (cl), 0 (given bounds, sigma)
TOL_CONTOUR_CL = 1e-13  # cl keyword against 1 - exp(-sigma^2/2): measured 1.1e-16
TOL_CONTOUR_START = 1e-5  # (rise at the start point of the beacon walk) / sigma^2 - 1: measured worst 9.2e-9 (brentq + constrained SLSQP)
TOL_CONTOUR_GRID3 = 0.10  # level line of the 3-step heuristic grid (coarse, strongly correlated pair a-b of quad): measured worst 0.031; 5-step default 0.0004
TOL_CONTOUR_GEOM = 0.05  # mean of (d^T C^-1 d) / sigma^2 over the contour points: measured within 0.002 of 1 (single points scatter by 4 %: mncontour tolerance)

SIGMA_GRID_N = 800
CL_GRID_N = 2000
LOGIT_MAX = 30.0
NDIMS = list(range(1, 9))


def _mp():
    import mpmath

    mpmath.mp.dps = 30
    return mpmath


def ref_cl(n, sigma):
    mp = _mp()
    return mp.gammainc(mp.mpf(n) / 2, 0, mp.mpf(sigma) ** 2 / 2, regularized=True)


def ref_dcl_dsigma(n, sigma):
    mp = _mp()
    s = mp.mpf(sigma)
    return s ** (n - 1) * mp.exp(-s * s / 2) / (mp.mpf(2) ** (mp.mpf(n) / 2 - 1) * mp.gamma(mp.mpf(n) / 2))


def ref_sigma_1d(cl):
    """1-d sigma of a central interval of probability cl (mpmath, independent of scipy)."""
    mp = _mp()
    return float(mp.sqrt(2) * mp.erfinv(mp.mpf(cl)))


def sigma_grid():
    return [i * 0.01 for i in range(1, SIGMA_GRID_N + 1)]


def cl_grid():
    out = []
    for i in range(CL_GRID_N):
        t = -LOGIT_MAX + 2.0 * LOGIT_MAX * i / (CL_GRID_N - 1)
        c = 1.0 / (1.0 + math.exp(-t)) if t < 0 else 1.0 - 1.0 / (1.0 + math.exp(t))
        out.append(c)
    return out


# ----------------------------------------------------------------------------------------------------------------------
# fitted problems for profile / contour


def lin(x, a=1.0, b=0.5):
    return a * x + b


def quad(x, a=0.1, b=0.8, c=0.5):
    return a * x * x + b * x + c


MODELS = {"lin": (lin, ["a", "b"], [1, 0]), "quad": (quad, ["a", "b", "c"], [2, 1, 0])}
_X = np.array([0.5, 1.3, 2.1, 3.4, 4.2, 5.5, 6.1, 7.3])
_NOISE = np.array([0.62, -1.10, 0.35, 1.25, -0.48, -0.92, 1.05, -0.15])
_NOISE = _NOISE - _NOISE.mean()


def problem(model, v):
    v = int(v) % 3
    fn, names, powers = MODELS[model]
    x = _X + 0.1 * v
    truth = {"lin": [0.9 + 0.2 * v, 0.7 - 0.3 * v], "quad": [0.04 + 0.02 * v, 0.6 + 0.1 * v, 1.1 - 0.2 * v]}[model]
    ey = 0.30 + 0.05 * v
    y = fn(x, *truth) + ey * (1.0 + 0.1 * v) * _NOISE
    A = np.stack([x**k for k in powers], axis=1)
    cov = np.linalg.inv(A.T.dot(A) / ey**2)
    phat = cov.dot(A.T.dot(y) / ey**2)
    return dict(fn=fn, names=names, x=x, y=y, ey=ey, cov=cov, phat=phat)


def build_fit(model, v, backend):
    import kafe2

    p = problem(model, v)
    with warnings.catch_warnings():
        warnings.simplefilter("ignore")
        fit = kafe2.XYFit([p["x"], p["y"]], p["fn"], minimizer=backend)
        fit.add_error("y", p["ey"])
        fit.do_fit()
    return fit, p


# interval specifications: bounds are given in units of the (reference) parameter uncertainty below / above the optimum.
# A specification is (kind, arguments...) with kind = the '+'-joined list of the keywords it passes on:
#   central / cl -> list of confidence levels, low / high -> one distance, lows / highs -> list of distances, sigma -> number
SPECS_QUICK = [
    ("central", [0.6827]),
    ("central", [0.9]),
    ("central", [0.9, 0.95, 0.99]),
    ("low+cl", 1.1, [0.9]),
    ("low+cl", 0.6, [0.95, 0.99]),
    ("high+cl", 1.3, [0.9]),
    ("high+cl", 0.7, [0.8, 0.975]),
    ("low", 1.7),
    ("high", 2.2),
    ("low+high", 1.2, 2.4),
    ("lows", [0.8, 1.9]),
    # the `sigma` keyword (half width of the profiled interval in standard deviations) alone and next to the others
    ("sigma", 1.0),
    ("sigma", 2.5),
    ("sigma+cl", 0.8, [0.9]),
    ("sigma+cl", 2.5, [0.9]),
    ("sigma+low", 1.0, 1.7),
]
SPECS_MORE = [
    ("central", [0.5]),
    ("central", [0.9545, 0.9973]),
    ("low+cl", 2.0, [0.6, 0.9, 0.999]),
    ("high+cl", 2.1, [0.55, 0.9]),
    ("low+high", 0.5, 0.4),
    ("highs", [0.3, 1.1, 2.6]),
    ("sigma", 0.3),
    ("sigma+cl", 1.0, [0.6827, 0.9973]),
    ("sigma+high", 1.5, 2.2),
    ("sigma+low+cl", 1.0, 2.0, [0.9]),
    ("sigma+high+cl", 1.5, 2.2, [0.8]),
]


def spec_parts(spec):
    """-> dict(sigma, lows, highs, cls, low_list, high_list); entries that the specification does not pass on are None"""
    parts = dict(sigma=None, lows=None, highs=None, cls=None, low_list=False, high_list=False)
    args = list(spec[1:])
    for key in spec[0].split("+"):
        a = args.pop(0)
        if key == "sigma":
            parts["sigma"] = float(a)
        elif key in ("low", "lows"):
            parts["lows"], parts["low_list"] = ([float(t) for t in a], True) if key == "lows" else ([float(a)], False)
        elif key in ("high", "highs"):
            parts["highs"], parts["high_list"] = ([float(t) for t in a], True) if key == "highs" else ([float(a)], False)
        elif key in ("central", "cl"):
            parts["cls"] = [float(t) for t in a]
        else:
            raise ValueError(spec)
    if args:
        raise ValueError(spec)
    return parts


def spec_kwargs(spec, center, err):
    q = spec_parts(spec)
    kw = {}
    if q["sigma"] is not None:
        kw["sigma"] = q["sigma"]
    if q["lows"] is not None:
        vals = [center - d * err for d in q["lows"]]
        kw["low"] = vals if q["low_list"] else vals[0]
    if q["highs"] is not None:
        vals = [center + d * err for d in q["highs"]]
        kw["high"] = vals if q["high_list"] else vals[0]
    if q["cls"] is not None:
        kw["cl"] = list(q["cls"]) if len(q["cls"]) > 1 else q["cls"][0]
    return kw


def expected_arrows(spec, arrows):
    """-> list of (side, kind, payload): kind 'cl' -> payload (sigma_ref, outside probability); kind 'at' -> payload d
    (distance of the user-given bound from the optimum in units of the reference uncertainty).
    Follows the documentation of ContoursProfiler.plot_profile: with a bound given, cl is the level of a one-sided interval
    (outside probability 1 - cl, cost rise that of the central interval of level 2 cl - 1); without bounds cl is central
    (outside probability (1 - cl) / 2 on each side).  With arrows=True, a bound given and no cl the levels default to
    90, 95, 99 %.  `sigma` widens the profiled interval only and marks nothing."""
    q = spec_parts(spec)
    out = []
    if q["lows"] is None and q["highs"] is None and q["cls"] is None:
        return out
    cls = q["cls"] if q["cls"] is not None else ([0.90, 0.95, 0.99] if arrows else [])
    one_sided = q["lows"] is not None or q["highs"] is not None
    for side, given in (("left", q["lows"]), ("right", q["highs"])):
        if given is not None:
            for d in given:
                out.append((side, "at", d))
        else:
            for c in cls:
                out.append((side, "cl", (ref_sigma_1d(2 * c - 1), 1 - c) if one_sided else (ref_sigma_1d(c), (1 - c) / 2)))
    return out


def expected_range(spec, o):
    """The interval that profile() has to span when no margin for drawing arrows is requested (arrows=False), following the
    documentation of ContoursProfiler.get_profile: `low` / `high` are the bounds, `cl` is 'the confidence level of the profiled
    region' (central without a bound, one-sided next to a given bound), `sigma` is the 'number of std deviations to deviate at
    least from the optimal value in either direction'.
    -> [(x_left, tolerance) or None, (x_right, tolerance) or None]; None = this end is not determined by the specification
    (a side without any of low / high / cl / sigma gets an undocumented default width)."""
    q = spec_parts(spec)
    one_sided = q["lows"] is not None or q["highs"] is not None
    ends = []
    for sign, given in ((-1.0, q["lows"]), (1.0, q["highs"])):
        cand = []
        if given is not None:
            cand.append((o["center"] + sign * max(given) * o["ref_err"], 1e-9 * o["ref_err"]))
        elif q["cls"] is not None:
            c = max(q["cls"])
            s_ref = ref_sigma_1d(2 * c - 1) if one_sided else ref_sigma_1d(c)
            cand.append((o["ref_center"] + sign * s_ref * o["ref_err"], TOL_ARROW_X * o["ref_err"]))
        if q["sigma"] is not None:
            # in units of the uncertainty the fit itself reports (numerical on the scipy backend)
            cand.append((o["center"] + sign * q["sigma"] * o["err"], 1e-9 * o["ref_err"]))
        if not cand:
            ends.append(None)
        else:
            x = max(sign * t[0] for t in cand) * sign  # the outermost one
            ends.append((x, max(t[1] for t in cand)))
    return ends


# ----------------------------------------------------------------------------------------------------------------------
# jobs


def jobs(tier, seed):
    v = seed % 3
    vals = [v] if tier == "quick" else [0, 1, 2]
    specs = [("conv", n, tier) for n in NDIMS]
    specs.append(("const", 0, tier))
    for n in (1, 2, 3, 5):
        specs.append(("setters", n, tier))
    for vv in vals:
        for backend in ("iminuit", "scipy"):
            for model in ("lin", "quad"):
                names = MODELS[model][1]
                pars = names if tier == "thorough" else ([names[0], names[-1]] if model == "lin" else [names[1]])
                nchunk = 5 if backend == "scipy" else 1
                for par in pars:
                    for sm in (False, True):
                        for arrows in (True, False):
                            for chunk in range(nchunk):
                                specs.append(("profile", backend, model, vv, par, sm, arrows, chunk, nchunk, tier))
                    # what plot_profile draws for the same specifications (scipy, quick tier: first parameter, the profiler's default subtract_min)
                    if backend == "scipy" and tier == "quick" and par != pars[0]:
                        continue
                    for sm in (True, False) if (backend == "iminuit" or tier == "thorough") else (True,):
                        nplot = 4 if backend == "scipy" else 1
                        for chunk in range(nplot):
                            specs.append(("pplot", backend, model, vv, par, sm, chunk, nplot, tier))
        for model in ("lin", "quad"):
            specs.append(("contour", model, vv, tier))
            specs.append(("cplot", model, vv, "contours", tier))
            specs.append(("cplot", model, vv, "matrix", tier))
            npairs = len(_pairs(model))
            # scipy backend: the default grid algorithm per parameter pair, the start of the beacon walk for all pairs in one job
            for k in range(npairs):
                specs.append(("scontour", "grid3", model, vv, (k,), tuple(_scontour_sigmas("grid3", tier)), tier))
            specs.append(("scontour", "beacon-start", model, vv, tuple(range(npairs)), tuple(_scontour_sigmas("beacon-start", tier)), tier))
            if tier == "thorough":
                for k in range(npairs):
                    specs.append(("scontour", "grid-default", model, vv, (k,), tuple(_scontour_sigmas("grid-default", tier)), tier))
                specs.append(("scontour", "grid-explicit", model, vv, (0,), tuple(_scontour_sigmas("grid-explicit", tier)), tier))
                # the complete beacon walk costs 10 - 30 s per contour: first pair (lin: and its transpose), one job per sigma
                for k in [0] + ([npairs - 1] if model == "lin" else []):
                    for sg in _scontour_sigmas("beacon", tier):
                        specs.append(("scontour", "beacon", model, vv, (k,), (sg,), tier))
    # heavy (scipy) jobs first; job 0 (re-run for the determinism check) is a light one that fits and profiles
    specs.sort(key=lambda s: 0 if (s[0] == "scontour" and s[1] == "beacon") else 1 if (s[0] in ("profile", "pplot") and s[1] == "scipy") else 2 if s[0] == "scontour" else 3)
    k = [i for i, s in enumerate(specs) if s[0] == "profile" and s[1] == "iminuit"][0]
    specs.insert(0, specs.pop(k))
    return specs


DETCHECK_JOB = 0


def bound(tier, seed):
    return (
        "conversions: n = 1..8 x 800 sigma values (0.01..8.00) x 2000 CL values (logit -30..30), all enumerated; "
        "profile arrows: 2 backends x models {lin, quad} x %s x %d interval specifications x subtract_min {F,T} x arrows {F,T}; "
        "profiled interval [x_first, x_last] and the cost at both ends for every one of these cases, public get_profile on iminuit; "
        "plot_profile: the same backends x models x parameters x interval specifications x profile_subtract_min %s (line, arrows and percentages read from the figure, get_profile for the same request); "
        "plot_contours: iminuit, all parameter pairs x naming {sigma, cl} x %d sigma values, plot_profiles_contours_matrix {lower triangle, full} (quick tier, quad: naming alternates over the pairs, lower triangle only); "
        "contour: iminuit, all parameter pairs of both models x %d sigma values; scipy: heuristic grid with 3 refinement steps x all pairs x %d sigma values, "
        "start point of the beacon walk x all pairs x %d sigma values%s; valuation(s) %s"
        % (
            "all parameters" if tier == "thorough" else "parameters {a, b} of lin and {b} of quad",
            len(SPECS_QUICK) + (len(SPECS_MORE) if tier == "thorough" else 0),
            "{F,T}" if tier == "thorough" else "{F,T} (scipy: first parameter, T = the default)",
            len(_cplot_sigmas(tier)),
            len(_contour_sigmas(tier)),
            len(_scontour_sigmas("grid3", tier)),
            len(_scontour_sigmas("beacon-start", tier)),
            ", heuristic grid with default settings x all pairs x 4 sigma values (algorithm named explicitly: first pair), complete beacon walk x first pair x 3 sigma values" if tier == "thorough" else " (complete beacon walk: thorough tier only)",
            (seed % 3) if tier == "quick" else "0,1,2",
        )
    )


def _contour_sigmas(tier):
    return [0.5, 1.0, 1.5, 2.0, 2.5, 3.0] if tier == "quick" else [0.25 * i for i in range(1, 17)]


# ----------------------------------------------------------------------------------------------------------------------
# conversions


class _First(object):
    """Report only the first (smallest input) failing grid point per check, count the others."""

    def __init__(self, res, n):
        self.res, self.n, self.seen = res, n, set()

    def fail(self, check, hist, expected, actual, mode="wrong-value"):
        self.res.facts["conv-failures:" + check] += 1
        self.res.outcomes[("conv", check, "MISMATCH")] += 1
        if check in self.seen:
            return
        self.seen.add(check)
        self.res.violation("conv|n=%d|%s" % (self.n, check), hist, check, expected, actual, mode)


def conv_case(n, what, xval):
    """Execute one conversion on the real class. -> dict of observables (floats) or {'exc': name}."""
    from kafe2.core.confidence import ConfidenceLevel

    try:
        if what == "sigma":
            o = ConfidenceLevel(n_dimensions=n, sigma=xval)
            cl = o.cl
            out = dict(cl=float(cl), delta_nll=float(o.delta_nll), sigma=float(o.sigma))
            if 0.0 < cl < 1.0:
                out["sigma_back"] = float(ConfidenceLevel(n_dimensions=n, cl=cl).sigma)
            o2 = ConfidenceLevel(n_dimensions=n, delta_nll=xval * xval)
            out["cl_via_delta_nll"] = float(o2.cl)
            out["sigma_via_delta_nll"] = float(o2.sigma)
            return out
        if what == "cl":
            o = ConfidenceLevel(n_dimensions=n, cl=xval)
            s = o.sigma
            out = dict(sigma=float(s), delta_nll=float(o.delta_nll), cl=float(o.cl))
            if s > 0 and np.isfinite(s):
                out["cl_back"] = float(ConfidenceLevel(n_dimensions=n, sigma=s).cl)
            return out
    except Exception as e:  # noqa: BLE001
        return dict(exc=type(e).__name__ + ": " + str(e)[:100])
    raise ValueError(what)


def judge_sigma_point(n, s, obs, ref=None):
    """-> list of (check, expected, actual).  ref = mp value of P(n/2, s^2/2) (computed when None)."""
    mp = _mp()
    if "exc" in obs:
        return [("cl_from_sigma:exception", "no exception", obs["exc"])]
    ref = ref_cl(n, s) if ref is None else ref
    bad = []
    if not abs(mp.mpf(obs["cl"]) - ref) <= TOL_CL:
        bad.append(("cl_from_sigma", float(ref), obs["cl"]))
    if not (0.0 <= obs["cl"] <= 1.0):
        bad.append(("cl_from_sigma:range", "[0, 1]", obs["cl"]))
    if not abs(obs["delta_nll"] - s * s) <= TOL_DNLL * s * s:
        bad.append(("delta_nll_from_sigma", s * s, obs["delta_nll"]))
    if not obs["sigma"] == s:
        bad.append(("sigma_kept", s, obs["sigma"]))
    if not abs(obs["sigma_via_delta_nll"] - s) <= TOL_DNLL * s:
        bad.append(("sigma_from_delta_nll", s, obs["sigma_via_delta_nll"]))
    if not abs(mp.mpf(obs["cl_via_delta_nll"]) - ref) <= TOL_CL:
        bad.append(("cl_from_delta_nll", float(ref), obs["cl_via_delta_nll"]))
    # round trip in the well-conditioned sense
    tol = float(TOL_SRT_CL / ref_dcl_dsigma(n, s)) + TOL_SRT_REL * s
    if tol < 0.1 * s:
        if "sigma_back" not in obs:
            bad.append(("sigma_roundtrip", s, "cl outside (0, 1): %r" % obs["cl"]))
        elif not abs(obs["sigma_back"] - s) <= tol:
            bad.append(("sigma_roundtrip", s, obs["sigma_back"]))
    return bad


def judge_cl_point(n, c, obs):
    mp = _mp()
    if "exc" in obs:
        return [("sigma_from_cl:exception", "no exception", obs["exc"])]
    bad = []
    s = obs["sigma"]
    if not (s > 0 and np.isfinite(s)):
        return [("sigma_from_cl:range", "> 0 and finite", s)]
    r = ref_cl(n, s)
    if not abs(r - mp.mpf(c)) <= TOL_INV:
        bad.append(("sigma_from_cl", "P_ref(sigma) = %r" % c, "sigma=%r P_ref(sigma)=%r" % (s, float(r))))
    if not obs["cl"] == c:
        bad.append(("cl_kept", c, obs["cl"]))
    if not abs(obs["cl_back"] - c) <= TOL_RT:
        bad.append(("cl_roundtrip", c, obs["cl_back"]))
    if not abs(obs["delta_nll"] - s * s) <= TOL_DNLL * s * s:
        bad.append(("delta_nll_from_cl", s * s, obs["delta_nll"]))
    return bad


def run_conv(res, n):
    first = _First(res, n)
    mp = _mp()
    # ---- sigma grid
    prev = None
    for i, s in enumerate(sigma_grid()):
        obs = conv_case(n, "sigma", s)
        res.executions += 1
        res.transitions += 5
        res.state(("s", n, i))
        r = ref_cl(n, s)
        bad = judge_sigma_point(n, s, obs, r)
        res.evaluations += 7
        res.observe(("s", n, i, sorted(obs.items())))
        hist = dict(kind="conv", n=n, what="sigma", x=s)
        for check, exp, act in bad:
            first.fail(check, hist, exp, act, "exception" if check.endswith(":exception") else "wrong-value")
        if "exc" not in obs:
            if prev is not None:
                ps, pr, pc = prev
                res.evaluations += 1
                if r - pr > STRICT_GAP:
                    res.facts["strict-pairs:sigma"] += 1
                    if not obs["cl"] > pc:
                        first.fail("cl_strictly_increasing", dict(kind="conv", n=n, what="sigma-pair", x=[ps, s]), "cl(%r) < cl(%r)" % (ps, s), [pc, obs["cl"]])
                elif not obs["cl"] >= pc:
                    first.fail("cl_increasing", dict(kind="conv", n=n, what="sigma-pair", x=[ps, s]), "cl(%r) <= cl(%r)" % (ps, s), [pc, obs["cl"]])
            prev = (s, r, obs["cl"])
            if 0 < r < 1 and float(r) > 1e-13 and float(1 - r) > 1e-13:
                res.nontriv(("s", n, i))
            tol = float(TOL_SRT_CL / ref_dcl_dsigma(n, s)) + TOL_SRT_REL * s
            res.facts["sigma-roundtrip:" + ("judged" if tol < 0.1 * s else "ill-conditioned-skipped")] += 1
        if not bad:
            res.outcomes[("conv", "sigma-grid", "n=%d" % n, "ok")] += 1
    # ---- cl grid
    prev = None
    for j, c in enumerate(cl_grid()):
        obs = conv_case(n, "cl", c)
        res.executions += 1
        res.transitions += 4
        res.state(("c", n, j))
        bad = judge_cl_point(n, c, obs)
        res.evaluations += 5
        res.observe(("c", n, j, sorted(obs.items())))
        hist = dict(kind="conv", n=n, what="cl", x=c)
        for check, exp, act in bad:
            first.fail(check, hist, exp, act, "exception" if check.endswith(":exception") else "wrong-value")
        if "exc" not in obs:
            if prev is not None:
                pc, psig = prev
                res.evaluations += 1
                if c > pc:
                    res.facts["strict-pairs:cl"] += 1
                    if not obs["sigma"] > psig:
                        first.fail("sigma_strictly_increasing", dict(kind="conv", n=n, what="cl-pair", x=[pc, c]), "sigma(%r) < sigma(%r)" % (pc, c), [psig, obs["sigma"]])
            prev = (c, obs["sigma"])
            res.nontriv(("c", n, j))
        if not bad:
            res.outcomes[("conv", "cl-grid", "n=%d" % n, "ok")] += 1
    res.sample(dict(kind="conv", n=n, sigma_points=SIGMA_GRID_N, cl_points=CL_GRID_N, example=dict(sigma=1.0, cl=conv_case(n, "sigma", 1.0).get("cl"))))
    res.facts["conv-dims"] += 1


# ---- tabulated constants, 2-d closed form, dimension dependence


def const_cases():
    cases = [("table", 1, 1.0, 68.27), ("table", 1, 2.0, 95.45), ("table", 1, 3.0, 99.73)]
    for i in range(1, SIGMA_GRID_N + 1):
        cases.append(("2d", 2, i * 0.01, None))
        cases.append(("1d", 1, i * 0.01, None))
    for i in (25, 50, 100, 150, 200, 300, 400, 500):
        cases.append(("dim", None, i * 0.01, None))
    return cases


def judge_const(case):
    """-> (bad list, observation)"""
    from kafe2.core.confidence import ConfidenceLevel

    kind, n, s, tab = case
    bad = []
    if kind == "table":
        cl = ConfidenceLevel(n_dimensions=1, sigma=s).cl
        obs = cl
        if round(100.0 * cl, 2) != tab:
            bad.append(("table:cl(%g sigma)" % s, tab, 100.0 * cl))
        s_back = ConfidenceLevel(n_dimensions=1, cl=tab / 100.0).sigma
        if not abs(s_back - s) < 5e-4:  # the tabulated percentages are rounded to 4 digits
            bad.append(("table:sigma(%g %%)" % tab, s, s_back))
        d = ConfidenceLevel(cl=tab / 100.0).sigma  # default dimension is 1
        if d != s_back:
            bad.append(("table:default-dimension", s_back, d))
    elif kind == "2d":
        cl = ConfidenceLevel(n_dimensions=2, sigma=s).cl
        obs = cl
        exp = -math.expm1(-0.5 * s * s)
        if not abs(cl - exp) <= TOL_CL:
            bad.append(("contour_cl_2d", exp, cl))
    elif kind == "1d":
        cl = ConfidenceLevel(n_dimensions=1, sigma=s).cl
        obs = cl
        exp = math.erf(s / math.sqrt(2.0))
        if not abs(cl - exp) <= TOL_CL:
            bad.append(("cl_1d_erf", exp, cl))
    else:
        cls = [ConfidenceLevel(n_dimensions=m, sigma=s).cl for m in NDIMS]
        obs = cls
        for m in range(len(cls) - 1):
            if not cls[m] > cls[m + 1]:
                bad.append(("dimension_dependence", "cl(n=%d) > cl(n=%d) at sigma=%g" % (m + 1, m + 2, s), [cls[m], cls[m + 1]]))
    return bad, obs


def run_const(res):
    seen = set()
    for case in const_cases():
        bad, obs = judge_const(case)
        res.executions += 1
        res.transitions += 1 if case[0] != "dim" else len(NDIMS)
        res.evaluations += 1
        res.state(("const",) + tuple(case[:3]))
        res.nontriv(("const",) + tuple(case[:3]))
        res.observe(("const", case, obs))
        res.outcomes[("const", case[0], "MISMATCH" if bad else "ok")] += 1
        for check, exp, act in bad:
            key = check.split("(")[0]
            if key in seen:
                continue
            seen.add(key)
            res.violation("const|" + check, dict(kind="const", case=list(case)), check, exp, act, "wrong-value")
    res.sample(dict(kind="const", table=[[1, 68.27], [2, 95.45], [3, 99.73]]))
    res.facts["const-cases"] += len(const_cases())


# ----------------------------------------------------------------------------------------------------------------------
# one object re-used: every sequence of assignments (sigma / cl / delta_nll) and reads; the conversion must always start from
# the quantity assigned last (a cached value of the other representation must not survive an assignment)

SETTER_OPS = [("set_sigma", 0.5), ("set_sigma", 2.0), ("set_cl", 0.3), ("set_cl", 0.9), ("set_delta_nll", 1.0), ("set_delta_nll", 6.25), ("read_cl", None), ("read_sigma", None), ("read_delta_nll", None)]


def _setter_history(n, start, seq):
    """-> list of (observable, expected, actual) mismatches for one history on one real object"""
    from kafe2.core.confidence import ConfidenceLevel

    kind0, val0 = start
    obj = ConfidenceLevel(n_dimensions=n, **{kind0: val0})
    cur = (kind0, val0)  # the defining quantity
    bad = []
    for op, val in seq:
        if op.startswith("set_"):
            setattr(obj, op[4:], val)
            cur = (op[4:], val)
            continue
        if cur[0] == "cl":
            exp_cl = cur[1]
            exp_sigma = None  # checked through the residual in cl
        else:
            sig = cur[1] if cur[0] == "sigma" else math.sqrt(cur[1])
            exp_cl, exp_sigma = ref_cl(n, sig), sig
        got = getattr(obj, op[5:])
        if op == "read_cl":
            if not abs(got - exp_cl) <= TOL_CL:
                bad.append(("reuse:cl", exp_cl, got))
        else:
            got_sigma = got if op == "read_sigma" else math.sqrt(got)
            if exp_sigma is not None:
                if not abs(got_sigma - exp_sigma) <= 1e-12 * max(1.0, exp_sigma):
                    bad.append(("reuse:" + op[5:], exp_sigma if op == "read_sigma" else exp_sigma**2, got))
            elif not abs(ref_cl(n, got_sigma) - exp_cl) <= TOL_INV:
                bad.append(("reuse:" + op[5:] + "(cl)", exp_cl, ref_cl(n, got_sigma)))
    return bad


def run_setters(res, n, depth):
    import itertools

    starts = [("sigma", 1.0), ("cl", 0.5), ("delta_nll", 2.25)]
    seen = set()
    for start in starts:
        for L in range(1, depth + 1):
            for seq in itertools.product(SETTER_OPS, repeat=L):
                if not seq[-1][0].startswith("read_"):
                    continue
                bad = _setter_history(n, start, seq)
                res.executions += 1
                res.transitions += L
                res.evaluations += sum(1 for o in seq if o[0].startswith("read_"))
                key = ("setters", n, start, seq)
                res.state(key)
                if any(o[0].startswith("set_") for o in seq):
                    res.nontriv(key)
                res.observe((n, start, seq, len(bad)))
                res.outcomes[("setters", start[0], "MISMATCH" if bad else "ok")] += 1
                for check, exp, act in bad:
                    k2 = (check, tuple(o[0] for o in seq))
                    if k2 in seen:
                        continue
                    seen.add(k2)
                    res.violation("setters|n=%d|%s|%s" % (n, start[0], ";".join(o[0] for o in seq)), dict(kind="setters", n=n, start=list(start), seq=[list(o) for o in seq]), check, exp, act, "wrong-value")
    res.facts["setter-histories"] += 1
    res.sample(dict(kind="setters", n=n, depth=depth, ops=[o[0] for o in SETTER_OPS]))


# ----------------------------------------------------------------------------------------------------------------------
# profile arrows


def run_profile_case(backend, model, v, par, sm, arrows, spec):
    """Build, fit, call profile on the real minimizer.  -> dict(min_cost, center, err, ref_center, ref_err, arrows | exc)"""
    fit, p = build_fit(model, v, backend)
    i = p["names"].index(par)
    ref_center, ref_err = float(p["phat"][i]), float(np.sqrt(p["cov"][i, i]))
    out = dict(ref_center=ref_center, ref_err=ref_err)
    with warnings.catch_warnings():
        warnings.simplefilter("ignore")
        out["min_cost"] = float(fit.cost_function_value)
        out["center"] = float(fit.parameter_values[i])
        out["err"] = float(fit.parameter_errors[i])
        kw = spec_kwargs(spec, out["center"], ref_err)
        try:
            _xy, arr = fit._fitter.profile(par, size=5, subtract_min=sm, arrows=arrows, **kw)
        except Exception as e:  # noqa: BLE001
            out["exc"] = type(e).__name__ + ": " + str(e)[:120]
            return out
    out["arrows"] = None if arr is None else [dict(side=a["side"], x=float(a["x"]), y=float(a["y"]), cl=float(a["cl"])) for a in arr]
    out["xs"] = [float(t) for t in _xy[0]]
    out["ys"] = [float(t) for t in _xy[1]]
    if backend == "iminuit" and not arrows:
        # the public accessor ContoursProfiler.get_profile (no arrows, no margins) on a fresh fit: must span the same interval
        from kafe2 import ContoursProfiler

        fit2, _p2 = build_fit(model, v, backend)
        with warnings.catch_warnings():
            warnings.simplefilter("ignore")
            try:
                pub = ContoursProfiler(fit2).get_profile(par, points=5, subtract_min=sm, **kw)
                out["pub_xs"] = [float(t) for t in pub[0]]
                out["pub_ys"] = [float(t) for t in pub[1]]
            except Exception as e:  # noqa: BLE001
                out["pub_exc"] = type(e).__name__ + ": " + str(e)[:120]
    return out


def judge_profile(spec, sm, arrows, o, cl_tol=None):
    """-> list of (observable, expected, actual, mode); cl_tol: resolution of the outside probability when it was read from a figure"""
    if "exc" in o:
        return [("profile", "no exception", o["exc"], "exception:" + o["exc"].split(":")[0])]
    exp = expected_arrows(spec, arrows)
    got = o["arrows"] or []
    if [e[0] for e in exp] != [g["side"] for g in got]:
        return [("arrow.sides", [e[0] for e in exp], [g["side"] for g in got], "wrong-value")]
    offset = o["min_cost"] if sm else 0.0
    base = o["min_cost"] - offset
    bad = []
    for k, ((side, kind, payload), g) in enumerate(zip(exp, got)):
        sign = -1.0 if side == "left" else 1.0
        tag = "%s[%d]" % (side, k)
        if kind == "cl":
            s_ref, outside = payload
            y_exp = base + s_ref**2
            if not abs(g["y"] - y_exp) <= TOL_ARROW_CONV * max(1.0, s_ref**2, abs(o["min_cost"])):
                bad.append(("arrow.y:" + tag, y_exp, g["y"], "wrong-value"))
            if not abs(g["cl"] - outside) <= (TOL_ARROW_CL if cl_tol is None else cl_tol):
                bad.append(("arrow.cl:" + tag, outside, g["cl"], "wrong-value"))
            x_exp = o["ref_center"] + sign * s_ref * o["ref_err"]
            if not abs(g["x"] - x_exp) <= TOL_ARROW_X * o["ref_err"]:
                bad.append(("arrow.x:" + tag, x_exp, g["x"], "wrong-value"))
        else:
            d = payload
            x_given = o["center"] + sign * d * o["ref_err"]
            if not abs(g["x"] - x_given) <= 1e-12 * max(1.0, abs(x_given)):
                bad.append(("arrow.x:" + tag, x_given, g["x"], "wrong-value"))
            rise = ((x_given - o["ref_center"]) / o["ref_err"]) ** 2
            y_exp = base + rise
            if not abs(g["y"] - y_exp) <= TOL_ARROW_COST * max(1.0, rise):
                bad.append(("arrow.y:" + tag, y_exp, g["y"], "wrong-value"))
            # the outside probability shown must be the one-sided tail of the rise the arrow itself reports
            rise_rep = g["y"] + offset - o["min_cost"]
            if rise_rep > 0 and abs(g["y"] - y_exp) <= TOL_ARROW_COST * max(1.0, rise):
                outside = 0.5 * math.erfc(math.sqrt(0.5 * rise_rep))
                if not abs(g["cl"] - outside) <= (1e-9 if cl_tol is None else cl_tol):
                    bad.append(("arrow.cl:" + tag, outside, g["cl"], "wrong-value"))
    bad.extend(judge_range(spec, sm, arrows, o))
    return bad


def judge_range(spec, sm, arrows, o):
    """The profiled interval: the values of low / high / sigma / cl as they arrive at the profile computation."""
    bad = []
    xs, ys = o["xs"], o["ys"]
    ends = expected_range(spec, o)
    rises = []
    for (name, got_x, got_y), end in zip((("left", xs[0], ys[0]), ("right", xs[-1], ys[-1])), ends):
        if not arrows:
            # no margin requested: the interval is exactly the one that was specified
            if end is not None and not abs(got_x - end[0]) <= end[1]:
                bad.append(("profile.range:" + name, end[0], got_x, "wrong-value"))
        # the cost reported at the end point is the exact parabola there (so a cl interval ends at the rise sigma(cl)^2);
        # with subtract_min the iminuit backend subtracts the smallest value of the scan, not the cost at the optimum: only the
        # difference between the two ends is judged then (below)
        rise = ((got_x - o["ref_center"]) / o["ref_err"]) ** 2
        rises.append(rise)
        if not sm and not abs(got_y - o["min_cost"] - rise) <= TOL_RANGE_COST * max(1.0, rise):
            bad.append(("profile.end_cost:" + name, o["min_cost"] + rise, got_y, "wrong-value"))
    if sm and not abs((ys[-1] - ys[0]) - (rises[1] - rises[0])) <= TOL_RANGE_COST * max(1.0, max(rises)):
        bad.append(("profile.end_cost:right-left", rises[1] - rises[0], ys[-1] - ys[0], "wrong-value"))
    if arrows:
        # with a margin for drawing: at least everything that was specified and every arrow lies inside
        lo = [a["x"] for a in (o["arrows"] or [])] + [e[0] + e[1] for e in ends[:1] if e is not None]
        hi = [a["x"] for a in (o["arrows"] or [])] + [e[0] - e[1] for e in ends[1:] if e is not None]
        if lo and not xs[0] <= min(lo) + 1e-9 * o["ref_err"]:
            bad.append(("profile.range:left", "<= %r" % min(lo), xs[0], "wrong-value"))
        if hi and not xs[-1] >= max(hi) - 1e-9 * o["ref_err"]:
            bad.append(("profile.range:right", ">= %r" % max(hi), xs[-1], "wrong-value"))
    if "pub_exc" in o:
        bad.append(("get_profile", "no exception", o["pub_exc"], "exception:" + o["pub_exc"].split(":")[0]))
    elif "pub_xs" in o:
        if not (len(o["pub_xs"]) == len(xs) and np.allclose(o["pub_xs"], xs, rtol=0, atol=1e-7 * o["ref_err"])):
            bad.append(("get_profile.range", [xs[0], xs[-1]], [o["pub_xs"][0], o["pub_xs"][-1]], "wrong-value"))
        elif not np.allclose(o["pub_ys"], ys, rtol=0, atol=TOL_RANGE_COST * max(1.0, max(ys) - min(ys))):
            bad.append(("get_profile.cost", ys, o["pub_ys"], "wrong-value"))
    return bad


def _spec_sig(spec):
    return spec[0] + ("*%d" % len(spec[-1]) if isinstance(spec[-1], list) else "")


def run_profile(res, backend, model, v, par, sm, arrows_list, chunk, nchunk, tier):
    specs = SPECS_QUICK + (SPECS_MORE if tier == "thorough" else [])
    specs = specs[chunk::nchunk]
    for arrows in arrows_list:
        for spec in specs:
            o = run_profile_case(backend, model, v, par, sm, arrows, spec)
            res.executions += 1
            res.transitions += 4
            key = (backend, model, v, par, sm, arrows, repr(spec))
            res.state(key)
            bad = judge_profile(spec, sm, arrows, o)
            n_arr = len(o.get("arrows") or [])
            res.evaluations += max(1, 3 * n_arr)
            if "xs" in o:
                n_ends = sum(1 for e in expected_range(spec, o) if e is not None)
                res.evaluations += 2 + n_ends + (2 if "pub_xs" in o else 0)
                res.facts["profile-range-ends:%s" % ("exact" if not arrows else "contained")] += n_ends
                res.facts["profile-range-kind:%s" % ("cl" if spec_parts(spec)["cls"] is not None else "no-cl")] += 1
                if "pub_xs" in o:
                    res.facts["profile-public-route"] += 1
            if n_arr or "xs" in o:
                res.nontriv(key)
            res.observe((key, [(a["side"], round(a["y"], 6), round(a["cl"], 9)) for a in (o.get("arrows") or [])], [round(t, 6) for t in o.get("xs", [])[:: max(1, len(o.get("xs", [])) - 1)]], o.get("exc")))
            res.facts["profile:%s" % backend] += 1
            res.facts["profile-spec:%s" % spec[0]] += 1
            res.facts["profile-arrows-compared"] += n_arr
            res.outcomes[("profile", backend, spec[0], "sm=%d" % sm, "arrows=%d" % arrows, "MISMATCH" if bad else "ok")] += 1
            hist = dict(kind="profile", backend=backend, model=model, v=v, par=par, subtract_min=sm, arrows=arrows, spec=list(spec))
            sig = "profile|%s|%s|%s|subtract_min=%s|arrows=%s" % (backend, model, _spec_sig(spec), sm, arrows)
            for obs_name, exp, act, mode in bad:
                res.violation(sig, hist, obs_name.split(":")[0], exp, act, mode, extra=dict(detail=obs_name))
    res.sample(dict(kind="profile", backend=backend, model=model, valuation=v, parameter=par, subtract_min=sm, spec=list(specs[-1])))


# ----------------------------------------------------------------------------------------------------------------------
# the plotting entry points of ContoursProfiler: what plot_profile / plot_contours / plot_profiles_contours_matrix draw for a
# request is read back from the matplotlib artists and judged like the numbers that profile() / get_contours() return

TOL_PLOT_CL = 5.1e-5  # the outside probability is written next to its arrow in percent with two decimals ('#.2g' below 0.1 %)
TOL_PLOT_LABEL = 5.1e-4  # legend label of a contour: '%g' of sigma resp. '%.4g' of 100 cl, relative
PLOT_POINTS = 5
CPLOT_POINTS = 24  # points per contour line (the default of 100 costs 0.3 s per contour of a three-parameter fit)
TOL_PLOT_REPEAT = 1e-7  # drawn profile against get_profile on a second fit built the same way, in uncertainties: measured 0
_PCT = re.compile(r"\$([0-9.eE+-]+)\\%\$")
_LABEL_SIGMA = re.compile(r"([0-9.eE+-]+)\$\\sigma\$ contour")
_LABEL_CL = re.compile(r"\$([0-9.eE+-]+)\\%\$ CL contour")


def _plt():
    import matplotlib

    if "matplotlib.pyplot" not in __import__("sys").modules:
        matplotlib.use("Agg")
    import matplotlib.pyplot as plt

    return plt


def _read_profile_axes(axes):
    """-> dict(xs, ys, arrows=[dict(side, x, y, cl)]) read from the artists of one profile plot.
    Every marker consists of a vertical arrow (x, y) -> (x, 0), a horizontal arrow (x, y) -> outwards and the text '$<percent>\\%$'."""
    import matplotlib.patches as mpatches

    lines = [ln for ln in axes.lines if str(ln.get_label()).startswith("profile")]
    if len(lines) != 1:
        raise ValueError("%d lines labelled 'profile ...'" % len(lines))
    xs = [float(t) for t in np.asarray(lines[0].get_xdata(), dtype=float)]
    ys = [float(t) for t in np.asarray(lines[0].get_ydata(), dtype=float)]
    vert, horiz = [], []
    for q in axes.patches:
        if isinstance(q, mpatches.FancyArrowPatch):
            (xa, ya), (xb, yb) = [(float(a), float(b)) for a, b in q._posA_posB]
            (vert if xa == xb else horiz).append((xa, ya, xb, yb))
    pcts = [float(m.group(1)) for t in axes.texts for m in [_PCT.fullmatch(t.get_text())] if m]
    if not (len(vert) == len(horiz) == len(pcts)):
        raise ValueError("%d vertical arrows, %d horizontal arrows, %d percentages" % (len(vert), len(horiz), len(pcts)))
    arrows = []
    for (xa, ya, _xb, _yb), (xh, yh, xt, yt), pc in zip(vert, horiz, pcts):
        if (xa, ya) != (xh, yh) or yt != yh:
            raise ValueError("the two arrows of a marker do not start at the same point: %r, %r" % ((xa, ya), (xh, yh)))
        arrows.append(dict(side="left" if xt < xh else "right", x=xa, y=ya, cl=pc / 100.0))
    return dict(xs=xs, ys=ys, arrows=arrows)


def run_pplot_case(backend, model, v, par, sm, spec):
    """Build, fit, ContoursProfiler(fit, profile_subtract_min=sm).plot_profile(par, **specification); read the figure."""
    from kafe2 import ContoursProfiler

    plt = _plt()
    fit, p = build_fit(model, v, backend)
    i = p["names"].index(par)
    ref_center, ref_err = float(p["phat"][i]), float(np.sqrt(p["cov"][i, i]))
    out = dict(ref_center=ref_center, ref_err=ref_err)
    with warnings.catch_warnings():
        warnings.simplefilter("ignore")
        out["min_cost"] = float(fit.cost_function_value)
        out["center"] = float(fit.parameter_values[i])
        out["err"] = float(fit.parameter_errors[i])
        kw = spec_kwargs(spec, out["center"], ref_err)
        cp = ContoursProfiler(fit, profile_points=PLOT_POINTS, profile_subtract_min=sm)
        fig = None
        try:
            fig = cp.plot_profile(par, **kw)
            try:
                out.update(_read_profile_axes(fig.axes[0]))
            except ValueError as e:
                out["layout"] = str(e)
        except Exception as e:  # noqa: BLE001
            out["exc"] = type(e).__name__ + ": " + str(e)[:120]
        finally:
            plt.close("all")
        if "xs" not in out:
            return out
        # the numeric profile for the same request from a fit in the same state, i.e. a fresh one: a scan on the iminuit backend
        # leaves the fit with slightly different uncertainties (up to 1 %), which is not the subject of this property
        # (iminuit; scipy: when no root has to be searched)
        if backend == "iminuit" or spec_parts(spec)["cls"] is None:
            try:
                fit2, _p2 = build_fit(model, v, backend)
                gp = ContoursProfiler(fit2, profile_points=PLOT_POINTS, profile_subtract_min=sm).get_profile(par, **kw)
                out["gp_xs"] = [float(t) for t in gp[0]]
                out["gp_ys"] = [float(t) for t in gp[1]]
            except Exception as e:  # noqa: BLE001
                out["gp_exc"] = type(e).__name__ + ": " + str(e)[:120]
    return out


def judge_pplot(spec, sm, o):
    """-> list of (observable, expected, actual, mode).  The drawn markers are the arrow specifications of arrows=True, the
    drawn line contains the interval of the specification, every marker and the interval get_profile returns."""
    if "exc" in o:
        return [("plot_profile", "no exception", o["exc"], "exception:" + o["exc"].split(":")[0])]
    if "layout" in o:
        return [("plot_profile.artists", "one profile line, per marker two arrows and one percentage", o["layout"], "wrong-value")]
    bad = [("plot_profile." + n, e, a, m) for n, e, a, m in judge_profile(spec, sm, True, o, cl_tol=TOL_PLOT_CL)]
    xs = o["xs"]
    if len(xs) != PLOT_POINTS:
        bad.append(("plot_profile.points", PLOT_POINTS, len(xs), "wrong-value"))
    if "gp_exc" in o:
        bad.append(("get_profile", "no exception", o["gp_exc"], "exception:" + o["gp_exc"].split(":")[0]))
    elif "gp_xs" in o:
        g = o["gp_xs"]
        tol = (TOL_ARROW_X if spec_parts(spec)["cls"] is not None else TOL_PLOT_REPEAT) * o["ref_err"]
        if not expected_arrows(spec, True):
            # nothing to mark, no margin: the drawn profile is the numeric one
            if not (len(g) == len(xs) and np.allclose(g, xs, rtol=0, atol=tol)):
                bad.append(("plot_profile.range=get_profile", [g[0], g[-1]], [xs[0], xs[-1]], "wrong-value"))
            elif not np.allclose(o["gp_ys"], o["ys"], rtol=0, atol=TOL_RANGE_COST * max(1.0, max(o["ys"]) - min(o["ys"]))):
                bad.append(("plot_profile.cost=get_profile", o["gp_ys"], o["ys"], "wrong-value"))
        elif not (xs[0] <= g[0] + tol and xs[-1] >= g[-1] - tol):
            bad.append(("plot_profile.range>=get_profile", [g[0], g[-1]], [xs[0], xs[-1]], "wrong-value"))
    return bad


def run_pplot(res, backend, model, v, par, sm, chunk, nchunk, tier):
    specs = SPECS_QUICK + (SPECS_MORE if tier == "thorough" else [])
    specs = specs[chunk::nchunk]
    for spec in specs:
        o = run_pplot_case(backend, model, v, par, sm, spec)
        res.executions += 1
        res.transitions += 4 + (1 if "gp_xs" in o else 0)
        key = ("pplot", backend, model, v, par, sm, repr(spec))
        res.state(key)
        bad = judge_pplot(spec, sm, o)
        n_arr = len(o.get("arrows") or [])
        res.evaluations += max(1, 3 * n_arr) + (4 if "xs" in o else 0) + (1 if "gp_xs" in o else 0)
        if "xs" in o:
            res.nontriv(key)
            res.facts["plot-profile:%s" % backend] += 1
            res.facts["plot-profile-spec:%s" % spec[0]] += 1
            res.facts["plot-profile-markers-compared"] += n_arr
            if not n_arr:
                res.facts["plot-profile-without-markers"] += 1
            if "gp_xs" in o:
                res.facts["plot-profile-vs-get_profile"] += 1
        res.observe((key, [(a["side"], round(a["y"], 6), round(a["cl"], 6)) for a in (o.get("arrows") or [])], [round(t, 6) for t in o.get("xs", [])[:: max(1, len(o.get("xs", [])) - 1)]], o.get("exc"), o.get("layout")))
        res.outcomes[("pplot", backend, spec[0], "sm=%d" % sm, "MISMATCH" if bad else "ok")] += 1
        hist = dict(kind="pplot", backend=backend, model=model, v=v, par=par, subtract_min=sm, spec=list(spec))
        sig = "plot_profile|%s|%s|%s|subtract_min=%s" % (backend, model, _spec_sig(spec), sm)
        for obs_name, exp, act, mode in bad:
            res.violation(sig, hist, obs_name.split(":")[0], exp, act, mode, extra=dict(detail=obs_name))
    res.sample(dict(kind="pplot", backend=backend, model=model, valuation=v, parameter=par, subtract_min=sm, spec=list(specs[-1])))


# ---- contour plots (iminuit)

def _cplot_sigmas(tier):
    # one contour of the three-parameter fit costs 0.25 s
    return [1.0, 2.5] if tier == "quick" else [0.5, 1.0, 2.0, 3.0]


def _read_contour_axes(axes):
    """-> list of (label, 2 x N vertices) of the filled polygons in drawing order"""
    import matplotlib.patches as mpatches

    return [(str(q.get_label()), np.asarray(q.get_xy(), dtype=float).T) for q in axes.patches if type(q) is mpatches.Polygon]


def _axes_cells(fig):
    out = {}
    for ax in fig.axes:
        if not ax.get_visible():
            continue
        ss = ax.get_subplotspec()
        out[(int(ss.rowspan.start), int(ss.colspan.start))] = ax
    return out


def _contour_levels(p, pair, polys, sigmas, naming):
    ids = [p["names"].index(pair[0]), p["names"].index(pair[1])]
    cinv = np.linalg.inv(p["cov"][np.ix_(ids, ids)])
    levels = []
    for k, (label, pts) in enumerate(polys):
        lev = dict(label=label, n_points=int(pts.shape[1]))
        m = (_LABEL_CL if naming == "cl" else _LABEL_SIGMA).fullmatch(label)
        lev["label_value"] = float(m.group(1)) if m else None
        if k < len(sigmas):
            d = pts - p["phat"][ids][:, None]
            lev["geom"] = float(np.mean(np.einsum("in,ij,jn->n", d, cinv, d))) / sigmas[k] ** 2
        levels.append(lev)
    return levels


def run_cplot_case(model, v, case, sigmas):
    """case = ('contours', pair, naming) | ('matrix', full_matrix, naming); iminuit backend.
    -> dict(cells={(row, col) as 'r,c': dict(pair, levels) | dict(par, xs, gp_xs, markers)})"""
    from kafe2 import ContoursProfiler

    plt = _plt()
    fit, p = build_fit(model, v, "iminuit")
    sigmas = [float(t) for t in sigmas]
    out = dict(cells={})
    with warnings.catch_warnings():
        warnings.simplefilter("ignore")
        cp = ContoursProfiler(fit, profile_points=PLOT_POINTS, contour_points=CPLOT_POINTS, contour_sigma_values=tuple(sigmas))
        try:
            if case[0] == "contours":
                _kind, pair, naming = case
                fig = cp.plot_contours(pair[0], pair[1], naming_convention=naming)
                out["cells"]["0,0"] = dict(pair=list(pair), levels=_contour_levels(p, pair, _read_contour_axes(fig.axes[0]), sigmas, naming))
            else:
                _kind, full, naming = case
                names = p["names"]
                fig = cp.plot_profiles_contours_matrix(full_matrix=full, contour_naming_convention=naming)
                cells = _axes_cells(fig)
                out["n_cells"] = len(cells)
                # the numeric profiles without arguments, from a fresh fit in the order in which the matrix scans the parameters
                fit2, _p2 = build_fit(model, v, "iminuit")
                cp2 = ContoursProfiler(fit2, profile_points=PLOT_POINTS)
                gps = [cp2.get_profile(n) for n in names]
                for (r, c), ax in sorted(cells.items()):
                    if r == c:
                        try:
                            cell = dict(par=names[r], **_read_profile_axes(ax))
                        except ValueError as e:
                            cell = dict(par=names[r], layout=str(e))
                        cell["gp_xs"], cell["gp_ys"] = [float(t) for t in gps[r][0]], [float(t) for t in gps[r][1]]
                    else:
                        pair = (names[c], names[r])  # x axis: the parameter of the column
                        cell = dict(pair=list(pair), levels=_contour_levels(p, pair, _read_contour_axes(ax), sigmas, naming))
                    out["cells"]["%d,%d" % (r, c)] = cell
        except Exception as e:  # noqa: BLE001
            out["exc"] = type(e).__name__ + ": " + str(e)[:120]
        finally:
            plt.close("all")
    return out


def judge_cplot(model, case, sigmas, o):
    if "exc" in o:
        return [("plot", "no exception", o["exc"], "exception:" + o["exc"].split(":")[0])]
    bad = []
    naming = case[2]
    npar = len(MODELS[model][1])
    if case[0] == "matrix":
        exp_cells = npar * npar if case[1] else npar * (npar + 1) // 2
        if o["n_cells"] != exp_cells:
            bad.append(("matrix.cells", exp_cells, o["n_cells"], "wrong-value"))
    for name, cell in sorted(o["cells"].items()):
        if "par" in cell:
            if "layout" in cell:
                bad.append(("matrix.profile.artists", "one profile line", cell["layout"], "wrong-value"))
                continue
            if cell["arrows"]:
                bad.append(("matrix.profile.markers", [], [(a["side"], a["cl"]) for a in cell["arrows"]], "wrong-value"))
            g, xs = cell["gp_xs"], cell["xs"]
            if not (len(g) == len(xs) and np.allclose(g, xs, rtol=0, atol=TOL_PLOT_REPEAT * (xs[-1] - xs[0]))):
                bad.append(("matrix.profile.range=get_profile", [g[0], g[-1]], [xs[0], xs[-1]], "wrong-value"))
            elif not np.allclose(cell["gp_ys"], cell["ys"], rtol=0, atol=TOL_RANGE_COST * max(1.0, max(cell["ys"]) - min(cell["ys"]))):
                bad.append(("matrix.profile.cost=get_profile", cell["gp_ys"], cell["ys"], "wrong-value"))
            continue
        levels = cell["levels"]
        if len(levels) != len(sigmas):
            bad.append(("contour.count", len(sigmas), len(levels), "wrong-value"))
        for s, lev in zip(sigmas, levels):
            exp_label = 100.0 * -math.expm1(-0.5 * s * s) if naming == "cl" else s
            if lev["label_value"] is None or not abs(lev["label_value"] - exp_label) <= TOL_PLOT_LABEL * exp_label:
                bad.append(("contour.label", ("%.4g %% CL" % exp_label) if naming == "cl" else ("%g sigma" % s), lev["label"], "wrong-value"))
            if not abs(lev["geom"] - 1.0) <= TOL_CONTOUR_GEOM:
                bad.append(("contour.points", "mean rise = sigma^2 = %g" % (s * s), "mean rise = %g" % (lev["geom"] * s * s), "wrong-value"))
    return bad


def cplot_cases(model, what, tier):
    """quick tier, three-parameter model: the naming convention alternates over the pairs instead of the product, one matrix"""
    small = tier == "thorough" or len(MODELS[model][1]) == 2
    if what == "contours":
        return [("contours", pair, naming) for k, pair in enumerate(_pairs(model)) for j, naming in enumerate(("sigma", "cl")) if small or (k + j) % 2 == 0]
    return [("matrix", False, "sigma"), ("matrix", True, "cl")] if small else [("matrix", False, "cl")]


def run_cplot(res, model, v, what, tier):
    sigmas = _cplot_sigmas(tier)
    for case in cplot_cases(model, what, tier):
        o = run_cplot_case(model, v, case, sigmas)
        res.executions += 1
        res.transitions += 3 + len(o["cells"])
        key = ("cplot", model, v, repr(case))
        res.state(key)
        bad = judge_cplot(model, case, sigmas, o)
        n_lev = 0
        for name, cell in o["cells"].items():
            res.state(key + (name,))
            if "levels" in cell:
                n_lev += len(cell["levels"])
                res.facts["plot-contour-polygons"] += len(cell["levels"])
                res.facts["plot-contour-labels:%s" % case[2]] += len(cell["levels"])
            elif "xs" in cell:
                res.facts["plot-matrix-profiles"] += 1
        res.evaluations += 1 + 2 * n_lev + 3 * sum(1 for c in o["cells"].values() if "par" in c)
        if n_lev:
            res.nontriv(key)
        res.observe((key, sorted((n, [(lev["label"], round(lev.get("geom", -1.0), 4)) for lev in c["levels"]] if "levels" in c else [round(t, 6) for t in c.get("xs", [])]) for n, c in o["cells"].items()), o.get("exc")))
        res.outcomes[("cplot", model, case[0], case[2], "MISMATCH" if bad else "ok")] += 1
        hist = dict(kind="cplot", model=model, v=v, sigmas=list(sigmas), case=[case[0], list(case[1]) if isinstance(case[1], tuple) else case[1], case[2]])
        seen = set()
        for obs_name, exp, act, mode in bad:
            if obs_name in seen:
                continue
            seen.add(obs_name)
            res.violation("plot_%s|iminuit|%s|%s" % (case[0], model, case[2]), hist, obs_name, exp, act, mode)
    res.sample(dict(kind="cplot", model=model, valuation=v, what=what, sigmas=list(sigmas)))


# ----------------------------------------------------------------------------------------------------------------------
# contour level


def run_contour_case(model, v, pair, sigmas):
    """-> dict(levels=[...]) ; the spy records the keyword arguments reaching iminuit.Minuit.mncontour."""
    import iminuit
    from kafe2 import ContoursProfiler

    fit, p = build_fit(model, v, "iminuit")
    calls = []
    orig = iminuit.Minuit.mncontour

    def spy(self, *args, **kwargs):
        calls.append((len(args), dict(kwargs)))
        return orig(self, *args, **kwargs)

    out = dict(levels=[])
    iminuit.Minuit.mncontour = spy
    try:
        with warnings.catch_warnings():
            warnings.simplefilter("ignore")
            cp = ContoursProfiler(fit, contour_sigma_values=tuple(sigmas))
            try:
                conts = cp.get_contours(pair[0], pair[1])
            except Exception as e:  # noqa: BLE001
                out["exc"] = type(e).__name__ + ": " + str(e)[:120]
                return out
    finally:
        iminuit.Minuit.mncontour = orig
    ids = [p["names"].index(pair[0]), p["names"].index(pair[1])]
    cinv = np.linalg.inv(p["cov"][np.ix_(ids, ids)])
    out["n_calls"] = len(calls)
    for k, (clobj, cont) in enumerate(conts):
        lev = dict(sigma=float(sigmas[k]), cl_obj_cl=float(clobj.cl), cl_obj_sigma=float(clobj.sigma), cl_obj_ndim=int(clobj.ndim))
        if k < len(calls):
            kw = calls[k][1]
            lev["spy_cl"] = float(kw["cl"]) if kw.get("cl") is not None else None
            lev["spy_keys"] = sorted(kw)
        if cont is not None and cont.xy_points is not None:
            pts = np.asarray(cont.xy_points, dtype=float)
            d = pts - p["phat"][ids][:, None]
            q = np.einsum("in,ij,jn->n", d, cinv, d)
            lev["geom"] = float(np.mean(q)) / sigmas[k] ** 2
            lev["contour_sigma"] = float(cont.sigma)
            lev["n_points"] = int(pts.shape[1])
        out["levels"].append(lev)
    return out


def judge_contour(sigmas, o):
    if "exc" in o:
        return [("contour", "no exception", o["exc"], "exception:" + o["exc"].split(":")[0])]
    bad = []
    if o["n_calls"] != len(sigmas):
        bad.append(("mncontour.calls", len(sigmas), o["n_calls"], "wrong-value"))
    for lev in o["levels"]:
        s = lev["sigma"]
        exp = -math.expm1(-0.5 * s * s)
        if not (abs(lev["cl_obj_cl"] - exp) <= TOL_CONTOUR_CL and lev["cl_obj_ndim"] == 2 and lev["cl_obj_sigma"] == s):
            bad.append(("contour.confidence_level", dict(cl=exp, sigma=s, ndim=2), dict(cl=lev["cl_obj_cl"], sigma=lev["cl_obj_sigma"], ndim=lev["cl_obj_ndim"]), "wrong-value"))
        if "spy_cl" in lev:
            if lev["spy_cl"] is None or not abs(lev["spy_cl"] - exp) <= TOL_CONTOUR_CL:
                bad.append(("mncontour.cl", exp, lev["spy_cl"], "wrong-value"))
        if "geom" in lev:
            if not abs(lev["geom"] - 1.0) <= TOL_CONTOUR_GEOM:
                bad.append(("contour.points", "mean rise = sigma^2 = %g" % (s * s), "mean rise = %g" % (lev["geom"] * s * s), "wrong-value"))
            if lev["contour_sigma"] != s:
                bad.append(("contour.sigma", s, lev["contour_sigma"], "wrong-value"))
        else:
            bad.append(("contour.points", "a contour", None, "wrong-value"))
    return bad


def run_contour(res, model, v, tier):
    sigmas = _contour_sigmas(tier)
    pairs = _pairs(model)
    for pair in pairs:
        o = run_contour_case(model, v, pair, sigmas)
        res.executions += 1
        res.transitions += 3 + len(sigmas)
        bad = judge_contour(sigmas, o)
        for lev in o["levels"]:
            key = ("contour", model, v, pair, lev["sigma"])
            res.state(key)
            res.evaluations += 4
            if "spy_cl" in lev:
                res.nontriv(key)
                res.facts["mncontour-observed"] += 1
        res.observe(("contour", model, v, pair, [(lev["sigma"], lev.get("spy_cl"), lev.get("n_points")) for lev in o["levels"]], o.get("exc")))
        res.outcomes[("contour", model, "MISMATCH" if bad else "ok")] += 1
        hist = dict(kind="contour", model=model, v=v, pair=list(pair), sigmas=list(sigmas))
        seen = set()
        for obs_name, exp, act, mode in bad:
            if obs_name in seen:
                continue
            seen.add(obs_name)
            res.violation("contour|iminuit|%s" % model, hist, obs_name, exp, act, mode)
    res.sample(dict(kind="contour", model=model, valuation=v, pairs=[list(p) for p in pairs], sigmas=list(sigmas)))


# ----------------------------------------------------------------------------------------------------------------------
# contour level on the scipy backend: every contour algorithm of MinimizerScipyOptimize.contour, selected through the public
# ContoursProfiler(contour_method_kwargs=...)

SCIPY_ALGOS = {
    # name: (contour_method_kwargs, probe)
    "grid3": (dict(iterations=3), False),  # default algorithm (heuristic grid), 3 refinement steps instead of 5: 17 x 17 grid
    "grid-default": (None, False),  # no method kwargs at all
    "grid-explicit": (dict(algorithm="heuristic_grid"), False),
    "beacon": (dict(algorithm="beacon"), False),  # walks along the contour: ~80 steps x (21 + gradient) constrained minimisations
    "beacon-start": (dict(algorithm="beacon"), True),  # the same call, observed at and cut short after its first step
}


class _ProbeDone(Exception):
    pass


def _level_points(cont):
    """-> 2 x N points on the line that the contour object describes, closed flag"""
    if cont.xy_points is not None:
        return np.asarray(cont.xy_points, dtype=float), None
    import contourpy

    # grid contour: the line is the level `sigma` of grid_z = sqrt(cost - min) (this is what plot_contours draws)
    lines = contourpy.contour_generator(np.asarray(cont.grid_x), np.asarray(cont.grid_y), np.asarray(cont.grid_z).T).lines(float(cont.sigma))
    if not lines:
        return None, None
    line = np.asarray(max(lines, key=len), dtype=float)
    return line.T, bool(np.allclose(line[0], line[-1]))


def run_scontour_case(algo, model, v, pair, sigmas):
    """ContoursProfiler.get_contours on the scipy backend.  -> dict(levels=[...]).
    With probe=True each sigma gets a fit of its own; a spy on scipy.optimize.brentq (installed from outside, no hook in kafe2)
    records the root the beacon algorithm starts its walk from and then abandons the computation."""
    import scipy.optimize as so
    from kafe2 import ContoursProfiler

    kwargs, probe = SCIPY_ALGOS[algo]
    out = dict(levels=[])
    fit, p = build_fit(model, v, "scipy")
    ids = [p["names"].index(pair[0]), p["names"].index(pair[1])]
    cinv = np.linalg.inv(p["cov"][np.ix_(ids, ids)])
    center = p["phat"][ids]

    def level(clobj, cont, s):
        lev = dict(sigma=float(s), cl_obj_cl=float(clobj.cl), cl_obj_sigma=float(clobj.sigma), cl_obj_ndim=int(clobj.ndim))
        if cont is not None:
            pts, closed = _level_points(cont)
            lev["contour_sigma"] = float(cont.sigma)
            if pts is not None:
                d = pts - center[:, None]
                q = np.einsum("in,ij,jn->n", d, cinv, d)
                lev["geom"] = float(np.mean(q)) / s**2
                lev["n_points"] = int(pts.shape[1])
                if closed is not None:
                    lev["closed"] = closed
        return lev

    with warnings.catch_warnings():
        warnings.simplefilter("ignore")
        if not probe:
            import contextlib
            import io

            try:
                with contextlib.redirect_stdout(io.StringIO()):  # the beacon algorithm prints when it steps back
                    cp = ContoursProfiler(fit, contour_sigma_values=tuple(sigmas), contour_method_kwargs=None if kwargs is None else dict(kwargs))
                    conts = cp.get_contours(pair[0], pair[1])
            except Exception as e:  # noqa: BLE001
                out["exc"] = type(e).__name__ + ": " + str(e)[:120]
                return out
            for k, (clobj, cont) in enumerate(conts):
                out["levels"].append(level(clobj, cont, float(sigmas[k])))
            return out
        for s in sigmas:
            fit, p = build_fit(model, v, "scipy")
            c0 = np.array([float(fit.parameter_values[i]) for i in ids])
            e0 = float(fit.parameter_errors[ids[0]])
            calls = []
            orig = so.brentq

            def spy(f, a, b, *args, **kw):
                r = orig(f, a, b, *args, **kw)
                calls.append(float(r))
                raise _ProbeDone()

            so.brentq = spy
            conts = None
            try:
                cp = ContoursProfiler(fit, contour_sigma_values=(s,), contour_method_kwargs=dict(kwargs))
                conts = cp.get_contours(pair[0], pair[1])
            except _ProbeDone:
                pass
            except Exception as e:  # noqa: BLE001
                out["exc"] = type(e).__name__ + ": " + str(e)[:120]
                return out
            finally:
                so.brentq = orig
            if conts is not None:  # the root finder was not reached: judge the complete contour instead
                out["levels"].append(level(conts[0][0], conts[0][1], float(s)))
                continue
            # start of the walk: parameter 1 moved by root x its uncertainty, parameter 2 at its optimum, others profiled
            d = c0 + np.array([calls[0] * e0, 0.0]) - center
            lev = dict(sigma=float(s), start_root=calls[0], geom=float(d.dot(cinv).dot(d)) / s**2, n_points=1, probe=True)
            out["levels"].append(lev)
    return out


def judge_scontour(algo, sigmas, o):
    if "exc" in o:
        return [("contour", "no exception", o["exc"], "exception:" + o["exc"].split(":")[0])]
    bad = []
    if len(o["levels"]) != len(sigmas):
        bad.append(("contour.count", len(sigmas), len(o["levels"]), "wrong-value"))
    for lev in o["levels"]:
        s = lev["sigma"]
        exp = -math.expm1(-0.5 * s * s)
        if "cl_obj_cl" in lev and not (abs(lev["cl_obj_cl"] - exp) <= TOL_CONTOUR_CL and lev["cl_obj_ndim"] == 2 and lev["cl_obj_sigma"] == s):
            bad.append(("contour.confidence_level", dict(cl=exp, sigma=s, ndim=2), dict(cl=lev["cl_obj_cl"], sigma=lev["cl_obj_sigma"], ndim=lev["cl_obj_ndim"]), "wrong-value"))
        if "geom" in lev:
            tol = TOL_CONTOUR_START if lev.get("probe") else TOL_CONTOUR_GRID3 if algo == "grid3" else TOL_CONTOUR_GEOM
            if not abs(lev["geom"] - 1.0) <= tol:
                bad.append(("contour.start" if lev.get("probe") else "contour.points", "mean rise = sigma^2 = %g" % (s * s), "mean rise = %g" % (lev["geom"] * s * s), "wrong-value"))
            if lev.get("closed") is False:
                bad.append(("contour.closed", "a closed line inside the grid", "open line", "wrong-value"))
        else:
            bad.append(("contour.points", "a contour", None, "wrong-value"))
        if "contour_sigma" in lev and lev["contour_sigma"] != s:
            bad.append(("contour.sigma", s, lev["contour_sigma"], "wrong-value"))
    return bad


def _scontour_sigmas(algo, tier):
    if algo == "beacon-start":
        return _contour_sigmas(tier)
    if algo == "grid3":
        return [0.5, 1.5, 3.0] if tier == "quick" else _contour_sigmas(tier)  # 1 and 2 sigma with default settings: see C07
    if algo == "beacon":
        return [0.5, 2.0, 3.0]
    return [0.5, 1.0, 2.0, 3.0]


def _pairs(model):
    names = MODELS[model][1]
    pairs = [(names[i], names[j]) for i in range(len(names)) for j in range(len(names)) if i < j]
    return pairs + [(pairs[0][1], pairs[0][0])]


def run_scontour(res, algo, model, v, pair_ids, sigmas):
    pairs = [_pairs(model)[k] for k in pair_ids]
    for pair in pairs:
        o = run_scontour_case(algo, model, v, pair, sigmas)
        res.executions += 1
        res.transitions += 3 + len(sigmas)
        bad = judge_scontour(algo, sigmas, o)
        for lev in o["levels"]:
            key = ("scontour", algo, model, v, pair, lev["sigma"])
            res.state(key)
            res.evaluations += 4
            if "geom" in lev:
                res.nontriv(key)
                res.facts["scipy-contour-level:%s" % ("beacon" if algo.startswith("beacon") else "grid")] += 1
                if lev["sigma"] != 1.0:
                    res.facts["scipy-contour-level-not-1:%s" % ("beacon" if algo.startswith("beacon") else "grid")] += 1
        res.observe(("scontour", algo, model, v, pair, [(lev["sigma"], round(lev.get("geom", -1.0), 5), lev.get("n_points")) for lev in o["levels"]], o.get("exc")))
        res.outcomes[("contour", "scipy", algo, model, "MISMATCH" if bad else "ok")] += 1
        hist = dict(kind="scontour", algo=algo, model=model, v=v, pair=list(pair), sigmas=list(sigmas))
        seen = set()
        for obs_name, exp, act, mode in bad:
            if obs_name in seen:
                continue
            seen.add(obs_name)
            res.violation("contour|scipy:%s|%s" % (algo, model), hist, obs_name, exp, act, mode)
    res.sample(dict(kind="scontour", algorithm=algo, model=model, valuation=v, pairs=[list(p) for p in pairs], sigmas=list(sigmas)))


# ----------------------------------------------------------------------------------------------------------------------


def run_job(spec):
    res = JobResult()
    kind = spec[0]
    if kind == "conv":
        run_conv(res, spec[1])
    elif kind == "const":
        run_const(res)
    elif kind == "setters":
        run_setters(res, spec[1], 4 if spec[2] == "quick" else 5)
    elif kind == "profile":
        _, backend, model, v, par, sm, arrows, chunk, nchunk, tier = spec
        run_profile(res, backend, model, v, par, sm, [arrows], chunk, nchunk, tier)
    elif kind == "pplot":
        _, backend, model, v, par, sm, chunk, nchunk, tier = spec
        run_pplot(res, backend, model, v, par, sm, chunk, nchunk, tier)
    elif kind == "cplot":
        _, model, v, what, tier = spec
        run_cplot(res, model, v, what, tier)
    elif kind == "contour":
        _, model, v, tier = spec
        run_contour(res, model, v, tier)
    elif kind == "scontour":
        _, algo, model, v, pair_ids, sigmas, tier = spec
        run_scontour(res, algo, model, v, list(pair_ids), list(sigmas))
    else:
        raise ValueError(spec)
    return res.as_dict()


def replay(history):
    h = history
    out = []
    kind = h["kind"]
    if kind == "conv":
        n = int(h["n"])
        if h["what"] == "sigma":
            bad = judge_sigma_point(n, float(h["x"]), conv_case(n, "sigma", float(h["x"])))
        elif h["what"] == "cl":
            bad = judge_cl_point(n, float(h["x"]), conv_case(n, "cl", float(h["x"])))
        elif h["what"] == "sigma-pair":
            a, b = [float(t) for t in h["x"]]
            ca, cb = conv_case(n, "sigma", a), conv_case(n, "sigma", b)
            strict = ref_cl(n, b) - ref_cl(n, a) > STRICT_GAP
            ok = "exc" not in ca and "exc" not in cb and (cb["cl"] > ca["cl"] if strict else cb["cl"] >= ca["cl"])
            bad = [] if ok else [("cl_strictly_increasing" if strict else "cl_increasing", "increasing", [ca.get("cl"), cb.get("cl")])]
        else:
            a, b = [float(t) for t in h["x"]]
            ca, cb = conv_case(n, "cl", a), conv_case(n, "cl", b)
            ok = "exc" not in ca and "exc" not in cb and cb["sigma"] > ca["sigma"]
            bad = [] if ok else [("sigma_strictly_increasing", "increasing", [ca.get("sigma"), cb.get("sigma")])]
        out = [dict(observable=c, expected=e, actual=a, mode="exception" if c.endswith(":exception") else "wrong-value") for c, e, a in bad]
    elif kind == "setters":
        bad = _setter_history(int(h["n"]), tuple(h["start"]), [tuple(o) for o in h["seq"]])
        out = [dict(observable=c, expected=e, actual=a, mode="wrong-value") for c, e, a in bad]
    elif kind == "const":
        case = h["case"]
        bad, _ = judge_const((case[0], case[1], float(case[2]), case[3]))
        out = [dict(observable=c, expected=e, actual=a, mode="wrong-value") for c, e, a in bad]
    elif kind == "profile":
        spec = tuple(h["spec"])
        o = run_profile_case(h["backend"], h["model"], h["v"], h["par"], bool(h["subtract_min"]), bool(h["arrows"]), spec)
        bad = judge_profile(spec, bool(h["subtract_min"]), bool(h["arrows"]), o)
        out = [dict(observable=c.split(":")[0], expected=e, actual=a, mode=m) for c, e, a, m in bad]
    elif kind == "pplot":
        spec = tuple(h["spec"])
        o = run_pplot_case(h["backend"], h["model"], h["v"], h["par"], bool(h["subtract_min"]), spec)
        bad = judge_pplot(spec, bool(h["subtract_min"]), o)
        out = [dict(observable=c.split(":")[0], expected=e, actual=a, mode=m) for c, e, a, m in bad]
    elif kind == "cplot":
        c = h["case"]
        case = (c[0], tuple(c[1]) if isinstance(c[1], list) else c[1], c[2])
        sig = [float(t) for t in h["sigmas"]]
        o = run_cplot_case(h["model"], h["v"], case, sig)
        seen, out = set(), []
        for c_, e, a, m in judge_cplot(h["model"], case, sig, o):
            if c_ not in seen:
                seen.add(c_)
                out.append(dict(observable=c_, expected=e, actual=a, mode=m))
    elif kind == "scontour":
        sig = [float(t) for t in h["sigmas"]]
        o = run_scontour_case(h["algo"], h["model"], h["v"], tuple(h["pair"]), sig)
        bad = judge_scontour(h["algo"], sig, o)
        out = [dict(observable=c, expected=e, actual=a, mode=m) for c, e, a, m in bad]
    elif kind == "contour":
        o = run_contour_case(h["model"], h["v"], tuple(h["pair"]), [float(s) for s in h["sigmas"]])
        bad = judge_contour([float(s) for s in h["sigmas"]], o)
        out = [dict(observable=c, expected=e, actual=a, mode=m) for c, e, a, m in bad]
    return out


def vacuity_guards(tot, tier):
    yield "all 8 dimensions converted", tot.facts.get("conv-dims", 0) >= 8
    yield "strict monotonicity demanded on more than 5000 sigma pairs and 15000 cl pairs", tot.facts.get("strict-pairs:sigma", 0) > 5000 and tot.facts.get("strict-pairs:cl", 0) > 15000
    yield "sigma round trip judged (well conditioned) on more than 5000 grid points", tot.facts.get("sigma-roundtrip:judged", 0) > 5000
    yield "profile arrows compared on both backends", tot.facts.get("profile:iminuit", 0) > 0 and tot.facts.get("profile:scipy", 0) > 0
    yield "central, one-sided, given-bound and sigma specifications all reached", all(tot.facts.get("profile-spec:" + k, 0) > 0 for k in ("central", "low+cl", "high+cl", "low", "high", "low+high", "sigma", "sigma+cl", "sigma+low"))
    yield "more than 100 arrows compared", tot.facts.get("profile-arrows-compared", 0) > 100
    yield "the cl keyword reaching Minuit.mncontour was observed", tot.facts.get("mncontour-observed", 0) > 0
    yield "profiled interval compared exactly at more than 100 ends, for specifications with and without a confidence level", tot.facts.get("profile-range-ends:exact", 0) > 100 and tot.facts.get("profile-range-kind:cl", 0) > 0 and tot.facts.get("profile-range-kind:no-cl", 0) > 0
    yield "public get_profile compared", tot.facts.get("profile-public-route", 0) > 0
    yield "plot_profile read on both backends, for every kind of specification, with and without markers", tot.facts.get("plot-profile:iminuit", 0) > 0 and tot.facts.get("plot-profile:scipy", 0) > 0 and tot.facts.get("plot-profile-without-markers", 0) > 0 and all(
        tot.facts.get("plot-profile-spec:" + k, 0) > 0 for k in ("central", "low+cl", "high+cl", "low", "high", "low+high", "sigma", "sigma+cl", "sigma+low")
    )
    yield "more than 100 drawn markers compared, drawn profile compared with get_profile", tot.facts.get("plot-profile-markers-compared", 0) > 100 and tot.facts.get("plot-profile-vs-get_profile", 0) > 0
    yield "contour polygons read from plot_contours and the matrix plot under both naming conventions", tot.facts.get("plot-contour-labels:sigma", 0) > 0 and tot.facts.get("plot-contour-labels:cl", 0) > 0 and tot.facts.get("plot-matrix-profiles", 0) > 0
    yield "scipy contours at a level other than 1 sigma obtained from the grid and the beacon algorithm", tot.facts.get("scipy-contour-level-not-1:grid", 0) > 0 and tot.facts.get("scipy-contour-level-not-1:beacon", 0) > 0
    yield "more than 20 outcome classes", len(tot.outcomes) > 20


def triage_key(v):
    return (v["sig"].split("|")[0], v["observable"], v["mode"])
