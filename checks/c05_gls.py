"""C05 - for models linear in the parameters the fit returns the GLS solution.

Mode D: complete product of linear problems (design matrices x source mixes x fixed subsets x constraints x
backends x starting points), each fitted with the real API and compared with the closed form (kmc.gls); the same for the
other identifiers of the covariance chi2 (fast_math / Cholesky variants) and for fits built by the wrappers xy_fit / indexed_fit
from every combination of up to two control keywords (p0, dp0, limits, fixed, constraints).
"""
import itertools
import warnings

import numpy as np

from kmc import gls, ref
from kmc.core import JobResult
from kmc.fitworld import FitWorld

PROPERTY = "C05"
RULE = (
    "configurations = (problem, ordered source mix, fixed-parameter subset, constraint set, backend, starting point); each is "
    "fitted through the real API and values, covariance, errors, chi2/goodness of fit, cost and asymmetric errors are compared "
    "with closed-form generalised least squares; non-trivial = covariance non-diagonal or a constraint or a fixed parameter present"
)
ASSUMPTIONS = [
    "tolerances: values 0.03 sigma (iminuit) / 0.05 sigma (scipy); covariance 1e-2 sigma_i sigma_j; chi2 and cost 1e-3; asymmetric = +-sigma within 2 %",
    "scipy asymmetric errors only on the two-parameter problem (1.3 s each)",
    "cost-identifier problems: starting point P1 and the constraint sets () and (simple-rel, matrix-cor) only; wrapper route: default backend (the wrappers have no minimizer keyword), "
    "limits contain the solution, relative uncertainties are passed relative to the data (errors_rel_to_model=False) so that the covariance is parameter independent",
]
TOL_VAL = {"iminuit": 0.03, "scipy": 0.05}
PROBLEMS = [("xy", "linoff"), ("xy", "quadoff"), ("xy", "basis3"), ("indexed", "idx3"), ("xy", "lin@1e-5"), ("xy", "linoff#nodet"), ("indexed", "idx3#nodet")]  # @: y in units x1e-5; #nodet: cost OBJECT without determinant term
# the other identifiers of the chi2 cost function with the full covariance matrix (chi2 solves with a QR decomposition of the
# covariance matrix, the *_fast variants - fast_math=True - with its Cholesky factor): problem "<model>#<identifier>"
COST_IDS = ["chi2_fast", "chi2_covariance", "chi2_covariance_fast"]
COST_PROBLEMS = [(ft, "%s#%s" % (m, c)) for c in COST_IDS for ft, m in (("xy", "linoff"), ("indexed", "idx3"))]
PROBLEMS = PROBLEMS + COST_PROBLEMS
MIX_KINDS = ["y-abs", "y-abs-rho", "y-cov", "y-rel"]
CONS = [(), ("simple",), ("matrix-cov",), ("simple-rel", "matrix-cor")]
MIX_GROUPS = 2  # the ten source mixes of a cost-identifier problem are spread over this many jobs
CONS_COST = [(), ("simple-rel", "matrix-cor")]  # constraint sets / starting points of the cost-identifier problems


def mixes():
    out = [(k,) for k in MIX_KINDS]
    out += list(itertools.combinations(MIX_KINDS, 2))
    return out


def fixed_subsets(par_names):
    out = [()]
    out += [(p,) for p in par_names]
    if len(par_names) >= 3:
        out.append((par_names[0], par_names[2]))
    return out


# ---- multi-fits with shared linear parameters: the stacked system
MULTI_CASES = [(["xy_ab", "xy_ac"], ()), (["xy_ab", "xy_ac"], ("simple",)), (["xy_ab", "idx_ad", "xy_bc"], ("matrix-cov",)), (["xy_ab", "xy_ac"], ("shared",)), (["xy_ab", "idx_ad"], ("simple", "shared"))]


def check_multi(names, extras, backend, fix):
    from kmc.multiworld import MultiWorld

    mw = MultiWorld(names, minimizer=backend)
    with warnings.catch_warnings():
        warnings.simplefilter("ignore")
        for e in extras:
            if e == "shared":
                mw.apply(("shared", "y-abs-rho", "sh0", [0, 1]))
            else:
                mw.apply(("m", ("con", e)))
        if fix:
            mw.apply(("m", ("fix", mw.par_names[-1], round(mw.defaults[mw.par_names[-1]] * 1.1, 6))))
        mw.apply(("m", ("fit",)))
    P = mw.par_names
    rows_W, rows_b, rows_d = [], [], []
    for w in mw.members:
        x, d = w.ref_data()
        idx = [P.index(p) for p in w.par_names]

        def f(pfull, w=w, x=x, idx=idx):
            args = [pfull[i] for i in idx]
            return w.fn(x, *args) if w.ftype == "xy" else w.fn(*args)

        W, b = gls.design(f, len(P))
        rows_W.append(W)
        rows_b.append(b)
        rows_d.append(d)
    W = np.vstack(rows_W)
    b = np.concatenate(rows_b)
    d = np.concatenate(rows_d)
    if mw.shared:
        V = mw.ref_joint()["V"]
    else:
        blocks = [w.ref_covs()["total"] for w in mw.members]
        n = sum(len(x) for x in blocks)
        V = np.zeros((n, n))
        o = 0
        for B in blocks:
            V[o : o + len(B), o : o + len(B)] = B
            o += len(B)
    g = gls.solve(W, b, d, V, P, cons=[mw.con_specs[c] for c in mw.cons], fixed=mw.fixed)
    out = []
    f = mw.multi
    sig = np.sqrt(np.diag(g["cov"]))
    vals = np.asarray(f.parameter_values, dtype=float)
    for i, p in enumerate(P):
        if p in mw.fixed:
            if vals[i] != mw.fixed[p]:
                out.append(("parameter_values:" + p, mw.fixed[p], float(vals[i]), "fixed-moved"))
        elif abs(vals[i] - g["values"][i]) > TOL_VAL[backend] * sig[i]:
            out.append(("parameter_values:" + p, float(g["values"][i]), float(vals[i]), "wrong-value"))
    C = np.asarray(f.parameter_cov_mat, dtype=float)
    for i, p in enumerate(P):
        for j, q in enumerate(P):
            if p in mw.fixed or q in mw.fixed:
                continue
            if abs(C[i, j] - g["cov"][i, j]) > 1e-2 * sig[i] * sig[j]:
                out.append(("parameter_cov_mat[%s,%s]" % (p, q), float(g["cov"][i, j]), float(C[i, j]), "wrong-value"))
    gof = f.goodness_of_fit
    if gof is None or abs(gof - g["chi2"]) > 1e-3 + 1e-6 * abs(g["chi2"]):
        out.append(("goodness_of_fit", g["chi2"], gof, "wrong-value"))
    return out


def run_multi_job(spec):
    _, ci, backend, v, tier = spec
    names, extras = MULTI_CASES[ci]
    res = JobResult()
    for fix in (False, True):
        hist = [dict(multi=ci, backend=backend, fix=fix)]
        try:
            bad = check_multi(names, extras, backend, fix)
        except Exception as e:  # noqa: BLE001
            bad = [("op", "no exception", "%s: %s" % (type(e).__name__, str(e)[:150]), "exception:" + type(e).__name__)]
        res.executions += 1
        res.transitions += 6
        res.evaluations += 5
        key = ("multi", ci, backend, fix)
        res.state(key)
        res.nontriv(key)
        res.observe((key, len(bad)))
        res.outcomes[("multi", backend, "+".join(extras) or "plain", "ok" if not bad else "MISMATCH")] += 1
        res.facts["problem:multi"] += 1
        for o, e, a, m in bad:
            res.violation("multi/%s/%s|%s|%s" % ("+".join(names), backend, "+".join(extras) or "plain", "fix" if fix else "free"), hist, o, e, a, m)
    res.sample(dict(kind="multi", members=names, extras=list(extras), backend=backend))
    return res.as_dict()


# ---- the convenience wrappers as a construction route of linear problems: xy_fit / indexed_fit called with the uncertainty
# keywords and every combination of up to two of the control keywords p0, dp0, limits, fixed (with / without a value),
# constraints (plus two larger combinations); the closed form uses what the keywords ask for: a parameter fixed "at the given
# value" is a deleted column at that value whatever p0 says, fixed without a value is fixed at its p0 entry (or the default),
# constraints are measurement rows, limits that contain the solution and step sizes (dp0) change nothing
WRAPPER_PROBLEMS = [("xy_fit", "linoff"), ("xy_fit", "quadoff"), ("indexed_fit", "idx3")]
WRAPPER_ERRSETS = ["vector", "matrix", "vector+cor", "vector+rel-to-data", "scalar+cor-list"]
WRAPPER_ITEMS = ("p0", "dp0", "lim", "fixv", "fixn", "con1", "con2")


def wrapper_combos():
    out = [()] + [(i,) for i in WRAPPER_ITEMS]
    out += [(i, j) for a, i in enumerate(WRAPPER_ITEMS) for j in WRAPPER_ITEMS[a + 1 :] if (i, j) not in (("fixv", "fixn"), ("con1", "con2"))]
    out += [("p0", "dp0", "lim", "fixv", "con2"), ("p0", "lim", "fixn", "con1"), ("p0", "fix2", "con1"), ("fix2",)]
    return out


class _WrapperWorld(object):
    """What reference() / check_fit() read from a world, for a fit that was built by a wrapper function."""

    cost_id = "chi2"

    def __init__(self, ftype, fn, fit, x, d, V, cons, fixed):
        self.ftype, self.fn, self.fit, self._x, self._d, self._V = ftype, fn, fit, x, d, V
        self.par_names = list(fit.parameter_names)
        self.con_specs = dict(enumerate(cons))
        self.cons = list(self.con_specs)
        self.fixed = dict(fixed)

    def ref_data(self):
        return self._x, self._d

    def ref_covs(self):
        return {"total": self._V}

    def ref_ndf(self):
        return len(self._d) + len(self.cons) - len(self.par_names) + len(self.fixed)


def wrapper_case(wname, model, errset, combo, v):
    """-> (keyword arguments of the wrapper call, function building the reference world from the returned fit)"""
    from kmc.valuations import V

    val = V(v, 8)
    n = 8
    y = val.y
    ones = np.ones((n, n))
    pre = "y_" if wname == "xy_fit" else ""
    ekw, Vt = {
        "vector": ({pre + "error": val.ey}, np.diag(val.ey**2)),
        "matrix": ({pre + "error": val.My}, np.array(val.My, dtype=float)),
        "vector+cor": ({pre + "error": val.ey, pre + "error_cor": val.ys}, np.diag(val.ey**2) + val.ys**2 * ones),
        "vector+rel-to-data": ({pre + "error": val.ey, pre + "error_rel": val.ry, "errors_rel_to_model": False}, np.diag(val.ey**2) + np.diag((val.ry * y) ** 2)),
        "scalar+cor-list": ({pre + "error": val.ys, pre + "error_cor": [0.11, 0.07]}, val.ys**2 * np.eye(n) + (0.11**2 + 0.07**2) * ones),
    }[errset]
    if wname == "xy_fit":
        fn = ref.MODELS[model]
        pos = (fn, val.x, y)
    else:
        fn = ref.make_indexed_model(n, 3)
        pos = (fn, y)
    import inspect

    names = [q for q in inspect.signature(fn).parameters if q != "x"]
    dflt = [float(inspect.signature(fn).parameters[q].default) for q in names]
    p0 = [round(t * 1.15 + 0.1, 6) for t in dflt]
    items = {
        "p0": dict(p0=p0),
        "dp0": dict(dp0=[0.05 + 0.02 * i for i in range(len(names))]),
        "lim": dict(limits=[(names[0], -50.0, 50.0), (names[1], None, 60.0)]),
        "fixv": dict(fixed=[(names[1], round(dflt[1] * 1.2 + 0.13, 6))]),
        "fixn": dict(fixed=[(names[1],)]),
        "fix2": dict(fixed=[(names[0], round(dflt[0] * 0.9 - 0.07, 6)), (names[-1],)]),
        "con1": dict(constraints=[(names[0], round(dflt[0] * 1.3 + 0.2, 6), 0.35)]),
        "con2": dict(constraints=[(names[1], round(dflt[1] * 0.7 + 0.35, 6), 0.2, True), (names[0], round(dflt[0] * 1.2 + 0.1, 6), 0.3)]),
    }
    if "fix2" in combo and len(names) < 3:
        return None
    m = dict(p0=None, dp0=None, limits=[], fixed=[], constraints=[])
    for it in combo:
        for k, x_ in items[it].items():
            m[k] = (m[k] + list(x_)) if isinstance(m[k], list) else x_
    kw = dict(ekw)
    for k in ("p0", "dp0"):
        if m[k] is not None:
            kw[k] = list(m[k])
    for k in ("limits", "fixed", "constraints"):
        if m[k]:
            kw[k] = tuple(m[k][0]) if len(m[k]) == 1 else [tuple(e) for e in m[k]]  # one bare entry or a list of entries
    start = p0 if m["p0"] is not None else dflt
    fixed = dict((e[0], float(e[1]) if len(e) > 1 else float(start[names.index(e[0])])) for e in m["fixed"])
    cons = [dict(form="simple", name=c[0], value=c[1], uncertainty=c[2], relative=bool(c[3]) if len(c) > 3 else False) for c in m["constraints"]]

    def world(fit):
        return _WrapperWorld("xy" if wname == "xy_fit" else "indexed", fn, fit, val.x if wname == "xy_fit" else None, y, Vt, cons, fixed)

    return pos, kw, world


def execute_wrapper(wname, model, errset, combo, v):
    import kafe2

    case = wrapper_case(wname, model, errset, tuple(combo), v)
    if case is None:
        return None
    pos, kw, world = case
    with warnings.catch_warnings():
        warnings.simplefilter("ignore")
        r = getattr(kafe2, wname)(*pos, save=False, report=False, profile=True, **kw)
        w = world(r["fit"])
        g = reference(w)
        bad = []
        sig = np.sqrt(np.diag(g["cov"]))
        for i, q in enumerate(w.par_names):  # the returned result dictionary
            got = float(r["parameter_values"][q])
            if (q in w.fixed and got != w.fixed[q]) or abs(got - g["values"][i]) > TOL_VAL["iminuit"] * sig[i]:
                bad.append(("result[parameter_values]:" + q, float(g["values"][i]), got, "fixed-moved" if q in w.fixed else "wrong-value"))
        if r["goodness_of_fit"] is None or abs(r["goodness_of_fit"] - g["chi2"]) > 1e-3 + 1e-6 * abs(g["chi2"]):
            bad.append(("result[goodness_of_fit]", g["chi2"], r["goodness_of_fit"], "wrong-value"))
        bad += check_fit(w, "iminuit", True)
    return bad


def run_wrapper_job(spec):
    _, wi, eg, v, tier = spec
    wname, model = WRAPPER_PROBLEMS[wi]
    res = JobResult()
    for errset, combo in itertools.product(WRAPPER_ERRSETS[eg::2], wrapper_combos()):
        hist = [dict(wrapper=wi, errset=errset, combo=list(combo), v=v)]
        sg = "wrapper/%s/%s|%s|%s" % (wname, model, errset, "+".join(combo) or "plain")
        try:
            bad = execute_wrapper(wname, model, errset, combo, v)
        except Exception as e:  # noqa: BLE001
            bad = [("op", "no exception", "%s: %s" % (type(e).__name__, str(e)[:150]), "exception:" + type(e).__name__)]
        if bad is None:
            continue
        res.executions += 1
        res.transitions += 2 + len(combo)
        res.evaluations += 9
        key = ("wrapper", wi, errset, combo, v)
        res.state(key)
        if combo or errset != "vector":
            res.nontriv(key)
        res.observe((key, len(bad)))
        res.outcomes[("wrapper:" + wname, model, errset, "ok" if not bad else "MISMATCH")] += 1
        res.facts["problem:wrapper"] += 1
        for o, e, a, md in bad:
            res.violation(sg, hist, o, e, a, md)
    res.sample(dict(kind="wrapper", wrapper=wname, model=model, errsets=WRAPPER_ERRSETS[eg::2], combos=["+".join(c) for c in wrapper_combos()][:6]))
    return res.as_dict()


def jobs(tier, seed):
    v = seed % 3
    specs = []
    for vv in ([v] if tier == "quick" else [0, 1, 2]):
        for prob in PROBLEMS:
            for backend in ("iminuit", "scipy"):
                if "@" in prob[1] and backend == "scipy":
                    continue  # the scipy backend is not scale invariant (open finding KF-C15-02); the small-unit problem is run with iminuit
                if tuple(prob) in COST_PROBLEMS:
                    for gi in range(MIX_GROUPS):
                        specs.append((prob, backend, "GROUP%d" % gi, vv, tier))  # several source mixes in one job
                    continue
                for mi, mix in enumerate(mixes()):
                    specs.append((prob, backend, mix, vv, tier))
        for ci in range(len(MULTI_CASES)):
            for backend in ("iminuit", "scipy"):
                specs.append(("multi", ci, backend, vv, tier))
        for wi in range(len(WRAPPER_PROBLEMS)):
            for eg in range(2):
                specs.append(("wrapper", wi, eg, vv, tier))  # the uncertainty-keyword sets eg, eg + 2, ...
    return specs


def bound(tier, seed):
    return "7 linear problems (one with y in units x1e-5, two with a cost-function object without determinant term) + 5 multi-fits with shared linear parameters (stacked system; multi-fit constraints, shared source, fixed parameter) x 10 source mixes x all single fixed parameters (+1 pair) x 4 constraint sets x 2 backends x 2 starting points; cost identifiers chi2_fast / chi2_covariance / chi2_covariance_fast (Cholesky instead of QR) on the xy and the indexed problem x 10 source mixes x fixed subsets x 2 constraint sets x 2 backends; the wrappers xy_fit (2 models) / indexed_fit as construction route x 5 uncertainty-keyword sets x none, each and every pair of {p0, dp0, limits, fixed with value, fixed without value, one constraint, two constraints} + 4 larger combinations, profile=True; valuation(s) %s" % ((seed % 3) if tier == "quick" else "0,1,2")


def build_ops(mix, cons, start, fixed):
    ops = [("add", k, "e%d" % i) for i, k in enumerate(mix)]
    ops += [("con", c) for c in cons]
    if start == "P1":
        ops.append(("set", "P1"))
    ops += [("fix", p) for p in fixed]
    ops.append(("fit",))
    return ops


def reference(w):
    x, d = w.ref_data()
    names = w.par_names
    if w.ftype == "xy":
        f = lambda p: w.fn(x, *p)  # noqa: E731
    else:
        f = lambda p: w.fn(*p)  # noqa: E731
    W, b = gls.design(f, len(names))
    V = w.ref_covs()["total"]
    cons = [w.con_specs[c] for c in w.cons]
    return gls.solve(W, b, d, V, names, cons=cons, fixed=w.fixed)


def check_fit(w, backend, with_asym):
    """-> list of (observable, expected, actual, mode)"""
    out = []
    f = w.fit
    g = reference(w)
    names = w.par_names
    sig = np.sqrt(np.diag(g["cov"]))
    vals = np.asarray(f.parameter_values, dtype=float)
    for i, p in enumerate(names):
        if p in w.fixed:
            if vals[i] != w.fixed[p]:
                out.append(("parameter_values:" + p, w.fixed[p], float(vals[i]), "fixed-moved"))
        elif abs(vals[i] - g["values"][i]) > TOL_VAL[backend] * sig[i]:
            out.append(("parameter_values:" + p, float(g["values"][i]), float(vals[i]), "wrong-value"))
    C = f.parameter_cov_mat
    if C is None:
        out.append(("parameter_cov_mat", "matrix", None, "missing"))
    else:
        C = np.asarray(C, dtype=float)
        for i, p in enumerate(names):
            for j, q in enumerate(names):
                if p in w.fixed or q in w.fixed:
                    if C[i, j] != 0:
                        out.append(("parameter_cov_mat[%s,%s]" % (p, q), 0.0, float(C[i, j]), "fixed-nonzero"))
                elif abs(C[i, j] - g["cov"][i, j]) > 1e-2 * sig[i] * sig[j]:
                    out.append(("parameter_cov_mat[%s,%s]" % (p, q), float(g["cov"][i, j]), float(C[i, j]), "wrong-value"))
        errs = np.asarray(f.parameter_errors, dtype=float)
        if not np.allclose(errs, np.sqrt(np.diag(C)), rtol=3e-2, atol=0):  # MIGRAD running estimate vs HESSE: per-cent level is within the minimizer tolerance
            out.append(("parameter_errors", np.sqrt(np.diag(C)).tolist(), errs.tolist(), "inconsistent"))
    gof = f.goodness_of_fit
    if gof is None or abs(gof - g["chi2"]) > 1e-3 + 1e-6 * abs(g["chi2"]):
        out.append(("goodness_of_fit", g["chi2"], gof, "wrong-value"))
    cost = f.cost_function_value
    ecost = g["chi2"] + (0.0 if w.cost_id == "chi2:nodet" else g["logdet"])
    if abs(cost - ecost) > 1e-3 + 1e-6 * abs(g["chi2"]):
        out.append(("cost_function_value", ecost, float(cost), "wrong-value"))
    if f.ndf != w.ref_ndf():
        out.append(("ndf", w.ref_ndf(), f.ndf, "wrong-value"))
    if with_asym:
        with warnings.catch_warnings():
            warnings.simplefilter("ignore")
            A = np.asarray(f.asymmetric_parameter_errors, dtype=float)
        for i, p in enumerate(names):
            if p in w.fixed:
                if np.any(A[i] != 0):
                    out.append(("asymmetric_parameter_errors:" + p, [0, 0], A[i].tolist(), "fixed-nonzero"))
            elif abs(A[i, 0] + sig[i]) > 2e-2 * sig[i] or abs(A[i, 1] - sig[i]) > 2e-2 * sig[i]:
                out.append(("asymmetric_parameter_errors:" + p, [-sig[i], sig[i]], A[i].tolist(), "wrong-value"))
        # asking for asymmetric errors must not move the optimum
        vals2 = np.asarray(f.parameter_values, dtype=float)
        for i, p in enumerate(names):
            if p not in w.fixed and abs(vals2[i] - g["values"][i]) > TOL_VAL[backend] * sig[i]:
                out.append(("parameter_values_after_asymmetric:" + p, float(g["values"][i]), float(vals2[i]), "wrong-value"))
    return out


def _world(ftype, model, v, backend):
    if "#" in model:
        m, flag = model.split("#")
        return FitWorld(ftype, "chi2:nodet" if flag == "nodet" else flag, model=m, v=v, n=8, minimizer=backend)
    if "@" in model:
        m, sc = model.split("@")
        return FitWorld(ftype, "chi2", model=m, v=v, n=8, minimizer=backend, yscale=float(sc))
    return FitWorld(ftype, "chi2", model=model, v=v, n=8, minimizer=backend)


def execute(cfg, ops, with_asym):
    (ftype, model), backend, v = cfg
    w = _world(ftype, model, v, backend)
    with warnings.catch_warnings():
        warnings.simplefilter("ignore")
        for op in ops:
            w.apply(tuple(op))
    return w, check_fit(w, backend, with_asym)


def run_job(spec):
    if spec[0] == "multi":
        return run_multi_job(spec)
    if spec[0] == "wrapper":
        return run_wrapper_job(spec)
    prob, backend, mix, v, tier = spec
    res = JobResult()
    grouped = isinstance(mix, str)
    mine = mixes()[int(mix[5:]) :: MIX_GROUPS] if grouped else [mix]
    for mx in mine:
        _run_mix(res, prob, backend, tuple(mx), v)
    res.facts["backend:" + backend] += 1
    res.facts["problem:" + prob[1]] += 1
    names = _world(prob[0], prob[1], v, backend).par_names
    res.sample(dict(problem=list(prob), backend=backend, mix=list(mine[0]), valuation=v, example_ops=[list(o) for o in build_ops(mine[0], CONS[1], "P1", (names[0],))]))
    return res.as_dict()


def _run_mix(res, prob, backend, mix, v):
    cfg = (prob, backend, v)
    w0 = _world(prob[0], prob[1], v, backend)
    names = w0.par_names
    by_cost_id = tuple(prob) in COST_PROBLEMS
    for cons in (CONS_COST if by_cost_id else CONS):
        if any(n not in names for c in cons for n in ([w0.con_specs[c].get("name")] if w0.con_specs[c]["form"] == "simple" else w0.con_specs[c]["names"])):
            continue
        for fixed in fixed_subsets(names):
            for start in (("P1",) if by_cost_id else ("P0", "P1")):
                ops = build_ops(mix, cons, start, fixed)
                with_asym = (backend == "iminuit" and "@" not in prob[1]) or (prob[1] == "linoff" and len(mix) == 1 and not fixed and start == "P0")
                hist = [dict(cfg=[list(prob), backend, v], asym=with_asym)] + [list(o) for o in ops]
                try:
                    w, bad = execute(cfg, ops, with_asym)
                except Exception as e:  # noqa: BLE001
                    res.violation(_sig(prob, backend, ops), hist, "op", "no exception", "%s: %s" % (type(e).__name__, str(e)[:150]), "exception:" + type(e).__name__)
                    res.executions += 1
                    continue
                res.executions += 1
                res.transitions += len(ops)
                key = (prob, backend, mix, cons, fixed, start, v)
                res.state(key)
                if len(mix) > 1 or cons or fixed or any(k != "y-abs" for k in mix):
                    res.nontriv(key)
                res.evaluations += 6 + (1 if with_asym else 0)
                res.observe((key, [round(float(x), 6) for x in w.fit.parameter_values]))
                res.outcomes[(prob[1], backend, "fixed%d" % len(fixed), "cons%d" % len(cons), "ok" if not bad else "MISMATCH")] += 1
                for obs, exp, act, mode in bad:
                    res.violation(_sig(prob, backend, ops), hist, obs, exp, act, mode)


def _sig(prob, backend, ops):
    return "%s/%s/%s|%s" % (prob[0], prob[1], backend, ";".join(":".join(str(x) for x in o[:2]) for o in ops))


def replay(history):
    head = history[0]
    if "wrapper" in head:
        wname, model = WRAPPER_PROBLEMS[head["wrapper"]]
        try:
            bad = execute_wrapper(wname, model, head["errset"], head["combo"], head["v"]) or []
        except Exception as e:  # noqa: BLE001
            bad = [("op", "no exception", type(e).__name__, "exception:" + type(e).__name__)]
        return [dict(observable=o, expected=e, actual=a, mode=m) for o, e, a, m in bad]
    if "multi" in head:
        names, extras = MULTI_CASES[head["multi"]]
        try:
            bad = check_multi(names, extras, head["backend"], head["fix"])
        except Exception as e:  # noqa: BLE001
            bad = [("op", "no exception", type(e).__name__, "exception:" + type(e).__name__)]
        return [dict(observable=o, expected=e, actual=a, mode=m) for o, e, a, m in bad]
    cfg = (tuple(head["cfg"][0]), head["cfg"][1], head["cfg"][2])
    try:
        w, bad = execute(cfg, history[1:], head.get("asym", False))
    except Exception as e:  # noqa: BLE001
        return [dict(observable="op", expected="no exception", actual=type(e).__name__, mode="exception:" + type(e).__name__)]
    return [dict(observable=o, expected=e, actual=a, mode=m) for o, e, a, m in bad]


def triage_key(v):
    return (v["sig"].split("|")[0], v["observable"].split(":")[0].split("[")[0], v["mode"])


def vacuity_guards(tot, tier):
    yield "both backends fitted", tot.facts.get("backend:iminuit", 0) > 0 and tot.facts.get("backend:scipy", 0) > 0
    yield "all four problems fitted", all(tot.facts.get("problem:" + p[1], 0) > 0 for p in PROBLEMS)
    yield "wrapper route fitted", tot.facts.get("problem:wrapper", 0) > 0
