"""C09 - saving and reloading any object reproduces it.

Mode D (complete products of small alphabets) over every serialisable object kind, plus mode B (all write
sequences up to a depth, then read) on ONE path.  Differential oracle: the object that was written and the object
that was read back are observed through the public API under the same sequence of operations and must agree;
the YAML document of a second save/load cycle must equal the first one.
"""
import collections
import itertools
import os
import shutil
import tempfile
import warnings

from kmc import c09_world as W
from kmc.core import JobResult

PROPERTY = "C09"
RULE = (
    "objects = complete products over (container type x ordered source list x disabled subset x labels), (parametric "
    "model type x sources x parameter point x labels), model functions (def-source / library name / SymPy string x "
    "3 classes x customised formatter), constraints (simple/matrix x abs/rel x cov/cor), fits (5 types x model x cost "
    "identifier x source mix x fixed/limited/constrained state x {unfitted, moved, fitted, fitted with asymmetric "
    "errors} x labels), save_state/load_state pairs; each object is written with to_file, read back through "
    "type(obj).from_file, written and read a second time, and both objects are driven through the same operations "
    "(3 parameter points, refit); histories = all sequences of 1..3 writes of pool objects to ONE path followed by a "
    "read.  A case is non-trivial when the object carries at least one source, constraint, fixed/limited parameter, "
    "label, non-default parameter value or stored fit result (i.e. something beyond the constructor defaults that the "
    "file has to carry)"
)
ASSUMPTIONS = [
    "model, density, antiderivative and cost functions are self-contained def-sources using numpy only (kafe2 re-executes the stored source in a namespace that offers np/scipy; closures and other globals are outside the statement)",
    "assigning a value to a fixed parameter and limits that exclude the current value are not generated (meaning left open, DESIGN 6.2)",
    "stored fit results are compared immediately after loading and again after a refit of both objects; between, only point observables (cost, model, totals) are compared",
    "refits use iminuit (scipy with limits is the separate finding D30) and are compared with the fit tolerances of DESIGN 3.4; numerical results of a refit are compared only when the refit of the ORIGINAL object is well-posed (finite, relative parameter uncertainties <= 15 %), its uncertainties only after a real minimisation (object saved before a fit) inside the chi2/ndf window 0.3..3; ill-posed refits still have to run and agree in did_fit and ndf",
    "parameter_errors of a fit that was never fitted are initial step sizes, not stored results: only their availability is compared",
    "formatted report texts are compared modulo one unit of the last printed digit (rounding ties, DESIGN 6.5)",
    "the run-private temporary directory is on a local file system; the minute-resolution time stamp in the preface comment is excluded by stripping comment lines",
    "MultiFit and cost-function objects inherit to_file but are not among the serialisable kinds of the statement and are not generated",
]

# tolerances (DESIGN 3.4).  Exact-path quantities: 1e-9 relative to the scale of the enclosing array.  Measured on the
# repaired tree (thorough tier, 1.1e6 comparisons): 43 613 comparisons not bit-identical, all within 1e-13 (30 above
# 1e-14); YAML floats are written with repr() and round-trip exactly.  Margin >= 1e4.
RTOL_EXACT = 1e-9
# refit of two equal problems from the same start point (iminuit), thorough tier, 6 636 well-posed refit pairs:
# |dp|/sigma <= 3e-3 (8 pairs above 3e-4), |dcost| <= 1e-5, |dsigma|/sigma <= 7.7e-4 inside the chi2/ndf window
# -> tolerances 0.03 sigma, 1e-3 absolute, 5e-2 relative (the DESIGN 3.4 values; margins >= 10x, 100x, 65x)
REFIT_DP_SIGMA = 0.03
REFIT_DCOST = 1e-3
REFIT_DERR_REL = 5e-2

# ---------------------------------------------------------------------------------------
# alphabets

IDX_KINDS = ["y-abs", "y-abs-s", "y-abs-rho", "y-abs-rho1", "y-rel", "y-relv-rho", "y-cov", "y-cor", "y-cov-rel", "y-cor-rel", "y-near", "y-tiny", "y-cor-near"]
X_KINDS = ["x-abs", "x-abs-s", "x-abs-rho", "x-rel", "x-cov", "x-near"]


def _mixes(kinds, pair_with):
    """source lists: none, every single kind, and every kind DISABLED next to an enabled scalar source"""
    out = [[]]
    for k in kinds:
        out.append([[k, True]])
    for k in kinds:
        out.append([[pair_with, True], [k, False]])
    return out


def _pairs(core):
    """ordered pairs of the core kinds with none / the first one disabled"""
    out = []
    for a, b in itertools.permutations(core, 2):
        out.append([[a, True], [b, True]])
        out.append([[a, False], [b, True]])
    return out


def container_specs(tier, v):
    specs = []
    for ct, kinds, core in (
        ("indexed", IDX_KINDS, ["y-abs", "y-rel", "y-cov", "y-cor-rel"]),
        ("xy", IDX_KINDS + X_KINDS, ["y-abs", "x-abs", "y-cov-rel", "x-rel", "x-cov"]),
        ("hist-fill", IDX_KINDS, ["y-abs", "y-rel", "y-cor"]),
        ("hist-set", IDX_KINDS, ["y-abs", "y-rel", "y-cor"]),
        ("hist-equi", ["y-abs"], []),
    ):
        mixes = _mixes(kinds, "y-abs-s") + _pairs(core)
        if tier == "thorough":
            mixes += [[[a, True], [b, True], [c, False]] for a, b, c in itertools.permutations(core, 3)]
        for labels in (False, True):
            for mix in mixes:
                specs.append(dict(kind="container", ctype=ct, v=v, sources=mix, labels=labels))
    for labels in (False, True):
        specs.append(dict(kind="container", ctype="unbinned", v=v, sources=[], labels=labels))
    for ct in ("indexed", "xy"):
        for mix in ([["y-tiny", True]], [["y-abs", True], ["y-tiny", True]], [["y-rel", True]], [["y-cov-rel", True]]):
            specs.append(dict(kind="container", ctype=ct, v=v, sources=mix, labels=False, variant="nano"))
    return specs


def model_specs(tier, v):
    specs = []
    yk = ["y-abs", "y-abs-rho", "y-rel", "y-relv-rho", "y-cov", "y-cor", "y-cov-rel", "y-cor-rel", "y-near"]
    for mt, model, kinds in (
        ("xy", "lin", yk + ["x-abs", "x-rel", "x-cov"]),
        ("xy", "expo", ["y-rel", "x-abs"]),
        ("indexed", "idx2", yk),
        ("hist", "normal", yk),
        ("unbinned", "normal", []),
    ):
        mixes = _mixes(kinds, "y-abs-s") if kinds else [[]]
        for pars in ("P0", "P1"):
            for labels in (False, True):
                for mix in mixes:
                    specs.append(dict(kind="model", mtype=mt, v=v, model=model, sources=mix, pars=pars, labels=labels))
    for be in ("rectangle", "trapezoid", "simpson", "numerical"):
        specs.append(dict(kind="model", mtype="hist", v=v, model="normal", sources=[["y-rel", True]], pars="P1", labels=False, bin_evaluation=be))
    specs.append(dict(kind="model", mtype="hist", v=v, model="parab", sources=[["y-rel", True]], pars="P1", labels=False, bin_evaluation="antiderivative"))
    return specs


def modelfunc_specs(tier, v):
    return [dict(kind="modelfunc", mf=k, fmt=fmt, v=v) for k in W.MODEL_FUNCTIONS for fmt in (0, 1, 2)]


def constraint_specs(tier, v):
    return [dict(kind="constraint", c=k, v=v) for k in W.CONSTRAINTS]


def formatter_specs(tier, v):
    return [dict(kind="formatter", f=k, v=v) for k in W.FORMATTERS]


PSTATES = [
    "none", "fix", "fixval", "fix2", "lim", "limbite", "limlow", "unlimbite", "fixrel", "fixset", "fixsetall",
    "con-simple", "con-simple-rel", "con-matrix-cov", "con-matrix-cor", "con-matrix-cov-rel", "con-simple+con-matrix-cor",
    "fix+lim+con-simple-rel",
]  # fmt: skip
STATES = ["unfit", "moved", "fit", "asym"]

FIT_TYPES = collections.OrderedDict(
    [
        # ftype -> (models, cost ids (first = default), source mixes)
        ("xy", (["lin", "expo"], [None, "chi2", "chi2_pointwise", "nll-gaussian", "nllr-poisson", "gauss_approximation", "user"])),
        ("indexed", (["idx2"], [None, "chi2", "chi2_no_errors", "nllr-gaussian", "nll", "user"])),
        ("hist", (["normal"], [None, "chi2", "nllr", "gauss_approximation"])),
        ("unbinned", (["normal"], [None])),
        ("custom", (["custom"], [None])),
    ]
)


STRING_MODELS = ["lib-linear", "sympy-lin", "sympy-exp"]


def fit_mixes(ft, tier):
    if ft in ("unbinned", "custom"):
        return [[]]
    yk = ["y-abs", "y-abs-rho", "y-rel", "y-relv-rho", "y-cov", "y-cor", "y-cov-rel", "y-cor-rel", "y-near"]
    mk = ["y-rel-model", "y-abs-model", "y-cov-model"]
    if ft == "xy":
        yk = yk + ["x-abs", "x-rel", "x-cov"]
        mk = mk + ["x-abs-model"]
    out = [[[k, True]] for k in yk]  # every data-referenced kind alone
    out += [[["y-abs", True], [k, True]] for k in mk]  # every model-referenced kind next to a data source
    out += [[["y-abs", True], [k, False]] for k in ["y-abs-rho", "y-cov", "y-rel-model"] + (["x-abs"] if ft == "xy" else [])]  # one disabled
    out += [[["y-abs", False], ["y-cov", True]], [["y-rel-model", True]], [["y-rel-model", True], ["y-abs", False]]]
    if ft == "xy":
        out += [[["y-abs", True], ["x-abs", True]], [["x-abs", True], ["y-cov", True], ["y-rel-model", True]]]
    if tier == "thorough":
        out += [[[a, True], [b, True]] for a, b in itertools.permutations(["y-abs", "y-rel", "y-cor-rel", "y-rel-model"] + (["x-abs", "x-rel"] if ft == "xy" else []), 2)]
    seen, uniq = set(), []
    for m in out:
        if repr(m) not in seen:
            seen.add(repr(m))
            uniq.append(m)
    return uniq


def _fit_ok(ft, cost, mix, pstate, state):
    """configurations outside the statement / outside well-posedness (not generated)"""
    needs = ft in ("xy", "indexed", "hist") and cost in ("chi2_pointwise", "nll-gaussian", "nllr-gaussian")
    poisson = cost in ("nll", "nllr", "nllr-poisson") or (ft == "hist" and cost is None)
    enabled = [k for k, en in mix if en]
    if needs and not enabled:
        return False  # an error-needing cost without any enabled source is excluded by the statement of C01
    if (poisson or cost in ("user", "chi2_no_errors")) and mix:
        return len(mix) == 1  # sources do not enter these costs: one declared source that must survive is enough
    return True


def fit_specs(tier, v):
    specs = []

    def add(**kw):
        kw = dict(kind="fit", v=v, **kw)
        if _fit_ok(kw["ftype"], kw.get("cost"), kw.get("sources", []), kw.get("pstate"), kw.get("state")):
            specs.append(kw)

    for ft, (models, costs) in FIT_TYPES.items():
        mixes = fit_mixes(ft, tier)
        base_mix = mixes[0] if mixes[0] else []
        default_cost = "chi2" if ft in ("xy", "indexed", "hist") else None
        for im, model in enumerate(models):
            full = tier == "thorough"
            reduced = im > 0 and not full  # further models of a type: reduced product in the quick tier
            states = ["unfit", "fit"] if reduced else STATES
            # (a) every source mix x every state (no parameter decoration)
            for mix in mixes:
                for st in states:
                    add(ftype=ft, model=model, cost=default_cost, sources=mix, pstate="none", state=st, labels=False)
            # (b) every parameter decoration x every state on the first mix (and on a second mix in the thorough tier)
            for mix in [base_mix] + ([mixes[-1]] if full and len(mixes) > 1 else []):
                for ps in ["fix", "limbite", "con-simple-rel"] if reduced else PSTATES[1:]:
                    for st in states:
                        add(ftype=ft, model=model, cost=default_cost, sources=mix, pstate=ps, state=st, labels=False)
            if reduced:
                continue
            # (c) every cost identifier x every state
            for cost in costs:
                for st in STATES:
                    for mix in [base_mix, []]:
                        add(ftype=ft, model=model, cost=cost, sources=mix, pstate="none", state=st, labels=False)
            # (d) labels / formatter customisation x state
            for st in STATES:
                add(ftype=ft, model=model, cost=default_cost, sources=base_mix, pstate="fix+lim+con-simple-rel", state=st, labels=True)
                add(ftype=ft, model=model, cost=default_cost, sources=base_mix, pstate="none", state=st, labels=True)
                add(ftype=ft, model=model, cost=default_cost, sources=base_mix, pstate="none", state=st, labels=2)
            if full:
                for mix in mixes:
                    for ps in ("fix+lim+con-simple-rel", "con-matrix-cov-rel"):
                        for st in ("unfit", "fit"):
                            add(ftype=ft, model=model, cost=default_cost, sources=mix, pstate=ps, state=st, labels=True)
    # model functions given as library name / SymPy string inside a fit
    for model in STRING_MODELS:
        for st in STATES:
            for labels in (False, True, 2):
                add(ftype="xy", model=model, cost="chi2", sources=[["y-abs", True]], pstate="none", state=st, labels=labels)
            add(ftype="xy", model=model, cost="chi2", sources=[["y-abs", True], ["y-rel-model", True]], pstate="fix+lim+con-simple-rel", state=st, labels=False)
    # histogram specials: set_bins data, bin evaluation variants, density switch
    for st in STATES:
        add(ftype="hist", model="normal", cost=None, sources=[], pstate="none", state=st, labels=False, hist_data="set")
        add(ftype="hist", model="normal", cost="chi2", sources=[["y-abs", True]], pstate="none", state=st, labels=False, hist_data="set")
        for be in ("rectangle", "numerical"):
            add(ftype="hist", model="normal", cost=None, sources=[], pstate="none", state=st, labels=False, bin_evaluation=be)
        add(ftype="hist", model="parab", cost=None, sources=[], pstate="none", state=st, labels=False, bin_evaluation="antiderivative")
        add(ftype="hist", model="normal", cost=None, sources=[], pstate="none", state=st, labels=False, density=False)
    # tiny-magnitude data and uncertainties (data O(1e-9), uncertainties O(1e-10))
    for ft, model in (("xy", "lin_nano"), ("indexed", "idx2_nano")):
        for st in STATES:
            add(ftype=ft, model=model, cost="chi2", sources=[["y-tiny", True]], pstate="none", state=st, labels=False, variant="nano")
            add(ftype=ft, model=model, cost="chi2", sources=[["y-rel", True]], pstate="con-simple-rel", state=st, labels=False, variant="nano")
    # asymmetric errors requested through to_file itself; scipy as the stored minimizer
    for ft, (models, costs) in FIT_TYPES.items():
        dc = "chi2" if ft in ("xy", "indexed", "hist") else None
        mix = [["y-abs", True]] if ft in ("xy", "indexed", "hist") else []
        add(ftype=ft, model=models[0], cost=dc, sources=mix, pstate="none", state="fit", labels=False, save="asym")
        add(ftype=ft, model=models[0], cost=dc, sources=mix, pstate="fix", state="fit", labels=False, save="asym")
        for st in ("unfit", "fit"):
            add(ftype=ft, model=models[0], cost=dc, sources=mix, pstate="none", state=st, labels=False, minimizer="scipy")
    # iterative treatment of parameter-dependent uncertainties chosen at construction
    for ft, model in (("xy", "lin"), ("xy", "expo"), ("indexed", "idx2"), ("hist", "normal")):
        for mix in ([["y-abs", True], ["y-rel-model", True]], [["y-rel-model", True]]) + (([["y-abs", True], ["x-abs", True]],) if ft == "xy" else ()):
            for st in STATES:
                add(ftype=ft, model=model, cost="chi2", sources=mix, pstate="none", state=st, labels=False, dea="iterative")
    # save_state / load_state
    for ft, (models, costs) in FIT_TYPES.items():
        dc = "chi2" if ft in ("xy", "indexed", "hist") else None
        mix = [["y-abs", True]] if ft in ("xy", "indexed", "hist") else []
        for ps in ("none", "fix", "lim", "con-simple-rel"):
            for st in STATES:
                add(ftype=ft, model=models[0], cost=dc, sources=mix, pstate=ps, state=st, labels=False, flow="state")
    return specs


HISTORY_POOL = collections.OrderedDict(
    [
        ("xy-long", dict(kind="container", ctype="xy", sources=[["y-cov", True], ["x-cov", True], ["y-cor-rel", True]], labels=True)),
        ("idx-short", dict(kind="container", ctype="indexed", sources=[], labels=False)),
        ("hist-set", dict(kind="container", ctype="hist-set", sources=[["y-abs", True]], labels=False)),
        ("unbinned", dict(kind="container", ctype="unbinned", sources=[], labels=False)),
        ("fit-xy", dict(kind="fit", ftype="xy", model="lin", cost="chi2", sources=[["y-abs", True], ["x-abs", True]], pstate="con-simple", state="fit", labels=True)),
        ("fit-custom", dict(kind="fit", ftype="custom", model="custom", cost=None, sources=[], pstate="none", state="unfit", labels=False)),
        ("mf-def", dict(kind="modelfunc", mf="base-def", fmt=False)),
        ("model-idx", dict(kind="model", mtype="indexed", model="idx2", sources=[["y-abs", True]], pars="P1", labels=False)),
        ("con-matrix", dict(kind="constraint", c="matrix3-cov-abs")),
        ("con-simple", dict(kind="constraint", c="simple-abs")),
    ]
)


def history_specs(tier, v):
    keys = list(HISTORY_POOL)
    seqs = [(a,) for a in keys] + list(itertools.product(keys, repeat=2))
    if tier == "thorough":
        seqs += list(itertools.product(keys, repeat=3))
    else:
        # depth 3 in the quick tier: long / short / long patterns over a core pool
        core = ["xy-long", "idx-short", "fit-xy", "mf-def"]
        seqs += list(itertools.product(core, repeat=3))
    return [dict(kind="history", v=v, seq=list(s)) for s in seqs]


ENUM = collections.OrderedDict(
    [
        ("container", container_specs),
        ("model", model_specs),
        ("modelfunc", modelfunc_specs),
        ("constraint", constraint_specs),
        ("formatter", formatter_specs),
        ("fit", fit_specs),
        ("history", history_specs),
    ]
)
SHARDS = dict(container=6, model=4, modelfunc=1, constraint=1, formatter=1, fit=48, history=8)


def jobs(tier, seed):
    v = seed % 3
    vals = [v] if tier == "quick" else [0, 1, 2]
    out = []
    for vv in vals:
        for kind in ENUM:
            n = SHARDS[kind] * (2 if tier == "thorough" and kind == "fit" else 1)
            for s in range(n):
                out.append((kind, vv, tier, s, n))
    # long jobs first
    out.sort(key=lambda j: 0 if j[0] == "fit" else 1)
    return out


DETCHECK_JOB = 0


def bound(tier, seed):
    return (
        "complete products per object kind - containers: 6 container configurations (indexed, xy, histogram filled / set_bins with underflow != overflow / equidistant, unbinned) "
        "x {no source, every source kind alone, every kind disabled next to an enabled one, ordered pairs%s of core kinds with none / one disabled} x labels, plus tiny-magnitude data; "
        "parametric models: 4 types x {every kind alone, every kind disabled} x 2 parameter points x labels + 5 bin-evaluation variants; 11 model functions x 3 formatter states; "
        "8 formatter objects; 7 constraints; fits: 5 types x ([all source mixes x 4 states] + [13 parameter decorations x 4 states] + [all cost identifiers x 4 states x {one source, none}] "
        "+ [3 label levels x 4 states]%s) + string model functions, histogram specials (set_bins data, bin evaluation, density), tiny-magnitude data, asymmetric errors on save, scipy, "
        "iterative dynamic-error algorithm, save_state/load_state (4 decorations x 4 states x 5 types); write sequences of length <= %s on one path over a pool of 10 objects; valuation(s) %s"
        % (
            " and triples" if tier == "thorough" else "",
            " for every model" if tier == "thorough" else " for the first model of a type, a reduced product (2 states, 3 decorations) for further models",
            "3" if tier == "thorough" else "2 (full pool) and 3 (core pool of 4)",
            (seed % 3) if tier == "quick" else "0,1,2",
        )
    )


# ---------------------------------------------------------------------------------------
# signatures


def _src_sig(sources):
    return ",".join(k + ("" if en else "(off)") for k, en in sources) or "-"


def sig_of(spec):
    k = spec["kind"]
    if k == "container":
        return "container|%s|src=%s|labels=%d%s" % (spec["ctype"], _src_sig(spec.get("sources", [])), bool(spec.get("labels")), "|nano" if spec.get("variant") == "nano" else "")
    if k == "model":
        return "model|%s|%s|src=%s|pars=%s|labels=%d%s" % (
            spec["mtype"], spec["model"], _src_sig(spec.get("sources", [])), spec.get("pars", "P0"), bool(spec.get("labels")),
            "|bineval=" + spec["bin_evaluation"] if spec.get("bin_evaluation") else "",
        )  # fmt: skip
    if k == "modelfunc":
        return "modelfunc|%s|fmt=%d" % (spec["mf"], int(spec.get("fmt") or 0))
    if k == "constraint":
        return "constraint|%s" % spec["c"]
    if k == "formatter":
        return "formatter|%s" % spec["f"]
    if k == "fit":
        extra = ""
        for key in ("hist_data", "bin_evaluation", "density", "variant", "minimizer", "dea", "save", "flow"):
            if spec.get(key) is not None:
                extra += "|%s=%s" % (key, spec[key])
        return "fit|%s|%s|cost=%s|src=%s|par=%s|state=%s|labels=%d%s" % (
            spec["ftype"], spec["model"], spec.get("cost") or "default", _src_sig(spec.get("sources", [])), spec.get("pstate") or "none", spec.get("state", "unfit"), int(spec.get("labels") or 0), extra,
        )  # fmt: skip
    if k == "history":
        return "history|" + ";".join("w:" + s for s in spec["seq"]) + ";r"
    raise ValueError(k)


def nontrivial(spec):
    k = spec["kind"]
    if k in ("constraint", "history"):
        return True
    if k == "formatter":
        return not spec["f"].endswith(("base", "indexed", "parameter"))
    if k == "modelfunc":
        return True
    if k == "container":
        return bool(spec.get("sources") or spec.get("labels") or spec["ctype"].startswith("hist"))
    if k == "model":
        return bool(spec.get("sources") or spec.get("labels") or spec.get("pars", "P0") != "P0")
    return bool(spec.get("sources") or spec.get("labels") or (spec.get("pstate") or "none") != "none" or spec.get("state", "unfit") != "unfit")


# ---------------------------------------------------------------------------------------
# the oracle


class Rec(object):
    """collects violations of one spec"""

    def __init__(self, spec, res=None):
        self.spec, self.res, self.out = spec, res, []
        self.sig = sig_of(spec)

    def add(self, observable, expected, actual, mode="wrong-value"):
        self.out.append(dict(observable=observable, expected=expected, actual=actual, mode=mode))

    def exc(self, op, e):
        self.add("op:" + op, "no exception", "%s: %s" % (type(e).__name__, str(e)[:160]), "exception:" + type(e).__name__)

    def compare(self, oa, ob, rtol=RTOL_EXACT, prefix=""):
        n = 0
        for key in oa:
            n += 1
            a, b = oa[key], ob.get(key, ("MISSING",))
            if key == "report" and isinstance(a, str) and isinstance(b, str):
                d = [] if W.text_equal_mod_ties(a, b) else [("report", a, b)]
            else:
                d = W.diff(a, b, rtol)
            cls = "ok"
            if not d and self.res is not None and a != b:
                # equal within tolerance but not identical: record how far (measured basis of RTOL_EXACT)
                for lim in ("1e-14", "1e-13", "1e-12", "1e-11", "1e-10", "1e-9"):
                    if not W.diff(a, b, float(lim)):
                        self.res.facts["exact-path:not-identical:dev<=%s" % lim] += 1
                        break
            if d:
                if isinstance(b, tuple) and len(b) == 2 and b[0] == "EXC" and not (isinstance(a, tuple) and a and a[0] == "EXC"):
                    mode = "exception:" + b[1]
                else:
                    mode = "wrong-value"
                self.add(prefix + key, a, b, mode)
                cls = "MISMATCH"
            if self.res is not None:
                self.res.evaluations += 1
                self.res.outcomes[(self.spec["kind"], (prefix + key).split("@")[0], cls)] += 1
        return n


def _strip_comments(text):
    return "\n".join(line for line in text.split("\n") if not line.startswith("#"))


def _load_doc(path):
    import yaml

    with open(path) as f:
        text = f.read()
    return W.canon(_plain(yaml.load(_strip_comments(text), Loader=yaml.Loader))), text


def _plain(x):
    import numpy as np

    if isinstance(x, dict):
        return {str(k): _plain(v) for k, v in x.items()}
    if isinstance(x, (list, tuple)):
        return [_plain(v) for v in x]
    if isinstance(x, np.ndarray):
        return x.tolist()
    return x


def _observe(kind, obj):
    if kind == "container":
        return W.observe_container(obj)
    if kind == "model":
        return W.observe_model(obj)
    if kind == "modelfunc":
        return W.observe_modelfunc(obj)
    if kind == "constraint":
        return W.observe_constraint(obj)
    if kind == "formatter":
        return W.observe_formatter(obj)
    if kind == "fit":
        o = W.observe_fit_static(obj)
        W.observe_fit_point(obj, "saved", o)
        return o
    raise ValueError(kind)


def _write(obj, path, spec):
    with warnings.catch_warnings():
        warnings.simplefilter("ignore")
        if spec.get("save") == "asym":
            obj.to_file(path, calculate_asymmetric_errors=True)
        else:
            obj.to_file(path)


def _read(cls, path):
    with warnings.catch_warnings():
        warnings.simplefilter("ignore")
        return cls.from_file(path)


def examine(spec, workdir, res=None):
    """-> list of violation dicts for one spec; counts into res if given"""
    rec = Rec(spec, res)
    if spec["kind"] == "history":
        _examine_history(spec, workdir, rec)
    elif spec.get("flow") == "state":
        _examine_state(spec, workdir, rec)
    else:
        _examine_object(spec, workdir, rec)
    if res is not None:
        res.executions += 1
        res.state(rec.sig + "|v%d" % spec.get("v", 0))
        if nontrivial(spec):
            res.nontriv(rec.sig + "|v%d" % spec.get("v", 0))
        res.outcomes[(spec["kind"], "spec", "violating" if rec.out else "clean")] += 1
    return rec.out


def _tr(rec, n=1):
    if rec.res is not None:
        rec.res.transitions += n


def _examine_object(spec, workdir, rec):
    kind = spec["kind"]
    a = W.build(spec)
    _tr(rec, 1 + len(spec.get("sources", [])))
    p1, p2 = os.path.join(workdir, "c1.yml"), os.path.join(workdir, "c2.yml")
    for p in (p1, p2):
        if os.path.exists(p):
            os.remove(p)
    try:
        _write(a, p1, spec)
        _tr(rec)
    except Exception as e:  # noqa: BLE001
        rec.exc("to_file", e)
        return
    try:
        r = _read(type(a), p1)
        _tr(rec)
    except Exception as e:  # noqa: BLE001
        rec.exc("from_file", e)
        return
    if type(r) is not type(a):
        rec.add("class", type(a).__name__, type(r).__name__)
        return
    # second save / load cycle
    r2 = None
    try:
        _write(r, p2, {})
        _tr(rec)
        doc1, _ = _load_doc(p1)
        doc2, _ = _load_doc(p2)
        d = W.diff(doc1, doc2, 1e-12)
        if rec.res is not None:
            rec.res.evaluations += 1
            rec.res.outcomes[(kind, "cycle2:yaml", "MISMATCH" if d else "ok")] += 1
        if d:
            rec.add("cycle2:yaml", "document of the first cycle", "differs at %s: %r -> %r (%d places)" % (d[0][0], _sh(d[0][1]), _sh(d[0][2]), len(d)))
        r2 = _read(type(a), p2)
        _tr(rec)
    except Exception as e:  # noqa: BLE001
        rec.exc("cycle2", e)
    # observation under the same operations
    if kind != "fit":
        oa, ob = _observe(kind, a), _observe(kind, r)
        rec.compare(oa, ob)
        if rec.res is not None:
            rec.res.observe((rec.sig, spec.get("v"), sorted((k, _rnd(x)) for k, x in ob.items())))
        if r2 is not None:
            rec.compare(ob, _observe(kind, r2), prefix="cycle2:")
        return
    _drive_fits(spec, a, r, r2, rec)


def _rnd(x):
    if isinstance(x, float):
        return float("%.9g" % x)
    if isinstance(x, (list, tuple)):
        return [_rnd(y) for y in x]
    if isinstance(x, dict):
        return {k: _rnd(y) for k, y in x.items()}
    return x


def _sh(x, n=80):
    s = repr(x)
    return s if len(s) <= n else s[:n] + "..."


def _free_point(spec, names, defaults, pid):
    pt = W.point(defaults, pid)
    skip = set(W.fixed_names(spec, names))
    toks = (spec.get("pstate") or "none").split("+")
    if "limbite" in toks:
        skip.add(names[1])  # the narrow limits exclude the displaced values: not generated
    return collections.OrderedDict((p, x) for p, x in pt.items() if p not in skip)


def _drive_fits(spec, a, r, r2, rec):
    names = list(a.parameter_names)
    oa, ob = _observe("fit", a), _observe("fit", r)
    rec.compare(oa, ob)
    if rec.res is not None:
        rec.res.observe((rec.sig, spec.get("v"), sorted((k, _rnd(x)) for k, x in ob.items() if k != "report")))
    if r2 is not None:
        rec.compare(ob, _observe("fit", r2), prefix="cycle2:")
    saved = collections.OrderedDict((p, float(x)) for p, x in zip(names, a.parameter_values))
    # defaults of the model as constructed (the points are defined relative to them, independent of the fit state)
    defaults = collections.OrderedDict((p, float(x)) for p, x in zip(names, W.build(dict(spec, state="unfit", pstate="none", sources=[], labels=False)).parameter_values))
    for pid in ("P1", "P2", "back"):
        if pid == "back":
            pt = collections.OrderedDict((p, saved[p]) for p in _free_point(spec, names, defaults, "P1"))
        else:
            pt = _free_point(spec, names, defaults, pid)
        pa, pb = collections.OrderedDict(), collections.OrderedDict()
        for f, o in ((a, pa), (r, pb)):
            try:
                with warnings.catch_warnings():
                    warnings.simplefilter("ignore")
                    f.set_parameter_values(**pt)
                _tr(rec)
                W.observe_fit_point(f, pid, o)
            except Exception as e:  # noqa: BLE001
                o["op:set@" + pid] = ("EXC", type(e).__name__)
        rec.compare(pa, pb)
    if spec.get("norefit"):
        return
    # refit of both
    ra, rb = _refit(a, rec), _refit(r, rec)
    # a refit that starts AT the minimum converges at once and reports MIGRAD's rough covariance estimate: repeated
    # do_fit() calls on one and the same object scatter by up to 17 % in parameter_errors (measured), so uncertainties
    # of refits are compared only where a real minimisation happens (object saved before a fit)
    _compare_refit(ra, rb, rec, compare_errors=spec.get("state", "unfit") in ("unfit", "moved"))


def _refit(f, rec):
    o = collections.OrderedDict()
    try:
        with warnings.catch_warnings():
            warnings.simplefilter("ignore")
            f.do_fit()
        _tr(rec)
    except Exception as e:  # noqa: BLE001
        o["exc"] = ("EXC", type(e).__name__)
        return o
    o["did_fit"] = W._get(lambda: bool(f.did_fit))
    o["values"] = W._get(lambda: list(f.parameter_values))
    o["errors"] = W._get(lambda: list(f.parameter_errors))
    o["cost"] = W._get(lambda: float(f.cost_function_value))
    o["ndf"] = W._get(lambda: f.ndf)
    o["gof_per_ndf"] = W._get(lambda: (f.goodness_of_fit / f.ndf) if (f.goodness_of_fit is not None and f.ndf) else None)
    o["asym"] = W._get(lambda: f.get_result_dict()["asymmetric_parameter_errors"])
    return o


def _compare_refit(ra, rb, rec, compare_errors=True):
    res = rec.res

    def note(key, ok):
        if res is not None:
            res.evaluations += 1
            res.outcomes[("fit", "refit:" + key, "ok" if ok else "MISMATCH")] += 1

    if "exc" in ra or "exc" in rb:
        ok = ra.get("exc") == rb.get("exc")
        note("exception", ok)
        if not ok:
            rec.add("refit:exception", ra.get("exc", "no exception"), rb.get("exc", "no exception"), "exception:" + (rb.get("exc") or ("", "none"))[1])
        return
    for key in ("did_fit", "ndf"):
        ok = ra[key] == rb[key]
        note(key, ok)
        if not ok:
            rec.add("refit:" + key, ra[key], rb[key])
    if not _well_posed(ra):
        # DESIGN 3.4: numerical results of an ill-posed minimisation say nothing about kafe2; such refits only have to
        # run (both did) and agree in did_fit / ndf
        if res is not None:
            res.outcomes[("fit", "refit:numbers", "skipped-ill-posed")] += 1
        return
    va, vb, ea, eb = ra["values"], rb["values"], ra["errors"], rb["errors"]
    bad = isinstance(va, tuple) or isinstance(vb, tuple) or isinstance(ea, tuple) or isinstance(eb, tuple)
    if bad:
        ok = va == vb and ea == eb
        note("values", ok)
        if not ok:
            rec.add("refit:values", [va, ea], [vb, eb])
        return
    ok = len(va) == len(vb)
    worst = 0.0
    if ok:
        for x, y, s in zip(va, vb, ea):
            tol = REFIT_DP_SIGMA * s if (s == s and s > 0) else RTOL_EXACT * max(abs(x), abs(y), 1e-300)
            dev = abs(x - y) / tol if tol > 0 else (0.0 if x == y else float("inf"))
            worst = max(worst, dev)
        ok = worst <= 1.0
    note("values", ok)
    _bucket(res, "refit:values", worst)
    if not ok:
        rec.add("refit:values", va, vb)
    ok = abs(ra["cost"] - rb["cost"]) <= REFIT_DCOST + 1e-9 * abs(ra["cost"]) if not isinstance(ra["cost"], tuple) and not isinstance(rb["cost"], tuple) else ra["cost"] == rb["cost"]
    note("cost", ok)
    if not isinstance(ra["cost"], tuple) and not isinstance(rb["cost"], tuple):
        _bucket(res, "refit:cost", abs(ra["cost"] - rb["cost"]) / (REFIT_DCOST + 1e-9 * abs(ra["cost"])))
    if not ok:
        rec.add("refit:cost", ra["cost"], rb["cost"])
    g = ra.get("gof_per_ndf")
    if not compare_errors or isinstance(g, tuple) or (g is not None and not (0.3 <= g <= 3.0)):
        # uncertainties are compared only where they are numerically meaningful: a real minimisation (see _drive_fits)
        # of a problem inside the chi2/ndf window of DESIGN 3.4 (outside it, e.g. x-cov alone with chi2/ndf = 65, the
        # numerical covariance of two equal minimisations scatters by up to 1.8 %: measured)
        return
    ok = len(ea) == len(eb) and all((x == y) or (x != x and y != y) or abs(x - y) <= REFIT_DERR_REL * max(abs(x), abs(y)) for x, y in zip(ea, eb))
    note("errors", ok)
    if len(ea) == len(eb):
        _bucket(res, "refit:errors", max([abs(x - y) / (REFIT_DERR_REL * max(abs(x), abs(y))) for x, y in zip(ea, eb) if x == x and y == y and max(abs(x), abs(y)) > 0] or [0.0]))
    if not ok:
        rec.add("refit:errors", ea, eb)


def _bucket(res, name, dev_over_tol):
    """coverage fact: distribution of (deviation / tolerance) - the measured basis of the tolerance margins"""
    if res is None:
        return
    for lim in ("1e-3", "1e-2", "1e-1", "1"):
        if dev_over_tol <= float(lim):
            res.facts["%s:dev/tol<=%s" % (name, lim)] += 1
            return
    res.facts["%s:dev/tol>1" % name] += 1


def _well_posed(r):
    """the refit of the ORIGINAL object is a well-posed problem: finite results, relative parameter uncertainties
    <= 15 % for free parameters.  (The chi2/ndf window of DESIGN 3.4 guards comparisons between DIFFERENT routes to a
    minimum; here two equal problems start from the same point, and the data alphabets are not tuned per source kind.)"""
    v, e = r["values"], r["errors"]
    if isinstance(v, tuple) or isinstance(e, tuple) or isinstance(r["cost"], tuple):
        return False
    for x, s in zip(v, e):
        if x != x or s != s or abs(x) == float("inf") or abs(s) == float("inf"):
            return False
        if s > 0 and s > 0.15 * max(abs(x), 1e-300):
            return False
    return True


def _examine_state(spec, workdir, rec):
    """fit.save_state(path); an equally constructed, unfitted fit loads it"""
    a = W.build(spec)
    b = W.build(dict(spec, state="unfit"))
    _tr(rec, 2)
    p = os.path.join(workdir, "state.yml")
    if os.path.exists(p):
        os.remove(p)
    try:
        with warnings.catch_warnings():
            warnings.simplefilter("ignore")
            a.save_state(p)
        _tr(rec)
    except Exception as e:  # noqa: BLE001
        rec.exc("save_state", e)
        return
    try:
        with warnings.catch_warnings():
            warnings.simplefilter("ignore")
            b.load_state(p)
        _tr(rec)
    except Exception as e:  # noqa: BLE001
        rec.exc("load_state", e)
        return
    # the fit that took the state over is saved itself straight away (no read in between) and reloaded: a chain of two transports
    c = None
    p2 = os.path.join(workdir, "loaded.yml")
    if os.path.exists(p2):
        os.remove(p2)
    try:
        _write(b, p2, spec)
        c = _read(type(b), p2)
        _tr(rec, 2)
    except Exception as e:  # noqa: BLE001
        rec.exc("load_state;to_file;from_file", e)
        return
    oa, ob = _observe("fit", a), _observe("fit", b)
    rec.compare(oa, ob)
    oc = _observe("fit", c)
    rec.compare(oa, oc)
    if rec.res is not None:
        rec.res.observe((rec.sig, spec.get("v"), sorted((k, _rnd(x)) for k, x in ob.items() if k != "report")))
        rec.res.facts["state-chain"] += 1
    ra, rb = _refit(a, rec), _refit(b, rec)
    _compare_refit(ra, rb, rec, compare_errors=spec.get("state", "unfit") in ("unfit", "moved"))


def _examine_history(spec, workdir, rec):
    v = spec.get("v", 0)
    path = os.path.join(workdir, "one_path.yml")
    fresh = os.path.join(workdir, "fresh.yml")
    for p in (path, fresh):
        if os.path.exists(p):
            os.remove(p)
    objs = []
    for key in spec["seq"]:
        s = dict(HISTORY_POOL[key], v=v)
        objs.append((s, W.build(s)))
    for i, (s, o) in enumerate(objs):
        try:
            _write(o, path, s)
            _tr(rec)
        except Exception as e:  # noqa: BLE001
            rec.exc("to_file#%d" % i, e)
            return
    s, last = objs[-1]
    try:
        _write(last, fresh, s)
    except Exception as e:  # noqa: BLE001
        rec.exc("to_file:fresh", e)
        return
    with open(path) as f:
        got = _strip_comments(f.read())
    with open(fresh) as f:
        exp = _strip_comments(f.read())
    ok = got == exp
    if rec.res is not None:
        rec.res.evaluations += 1
        rec.res.outcomes[("history", "file_content", "ok" if ok else "MISMATCH")] += 1
    if not ok:
        rec.add("file_content", "exactly the document of the last object written (%d chars)" % len(exp), "%d chars; first difference at offset %d" % (len(got), _first_diff(got, exp)))
    try:
        r = _read(type(last), path)
        _tr(rec)
    except Exception as e:  # noqa: BLE001
        rec.exc("from_file", e)
        return
    oa, ob = _observe(s["kind"], last), _observe(s["kind"], r)
    rec.compare(oa, ob)
    if rec.res is not None:
        rec.res.observe((rec.sig, v, len(got)))


def _first_diff(a, b):
    for i, (x, y) in enumerate(zip(a, b)):
        if x != y:
            return i
    return min(len(a), len(b))


# ---------------------------------------------------------------------------------------
# runner interface


def _simpler(spec):
    """candidate one-step simplifications of a spec (each is itself a member of the generated language)"""
    out = []
    k = spec["kind"]
    if k == "history":
        seq = spec["seq"]
        for i in range(len(seq) - 1):
            out.append(dict(spec, seq=seq[:i] + seq[i + 1 :]))
        return out
    if k == "fit":
        if spec.get("state", "unfit") != "unfit":
            out.append(dict(spec, state="unfit"))
            if spec["state"] == "asym":
                out.append(dict(spec, state="fit"))
        toks = (spec.get("pstate") or "none").split("+")
        if toks != ["none"]:
            out.append(dict(spec, pstate="none"))
            if len(toks) > 1:
                for i in range(len(toks)):
                    out.append(dict(spec, pstate="+".join(toks[:i] + toks[i + 1 :])))
        for key in ("dea", "minimizer", "save", "hist_data", "bin_evaluation", "density"):
            if spec.get(key) is not None and not (key == "bin_evaluation" and spec["model"] == "parab"):
                out.append({a: b for a, b in spec.items() if a != key})
    if k == "model" and spec.get("pars", "P0") != "P0":
        out.append(dict(spec, pars="P0"))
    if spec.get("labels"):
        out.append(dict(spec, labels=False))
        if spec["labels"] == 2:
            out.append(dict(spec, labels=True))
    if spec.get("fmt"):
        out.append(dict(spec, fmt=0))
        if spec["fmt"] == 2:
            out.append(dict(spec, fmt=1))
    src = spec.get("sources") or []
    for i in range(len(src)):
        out.append(dict(spec, sources=src[:i] + src[i + 1 :]))
    if k == "fit":
        out = [o for o in out if _fit_ok(o["ftype"], o.get("cost"), o.get("sources", []), o.get("pstate"), o.get("state"))]
    return out


def minimise(spec, obs_base, mode, workdir, budget=40):
    """greedy descent to a spec none of whose one-step simplifications still shows (obs_base, mode)"""

    def shows(sp):
        try:
            return [v for v in examine(sp, workdir, None) if v["observable"].split("@")[0] == obs_base and v["mode"] == mode]
        except Exception:  # noqa: BLE001  (a simplification the builder rejects)
            return []

    cur, cur_v = spec, None
    improved = True
    while improved and budget > 0:
        improved = False
        for cand in _simpler(cur):
            budget -= 1
            vs = shows(cand)
            if vs:
                cur, cur_v, improved = cand, vs[0], True
                break
            if budget <= 0:
                break
    return cur, cur_v


MINIMISE_PER_JOB = 6


def run_job(spec):
    kind, v, tier, shard, nshards = spec
    res = JobResult()
    specs = ENUM[kind](tier, v)
    workdir = tempfile.mkdtemp(prefix="kmc_c09_")
    minimal, plain, done = [], [], set()
    try:
        for i, s in enumerate(specs):
            if i % nshards != shard:
                continue
            seen = set()
            for viol in examine(s, workdir, res):
                base = (viol["observable"].split("@")[0], viol["mode"])
                if base in seen:
                    continue  # the same observable at a further parameter point: one witness per spec is enough
                seen.add(base)
                plain.append((s, viol))
                key = (s["kind"], s.get("ftype", s.get("ctype", s.get("mtype", ""))), viol["observable"].split("@")[0], viol["mode"])
                if key not in done and len(done) < MINIMISE_PER_JOB:
                    done.add(key)
                    ms, mv = minimise(s, key[2], key[3], workdir)
                    if mv is not None:
                        minimal.append((ms, mv))
            res.facts["kind:" + s["kind"] + (":" + s.get("ftype", s.get("ctype", s.get("mtype", ""))) if s["kind"] in ("fit", "container", "model") else "")] += 1
            if s["kind"] == "fit":
                res.facts["fit-state:" + s.get("state", "unfit")] += 1
                for k, en in s.get("sources", []):
                    if not en:
                        res.facts["fit:disabled-source"] += 1
                    if W.kind_reference(k) == "model":
                        res.facts["fit:model-referenced-source"] += 1
            if i % nshards == shard and len(res.samples) < 1:
                res.sample(dict(sig=sig_of(s), spec=s))
        # minimised witnesses first (the runner reports the first distinct violations it meets)
        for s, viol in minimal + plain:
            res.violation(sig_of(s), [s], viol["observable"], viol["expected"], viol["actual"], viol["mode"])
    finally:
        shutil.rmtree(workdir, ignore_errors=True)
    return res.as_dict()


def replay(history):
    spec = history[0]
    workdir = tempfile.mkdtemp(prefix="kmc_c09_replay_")
    try:
        return examine(spec, workdir, None)
    finally:
        shutil.rmtree(workdir, ignore_errors=True)


def vacuity_guards(tot, tier):
    for k in ("kind:container:indexed", "kind:container:xy", "kind:container:hist-fill", "kind:container:hist-set", "kind:container:unbinned"):
        yield "container kind explored: " + k, tot.facts.get(k, 0) > 0
    for k in ("xy", "indexed", "hist", "unbinned"):
        yield "parametric model explored: " + k, tot.facts.get("kind:model:" + k, 0) > 0
    for k in ("xy", "indexed", "hist", "unbinned", "custom"):
        yield "fit type explored: " + k, tot.facts.get("kind:fit:" + k, 0) > 0
    for st in STATES:
        yield "fit state explored: " + st, tot.facts.get("fit-state:" + st, 0) > 0
    yield "fits with a disabled source", tot.facts.get("fit:disabled-source", 0) > 0
    yield "fits with a model-referenced source", tot.facts.get("fit:model-referenced-source", 0) > 0
    yield "model functions and constraints explored", tot.facts.get("kind:modelfunc", 0) > 0 and tot.facts.get("kind:constraint", 0) > 0
    yield "write/write/read histories explored", tot.facts.get("kind:history", 0) > 0
    yield "at least 300 well-posed refit pairs compared in values and cost", tot.outcomes.get(("fit", "refit:values", "ok"), 0) + tot.outcomes.get(("fit", "refit:values", "MISMATCH"), 0) >= 300
    yield "at least 100 refit pairs compared in uncertainties", tot.outcomes.get(("fit", "refit:errors", "ok"), 0) + tot.outcomes.get(("fit", "refit:errors", "MISMATCH"), 0) >= 100
    yield "second-cycle documents compared for every kind", all(any(k[0] == kind and k[1] == "cycle2:yaml" for k in tot.outcomes if isinstance(k, tuple)) for kind in ("container", "model", "modelfunc", "constraint", "fit"))
    yield "more than 100 outcome classes", len(tot.outcomes) > 100


def triage_key(v):
    f = v["sig"].split("|")
    return (f[0], f[1], v["observable"].split("@")[0], v["mode"])
