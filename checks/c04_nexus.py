"""C04 - graph reads equal a from-scratch evaluation; unchanged inputs are not recomputed.

Closure BFS (mode A) over the value/freeze/mark/function-replacement operations on every DAG shape
up to a node bound plus hand-written shapes for the node kinds the enumeration does not produce;
depth-bounded BFS (mode B) when structural edits are enabled (replacement of children and nodes, with the
replacement keeping its own children or taking over those of the replaced node, on shapes with and without
dependency-only edges); depth-bounded BFS over the Nexus registry API from an empty and from a populated registry.  Oracle: DagRef (expression-DAG evaluator below) + call counters in user functions.
"""
import collections
import itertools
import operator

import numpy as np

from kmc import explore
from kmc.core import JobResult, h64
from kmc.fingerprint import fingerprint

PROPERTY = "C04"
RULE = (
    "states = distinct (structural fingerprint of all live node objects, reference-model state) reached by BFS from "
    "every shape; a state is non-trivial when at least one non-parameter node holds a cached (non-stale) value while "
    "some parameter differs from its initial value or some node is frozen; transitions are real node/Nexus operations "
    "replayed from scratch; every read is compared with the from-scratch DAG evaluation and the per-function call counters"
)
ASSUMPTIONS = [
    "freezing is only generated for nodes that are up to date (what a node frozen while stale returns is not defined by the statement)",
    "freezing/assigning parameters while frozen is not generated",
    "re-evaluation after unfreeze/mark_for_update/structural edits of a node or one of its inputs counts as permitted",
    "graph edits through the node API never close a cycle (only Nexus.add_dependency/add check for cycles)",
    "a read whose definition cannot be evaluated must raise the exception the definition raises (by type name) every time "
    "it is repeated; which functions are evaluated during a failing read is only bounded by the call-count rule",
]


class RefExc(Exception):
    pass


class Fn(object):
    """User function with call counter; value is an injective encoding of its arguments."""

    def __init__(self, name, ver, calls, kind="F", cell=None):
        self.__name__ = name
        self.name, self.ver, self.calls, self.kind, self.cell = name, ver, calls, kind, cell

    def __call__(self, *args):
        self.calls[self.name] += 1
        if self.kind == "X" and args and args[0] == 1:
            self.calls["raised:" + self.name] += 1
            raise ValueError("X raises")
        if self.kind == "Z":
            return (self.name, self.ver, self.cell[0])
        return (self.name, self.ver) + tuple(canon(a) for a in args)

    def __kmc_fp__(self):
        return (self.name, self.ver, self.kind)


def canon(v):
    if isinstance(v, np.ndarray):
        return tuple(canon(x) for x in v.tolist())
    if isinstance(v, (list, tuple)):
        return tuple(canon(x) for x in v)
    if isinstance(v, (np.integer,)):
        return int(v)
    if isinstance(v, (np.floating,)):
        return float(v)
    return v


_OPS = {"add": operator.add, "sub": operator.sub, "mul": operator.mul}
_EXC_TYPES = {"Exception": Exception, "ValueError": ValueError, "RuntimeError": RuntimeError}


# node kinds that can stand in for each other in replace(other, other_children=False): the replacement takes over the children
_FAMILY = {"F": "fn", "D": "fn", "X": "fn", "Z": "fn", "T": "T", "R": "R", "B": "B", "A": "A"}


def _acyclic(ch):
    state = {}

    def visit(n):
        if state.get(n) == 1:
            return False
        if state.get(n) == 2:
            return True
        state[n] = 1
        for c in ch[n]:
            if not visit(c):
                return False
        state[n] = 2
        return True

    return all(visit(n) for n in ch)


class World(object):
    """Real nodes + DagRef.  shape: tuple of node specs, node i named 'n<i>':
    ('P', v0) | ('F', kids) | ('X', kids) | ('Z', deps) | ('A', kid) | ('T', kids) | ('R', kids) |
    ('B', kids) | ('B', kids, exception type name) | ('O', opname, kid, kid) |
    ('D', kids, deps)  (function with dependency-only children)
    alphabet: None (all operations) or the collection of operation kinds to generate.
    """

    def __init__(self, shape, dom=(0, 1), structural=False, vers=(0, 1), alphabet=None):
        from kafe2.core.fitters import nexus as nx

        self.nx = nx
        self.shape, self.dom, self.structural, self.vers = shape, dom, structural, vers
        self.alphabet = alphabet
        self.exc = {}
        self.failed_read = None  # node whose read raised in the directly preceding operation (part of the state:
        # the read after a failed read is a transition of its own, whatever the node objects look like)
        self.calls = collections.Counter()
        self.cell = [0]
        self.real = collections.OrderedDict()
        self.kind, self.ch, self.par, self.ver, self.pv = {}, {}, {}, {}, {}
        self.fns = {}
        self.frozen, self.may = {}, set()
        self.nlit = 0
        self.nnew = 0
        self.took_over = set()  # nodes that took over dependency-only edges in a replacement (coverage facts only)
        for i, spec in enumerate(shape):
            self._make("n%d" % i, spec)

    # -- construction -------------------------------------------------------------------
    def _make(self, n, spec):
        nx = self.nx
        k = spec[0]
        names = lambda idx: ["n%d" % j for j in idx]  # noqa: E731
        self.kind[n] = k
        if k == "P":
            self.real[n] = nx.Parameter(spec[1], name=n)
            self.pv[n], self.ch[n], self.par[n] = spec[1], [], []
            return
        if k in ("F", "X", "Z", "D"):
            kids = names(spec[1]) if k != "Z" else []
            deps = names(spec[2]) if k == "D" else (names(spec[1]) if k == "Z" else [])
            fn = Fn(n, 0, self.calls, kind=("F" if k == "D" else k), cell=self.cell)
            self.fns[n] = fn
            node = nx.Function(fn, name=n, parameters=[self.real[c] for c in kids])
            for d in deps:
                node.add_child(self.real[d])
            self.real[n] = node
            self.ver[n] = 0
            self.par[n], self.ch[n] = list(kids), list(kids) + list(deps)
        elif k == "O":
            a, b = names(spec[2:4])
            node = getattr(self.real[a], "__%s__" % spec[1])(self.real[b])
            self.real[n] = node
            self.par[n], self.ch[n] = [a, b], [a, b]
            self.ver[n] = spec[1]
        elif k == "A":
            (a,) = names([spec[1]])
            self.real[n] = nx.Alias(self.real[a], name=n)
            self.par[n], self.ch[n] = [a], [a]
        elif k in ("T", "R"):
            kids = names(spec[1])
            cls = nx.Tuple if k == "T" else nx.Array
            kw = {} if k == "T" else {"dtype": object}
            self.real[n] = cls([self.real[c] for c in kids], name=n, **kw)
            self.par[n], self.ch[n] = list(kids), list(kids)
        elif k == "B":
            kids = names(spec[1])
            if len(spec) > 2:
                self.exc[n] = spec[2]
                self.real[n] = nx.Fallback([self.real[c] for c in kids], exception_type=_EXC_TYPES[spec[2]], name=n)
            else:
                self.exc[n] = "Exception"
                self.real[n] = nx.Fallback([self.real[c] for c in kids], name=n)
            self.par[n], self.ch[n] = list(kids), list(kids)
        else:
            raise ValueError(k)
        self.may.add(n)

    # -- reference model ----------------------------------------------------------------
    def anc(self, n):
        out, stack = set(), [n]
        while stack:
            m = stack.pop()
            for p, kids in self.ch.items():
                if m in kids and p not in out:
                    out.add(p)
                    stack.append(p)
        return out

    def desc(self, n):
        out, stack = set(), [n]
        while stack:
            m = stack.pop()
            for c in self.ch[m]:
                if c not in out:
                    out.add(c)
                    stack.append(c)
        return out

    def ev(self, n):
        if n in self.frozen:
            return self.frozen[n]
        k = self.kind[n]
        if k == "P":
            return self.pv[n]
        if k in ("F", "D"):
            return (n, self.ver[n]) + tuple(self.ev(c) for c in self.par[n])
        if k == "X":
            args = tuple(self.ev(c) for c in self.par[n])
            if args and args[0] == 1:
                raise RefExc("ValueError")
            return (n, self.ver[n]) + args
        if k == "Z":
            return (n, self.ver[n], self.cell[0])
        if k == "O":
            return _OPS[self.ver[n]](self.ev(self.par[n][0]), self.ev(self.par[n][1]))
        if k == "A":
            return self.ev(self.ch[n][0])
        if k in ("T", "R"):
            return tuple(self.ev(c) for c in self.ch[n])
        if k == "B":
            for c in self.ch[n]:
                try:
                    return self.ev(c)
                except RefExc as e:
                    if self.exc[n] not in ("Exception", str(e)):
                        raise  # not the exception type this fallback continues on
                    continue
            raise RefExc("RuntimeError")
        raise ValueError(k)

    def _after_read(self, n):
        def visit(m):
            if m in self.frozen or self.kind[m] == "P":
                return
            self.may.discard(m)
            if self.kind[m] == "B":
                for c in self.ch[m]:
                    try:
                        self.ev(c)
                    except RefExc:
                        continue
                    visit(c)
                    break
            else:
                for c in self.ch[m]:
                    visit(c)

        visit(n)

    def _touch(self, n):
        self.may |= {m for m in ({n} | self.anc(n)) if self.kind[m] != "P"}

    # -- alphabet -----------------------------------------------------------------------
    def enabled(self):
        ops = []
        for n, k in self.kind.items():
            if k == "P":
                if n in self.anc_any():
                    for v in self.dom:
                        ops.append(("set", n, v))
                continue
            ops.append(("read", n))
            if n in self.frozen:
                ops.append(("unfreeze", n))
            else:
                if n not in self.may:
                    ops.append(("freeze", n))
                ops.append(("mark", n))
            if k in ("F", "X", "D", "Z"):
                for v in self.vers:
                    if v != self.ver[n]:
                        ops.append(("func", n, v))
            if k == "Z" and self.ch[n] and self.kind[self.ch[n][0]] == "P":
                # external state changes paired with a notification through the depended-on parameter
                for v in self.dom:
                    if v != self.cell[0]:
                        ops.append(("cell", n, v))
        if self.structural:
            ops.extend(self._structural_ops())
        if self.alphabet is not None:
            ops = [o for o in ops if o[0] in self.alphabet]
        return ops

    def anc_any(self):
        # parameters that have at least one parent
        out = set()
        for kids in self.ch.values():
            out.update(kids)
        return out

    def _structural_ops(self):
        ops = []
        names = list(self.kind)
        for n in names:
            k = self.kind[n]
            if k == "P" or n in self.frozen:
                continue
            forbidden = {n} | self.anc(n)  # edges n -> m with m in forbidden would close a cycle
            cands = [m for m in names if m not in forbidden]
            if k in ("T", "R"):
                for i in range(len(self.ch[n])):
                    for m in cands:
                        if m != self.ch[n][i]:
                            ops.append(("setitem", n, i, m))
                    if self.nlit < 1:
                        ops.append(("setitem", n, i, ("lit", 7)))
            if k in ("F", "D", "T", "B", "A"):
                for old in dict.fromkeys(self.ch[n]):
                    for m in cands:
                        if m != old and (k != "A" or True):
                            ops.append(("repl_child", n, old, m))
            if k in ("F", "D") and len(self.par[n]) < 3:
                for m in cands:
                    ops.append(("addpar", n, m))
                    # (a dependency on a node whose evaluation raises has no defined meaning: not generated)
                    if m not in self.ch[n] and not any(self.kind[x] == "X" for x in ({m} | self.desc(m))):
                        ops.append(("adddep", n, m))
        # replace node n by node m everywhere (m keeps its own children)
        for n in names:
            if self.kind[n] == "P" and n not in self.anc_any():
                continue
            for m in names:
                if m == n:
                    continue
                # parents of n will get m as a child: m must not be an ancestor of (or equal to) a parent of n
                parents = [p for p in names if n in self.ch[p]]
                if not parents:
                    continue
                if any(p in self.frozen for p in parents):
                    continue
                if any(p == m or p in self.desc(m) for p in parents):
                    continue
                ops.append(("replace", n, m))
        # replace node n by node m of the same family with other_children=False: m gives up its own children and takes over
        # those of n (for functions: the argument list of n; edges of n that are dependencies only stay dependencies only);
        # m is an existing node or a fresh, childless one
        for n in names:
            fam = _FAMILY.get(self.kind[n])
            if fam is None:
                continue
            parents = [p for p in names if n in self.ch[p]]
            if any(p in self.frozen for p in parents):
                continue
            if self.nnew < 1 and fam != "A":
                ops.append(("replace_nc", n, ("new", self.kind[n])))
            for m in names:
                if m == n or m in self.frozen or _FAMILY.get(self.kind[m]) != fam:
                    continue
                if _acyclic(self._after_replace_nc(n, m, parents)):
                    ops.append(("replace_nc", n, m))
        return ops

    def _after_replace_nc(self, n, m, parents):
        ch = {x: list(c) for x, c in self.ch.items()}
        ch[m] = list(self.ch[n])
        for p in parents:
            ch[p] = [m if c == n else c for c in ch[p]]
        return ch

    # -- transitions --------------------------------------------------------------------
    def apply(self, op, res):
        viol = []
        k = op[0]
        real = self.real
        last_failed, self.failed_read = self.failed_read, None
        if k == "set":
            _, p, v = op
            real[p].value = v
            self.pv[p] = v
            self._touch(p)
        elif k == "cell":
            _, z, v = op
            self.cell[0] = v
            # notification as FitBase does it: re-assign the depended-on parameter
            dep = self.ch[z][0]
            real[dep].value = self.pv[dep]
            self._touch(dep)
        elif k == "read":
            viol = self._read(op[1], res, last_failed)
        elif k == "freeze":
            n = op[1]
            real[n].freeze()
            self.frozen[n] = self.ev(n)
        elif k == "unfreeze":
            n = op[1]
            real[n].unfreeze()
            del self.frozen[n]
            self._touch(n)
        elif k == "mark":
            n = op[1]
            real[n].mark_for_update()
            self._touch(n)
        elif k == "func":
            _, n, v = op
            fn = Fn(n, v, self.calls, kind=self.fns[n].kind, cell=self.cell)
            self.fns[n] = fn
            real[n].func = fn
            self.ver[n] = v
            self._touch(n)
        elif k == "setitem":
            _, t, i, m = op
            m = self._resolve(m)
            real[t][i] = real[m]
            self.ch[t][i] = m
            self.par[t] = list(self.ch[t])
            self._touch(t)
        elif k == "repl_child":
            _, n, old, m = op
            real[n].replace_child(real[old], real[m])
            self.ch[n] = [m if c == old else c for c in self.ch[n]]
            self.par[n] = [m if c == old else c for c in self.par[n]]
            self._touch(n)
        elif k == "replace":
            _, n, m = op
            parents = [p for p in self.kind if n in self.ch[p]]
            real[n].replace(real[m])
            for p in parents:
                self.ch[p] = [m if c == n else c for c in self.ch[p]]
                self.par[p] = [m if c == n else c for c in self.par[p]]
                self._touch(p)
        elif k == "replace_nc":
            _, n, m = op
            m = self._resolve(m)
            parents = [p for p in self.kind if n in self.ch[p]]
            real[n].replace(real[m], other_children=False)
            if self.ch[n] != self.par[n]:
                self.took_over.add(m)
            if res is not None:
                res.facts["replace_nc:%s:%s" % ("fresh" if m != op[2] else "existing", "dep-only" if self.ch[n] != self.par[n] else "args")] += 1
            self.ch[m] = list(self.ch[n])
            self.par[m] = list(self.par[n])
            for p in parents:
                self.ch[p] = [m if c == n else c for c in self.ch[p]]
                self.par[p] = [m if c == n else c for c in self.par[p]]
                self._touch(p)
            self._touch(m)
        elif k == "addpar":
            _, n, m = op
            real[n].add_parameter(real[m])
            self.ch[n].append(m)
            self.par[n].append(m)
            self._touch(n)
        elif k == "adddep":
            _, n, m = op
            real[n].add_child(real[m])
            self.ch[n].append(m)
            self._touch(n)
        else:
            raise ValueError(op)
        return viol

    def _resolve(self, m):
        if isinstance(m, tuple) and m[0] == "lit":
            n = "L%d" % self.nlit
            self.nlit += 1
            self.kind[n] = "P"
            self.real[n] = self.nx.Parameter(m[1], name=n)
            self.pv[n], self.ch[n], self.par[n] = m[1], [], []
            return n
        if isinstance(m, tuple) and m[0] == "new":
            # a fresh node without children of the given kind
            nx, k = self.nx, m[1]
            n = "G%d" % self.nnew
            self.nnew += 1
            self.kind[n], self.ch[n], self.par[n] = k, [], []
            if k in ("F", "X", "Z", "D"):
                fn = Fn(n, 0, self.calls, kind=("F" if k == "D" else k), cell=self.cell)
                self.fns[n], self.ver[n] = fn, 0
                self.real[n] = nx.Function(fn, name=n)
            elif k == "T":
                self.real[n] = nx.Tuple([], name=n)
            elif k == "R":
                self.real[n] = nx.Array([], name=n, dtype=object)
            elif k == "B":
                self.exc[n] = "Exception"
                self.real[n] = nx.Fallback([], name=n)
            else:
                raise ValueError(k)
            self.may.add(n)
            return n
        return m

    def _read(self, n, res, last_failed=None):
        viol = []
        before = collections.Counter(self.calls)
        may_before = set(self.may)
        try:
            exp = ("val", canon(self.ev(n)))
        except RefExc as e:
            exp = ("exc", str(e))
        try:
            act = ("val", canon(self.real[n].value))
        except RecursionError:
            act = ("exc", "RecursionError")
        except Exception as e:  # noqa: BLE001
            act = ("exc", type(e).__name__)
        delta = {f: self.calls[f] - before[f] for f in self.fns if self.calls[f] != before[f]}
        if res is not None:
            res.evaluations += 1
            res.observe((n, act, sorted(delta.items())))
            res.outcomes[("read-" + self.kind[n], "frozen" if n in self.frozen else ("recomputed" if delta else "cached"), act[0])] += 1
            if exp != act:
                if act[0] == "val":
                    # (a value handed out although the definition cannot be evaluated is a class of its own)
                    mode = "wrong-value" if exp[0] == "val" else "value-instead-of-exception"
                else:
                    mode = "exception:" + act[1]
                viol.append(("value:" + n, exp, act, mode))
            for f, d in delta.items():
                if d > 1 and self.calls["raised:" + f] == before["raised:" + f]:
                    # (a function that raised is retried by every Fallback alternative listing it)
                    viol.append(("calls:" + f, "<=1", d, "evaluated-twice"))
                if f not in may_before:
                    viol.append(("calls:" + f, 0, d, "needless-evaluation"))
            if act[0] == "val" and n not in self.frozen and self.kind[n] != "P" and self.real[n].stale:
                viol.append(("stale:" + n, False, True, "stale-after-read"))
            # coverage facts
            st = self.real[n].stale
            res.facts["read:%s:%s" % (self.kind[n], "frozen" if n in self.frozen else "live")] += 1
            if self.took_over and not self.took_over.isdisjoint({n} | self.desc(n)):
                res.facts["read:took-over-dep-only:%s" % ("recomputed" if delta else "cached")] += 1
            if exp[0] == "exc":
                # reads of nodes that cannot be evaluated: first / repeated without an operation in between /
                # of a node above (below) one whose read has just failed
                res.facts["read-fails:%s" % self.kind[n]] += 1
                if n == last_failed:
                    res.facts["read-fails-again:%s" % self.kind[n]] += 1
            if last_failed is not None and last_failed in self.desc(n):
                res.facts["read-above-failed:%s>%s:%s" % (self.kind[n], self.kind[last_failed], exp[0])] += 1
        if exp[0] == "exc":
            self.failed_read = n
        if exp[0] == "val" and act[0] == "val":
            self._after_read(n)
        return viol

    # -- state identity -----------------------------------------------------------------
    def key(self):
        ref = (
            sorted(self.pv.items()),
            sorted((k, repr(v)) for k, v in self.frozen.items()),
            sorted(self.may),
            sorted((k, tuple(v)) for k, v in self.ch.items()),
            sorted((k, tuple(v)) for k, v in self.par.items()),
            sorted((k, repr(v)) for k, v in self.ver.items()),
            self.cell[0],
            self.failed_read,
        )
        return h64((fingerprint(dict(self.real)), ref))

    def nontrivial(self):
        cached = any(self.kind[n] != "P" and not self.real[n].stale for n in self.kind)
        moved = bool(self.frozen)
        for n, v in self.pv.items():
            if n.startswith("n") and v != self.shape[int(n[1:])][1]:
                moved = True
        return cached and moved


# ---------------------------------------------------------------------------------------
# shapes


def dag_shapes(n, order="asc"):
    """All topologically numbered DAGs on exactly n nodes (children have smaller index); nodes
    without children are parameters; every parameter has a parent; the last node is a function."""
    out = []
    choices = []
    for i in range(n):
        lower = list(range(i))
        subs = []
        for r in range(len(lower) + 1):
            for c in itertools.combinations(lower, r):
                subs.append(c)
        choices.append(subs)
    for combo in itertools.product(*choices):
        used = set()
        for c in combo:
            used.update(c)
        ok = True
        for i, c in enumerate(combo):
            if not c and i not in used:
                ok = False  # isolated parameter
        if not ok or not any(combo):
            continue
        spec = []
        for i, c in enumerate(combo):
            if not c:
                spec.append(("P", 0))
            else:
                kids = tuple(c) if order == "asc" else tuple(reversed(c))
                spec.append(("F", kids))
        out.append(tuple(spec))
    return out


SPECIAL_SHAPES = collections.OrderedDict(
    [
        ("alias-chain", (("P", 0), ("A", 0), ("A", 1), ("F", (2,)))),
        ("alias-of-function", (("P", 0), ("F", (0,)), ("A", 1), ("F", (2, 0)))),
        ("tuple", (("P", 0), ("P", 0), ("F", (0,)), ("T", (0, 2, 1)), ("F", (3,)))),
        ("array", (("P", 0), ("P", 0), ("F", (0,)), ("R", (0, 2, 1)), ("F", (3,)))),
        ("operators", (("P", 1), ("P", 2), ("O", "add", 0, 1), ("O", "mul", 2, 0), ("O", "sub", 3, 1))),
        ("dependency-only", (("P", 0), ("P", 0), ("Z", (0,)), ("F", (2, 1)))),
        ("dependency-plus-args", (("P", 0), ("P", 0), ("D", (0,), (1,)), ("F", (2,)))),
        ("fallback", (("P", 0), ("P", 0), ("X", (0, 1)), ("F", (1,)), ("B", (2, 3)), ("F", (4,)))),
        ("fallback-const", (("P", 0), ("X", (0,)), ("P", 5), ("B", (1, 2)))),
        ("shared-subexpr", (("P", 0), ("P", 0), ("F", (0, 1)), ("F", (2, 0)), ("F", (2, 1)), ("T", (3, 4)))),
        ("same-child-twice", (("P", 0), ("F", (0,)), ("F", (1, 1)), ("T", (1, 1, 0)))),
    ]
)

STRUCTURAL_SHAPES = collections.OrderedDict(
    [
        ("s-chain", (("P", 0), ("P", 0), ("F", (0,)), ("F", (2,)))),
        ("s-tuple", (("P", 0), ("P", 0), ("F", (0,)), ("T", (0, 2)), ("F", (3,)))),
        ("s-array", (("P", 0), ("P", 0), ("R", (0, 1)), ("F", (2,)))),
        ("s-diamond", (("P", 0), ("F", (0,)), ("F", (0,)), ("F", (1, 2)))),
        ("s-alias", (("P", 0), ("P", 0), ("A", 0), ("F", (2,)))),
        ("s-fallback", (("P", 0), ("P", 0), ("X", (0,)), ("B", (2, 1)), ("F", (3,)))),
        # functions with dependency-only edges (an input that invalidates but is no argument) under every structural edit:
        # below a function / next to a second such function / a function of external state
        ("s-dep", (("P", 0), ("P", 0), ("D", (0,), (1,)), ("F", (2,)))),
        ("s-dep-pair", (("P", 0), ("P", 0), ("D", (0,), (1,)), ("D", (1,), (0,)))),
        ("s-dep-ext", (("P", 0), ("P", 0), ("Z", (0,)), ("F", (2, 1)))),
    ]
)


def fail_shapes():
    """Nodes that cannot be evaluated below every kind of parent: (failing sub-graph) x (parent over the failing node f
    and a parameter c) x (node on top of the parent).  The inputs of the failing sub-graph start at the failing value."""
    subs = collections.OrderedDict(
        [
            ("X", [("P", 1), ("X", (0,))]),
            ("B1", [("P", 1), ("X", (0,)), ("B", (1,))]),
            ("B2", [("P", 1), ("P", 1), ("X", (0,)), ("X", (1,)), ("B", (2, 3))]),
            ("B1v", [("P", 1), ("X", (0,)), ("B", (1,), "ValueError")]),  # continues on the function's exception only
            ("B1r", [("P", 1), ("X", (0,)), ("B", (1,), "RuntimeError")]),  # lets the function's exception through
        ]
    )
    parents = collections.OrderedDict(
        [
            ("F(f,c)", lambda f, c: ("F", (f, c))),
            ("F(c,f)", lambda f, c: ("F", (c, f))),
            ("T(f,c)", lambda f, c: ("T", (f, c))),
            ("R(c,f)", lambda f, c: ("R", (c, f))),
            ("A(f)", lambda f, c: ("A", f)),
            ("B(f,c)", lambda f, c: ("B", (f, c))),
            ("Bv(f,c)", lambda f, c: ("B", (f, c), "ValueError")),
            ("Br(f,c)", lambda f, c: ("B", (f, c), "RuntimeError")),
        ]
    )
    tops = collections.OrderedDict(
        [
            ("", None),
            ("T(.,c)", lambda p, c: ("T", (p, c))),
            ("F(.)", lambda p, c: ("F", (p,))),
        ]
    )
    out = collections.OrderedDict()
    for sn, sub in subs.items():
        for pn, par in parents.items():
            for tn, top in tops.items():
                f, c = len(sub) - 1, len(sub)
                shape = list(sub) + [("P", 0), par(f, c)]
                if top is not None:
                    shape.append(top(c + 1, c))
                out["fail:%s/%s/%s" % (sn, pn, tn)] = tuple(shape)
    return out


FAIL_SHAPES = fail_shapes()
RW = ("set", "read")

# ---------------------------------------------------------------------------------------
# jobs


SMALL_SPECIALS = ("alias-chain", "alias-of-function", "fallback-const", "same-child-twice", "dependency-only", "dependency-plus-args")


def jobs(tier, seed):
    """spec = (mode, name, shape, value domain, depth bound or None (= closure), function versions)"""
    specs = []
    if tier == "quick":
        dom = (0, 1)
        order = "asc" if seed % 2 == 0 else "desc"
        for n in (2, 3):
            for sh in dag_shapes(n, order):
                specs.append(("closure", "dag%d" % n, sh, dom, None, (0, 1)))
        for sh in dag_shapes(4, order):
            specs.append(("closure", "dag4", sh, dom, None, (0,)))
            specs.append(("bounded", "dag4", sh, dom, 4, (0, 1)))
        for name, sh in SPECIAL_SHAPES.items():
            d = dom if name != "operators" else (1, 2)
            if name in SMALL_SPECIALS:
                specs.append(("closure", name, sh, d, None, (0,)))
            else:
                specs.append(("bounded", name, sh, d, 5, (0,)))
            specs.append(("bounded", name, sh, d, 4, (0, 1)))
        for name, sh in STRUCTURAL_SHAPES.items():
            specs.append(("structural", name, sh, (0, 1), 3, (0,)))
        for name, sh in FAIL_SHAPES.items():
            top, one_input = not name.endswith("/"), not name.startswith("fail:B2/")
            if one_input and not top:
                specs.append(("rw", name, sh, dom, None, (0,)))
            specs.append(("bounded", name, sh, dom, 3 if top else 4, (0,)))
        specs.append(("nexus", "registry", None, None, 4, None))
        specs.append(("nexus", "registry-full", None, None, 3, None))
    else:
        # thorough: both child orders, three-valued domain on the shapes up to four nodes, deeper bounds everywhere.  (The closure of all
        # five-node shapes and structural edits to depth 4 were part of this tier until the alphabet grew: they no longer finish within an
        # hour on 16 cores and were taken out - see DESIGN 8a.)
        for order in ("asc", "desc"):
            for n in (2, 3):
                for sh in dag_shapes(n, order):
                    specs.append(("closure", "dag%d" % n, sh, (0, 1, 2), None, (0, 1)))
            for sh in dag_shapes(4, order):
                specs.append(("closure", "dag4", sh, (0, 1, 2), None, (0,)))
                specs.append(("bounded", "dag4", sh, (0, 1), 5, (0, 1)))
        for name, sh in SPECIAL_SHAPES.items():
            d = (0, 1, 2) if name != "operators" else (1, 2, 4)
            if name in SMALL_SPECIALS:
                specs.append(("closure", name, sh, d[:2], None, (0,)))
            specs.append(("bounded", name, sh, d[:2], 5, (0, 1)))
        for name, sh in STRUCTURAL_SHAPES.items():
            specs.append(("structural", name, sh, (0, 1), 3, (0,)))
        for name, sh in FAIL_SHAPES.items():
            one_input = not name.startswith("fail:B2/")
            specs.append(("rw", name, sh, (0, 1), None if one_input else 5, (0,)))
            specs.append(("bounded", name, sh, (0, 1), 4, (0,)))
        specs.append(("nexus", "registry", None, None, 5, None))
        specs.append(("nexus", "registry-full", None, None, 3, None))
    # de-duplicate identical specs (asc == desc when no node has two children)
    seen, out = set(), []
    for s in specs:
        if s not in seen:
            seen.add(s)
            out.append(s)
    # big jobs first for load balance
    out.sort(key=lambda s: (s[0] != "structural", -(len(s[2]) if s[2] else 99)))
    return out


def bound(tier, seed):
    if tier == "quick":
        return (
            "closure (fixpoint): all topologically numbered DAGs with 2..3 nodes incl. function replacement, with 4 nodes and "
            "11 hand-written shapes without function replacement, values {0,1}; depth 4 with function replacement on the same "
            "shapes; structural edits (child/node replacement with own or taken-over children by existing and fresh nodes, element "
            "assignment, added arguments/dependencies) depth 3 on 9 shapes, 3 of them with dependency-only edges; Nexus registry "
            "API depth 4 from the empty registry and depth 3 from a populated one (incl. re-registration of functions that "
            "have explicit dependencies); nodes that cannot be evaluated: "
            "5 failing sub-graphs (raising function; fallbacks without working alternative, 3 exception types) x 8 parents x "
            "3 tops = 120 shapes, all operations depth 4 (no top) / 3 (with top), set/read closure on the 32 one-input shapes "
            "without top; the read directly after a failed read is a state of its own"
        )
    return (
        "closure: all DAGs with 2..4 nodes (both child orders, values {0,1,2}) + the small special shapes; "
        "depth 5 with function replacement on the four-node DAGs and all 11 special shapes; structural edits depth 3 on 9 shapes; Nexus "
        "registry API depth 5 (empty start) / 3 (populated start); 120 shapes with nodes that "
        "cannot be evaluated: set/read closure (two-input sub-graphs depth 5), all operations depth 4"
    )


def make_factory(spec):
    mode, name, shape, dom, depth, vers = spec
    if mode in ("closure", "bounded"):
        return lambda: World(shape, dom=dom, structural=False, vers=vers)
    if mode == "rw":
        return lambda: World(shape, dom=dom, structural=False, vers=vers, alphabet=RW)
    if mode == "structural":
        return lambda: World(shape, dom=dom, structural=True, vers=vers)
    if mode == "nexus":
        from checks.c04_registry import FULL, RegistryWorld

        return lambda: RegistryWorld(prefix=FULL if name == "registry-full" else ())
    raise ValueError(mode)


class _Res(JobResult):
    pass


def run_job(spec):
    mode, name, shape, dom, depth, vers = spec
    res = JobResult()
    factory = make_factory(spec)
    tagged = _Tagger(res, spec, factory)
    closed, dcomp = explore.bfs(tagged.make, tagged, max_depth=depth, max_states=400000)
    res.outcomes[("job-closed" if closed else "job-depth-bounded", mode)] += 1
    res.sample(dict(mode=mode, shape=name, spec=shape, states=len(res.state_hashes), closed=closed, depth=res.max_depth))
    return res.as_dict()


class _Tagger(object):
    """Adapter: lets World.apply report violations (name, exp, act, mode) with history + signature."""

    def __init__(self, res, spec, factory):
        self.res, self.spec, self.factory = res, spec, factory
        self.transitions = 0
        self.executions = 0
        self.max_depth = 0
        self.caps_hit = res.caps_hit

    def make(self):
        return _Wrapped(self.factory(), self)

    # JobResult interface used by explore.bfs
    def state(self, k):
        self.res.state((self.spec[1], self.spec[2], k))

    def __setattr__(self, k, v):
        object.__setattr__(self, k, v)
        if k in ("transitions", "executions", "max_depth") and "res" in self.__dict__:
            setattr(self.res, k, v)


class _Wrapped(object):
    def __init__(self, world, tagger):
        self.w, self.t, self.hist = world, tagger, []

    def enabled(self):
        return self.w.enabled()

    def key(self):
        k = self.w.key()
        if self.w.nontrivial():
            self.t.res.nontriv((self.t.spec[1], self.t.spec[2], k))
        return k

    def apply(self, op, res):
        self.hist.append(op)
        try:
            raw = self.w.apply(op, self.t.res if res is not None else None)
        except RecursionError:
            raw = [("op:" + str(op[0]), "no exception", "RecursionError", "exception:RecursionError")]
        except Exception as e:  # noqa: BLE001 - an exception on an operation the reference declares valid
            raw = [("op:" + str(op[0]), "no exception", type(e).__name__ + ": " + str(e)[:200], "exception:" + type(e).__name__)]
        out = []
        for obs, exp, act, mode in raw or []:
            if res is None:
                continue
            hist = [list(self.t.spec)] + [list(o) for o in self.hist]
            hist = _minimise(hist)
            sig = _signature(hist, obs, mode)
            out.append(self.t.res.violation(sig, hist, obs, exp, act, mode))
        return out


def _signature(hist, obs, mode):
    spec = hist[0]
    ops = ";".join(",".join(str(x) for x in o) for o in hist[1:])
    return "%s:%s|%s|%s|%s" % (spec[0], _shape_str(spec[2]) if spec[2] is not None else spec[1], ops, obs, mode)


def _shape_str(shape):
    if shape is None:
        return "registry"
    return " ".join("".join(str(x) for x in _flat(s)) for s in shape)


def _flat(s):
    for x in s:
        if isinstance(x, (list, tuple)):
            yield "("
            for y in _flat(x):
                yield y
            yield ")"
        else:
            yield x


def _valid_and_violates(hist):
    """Replays hist (first element = job spec); every op must be enabled when applied."""
    spec = _tuplify(hist[0])
    factory = make_factory(spec)
    w = factory()
    res = JobResult()
    out = []
    for op in hist[1:]:
        op = _tuplify(op)
        if op not in w.enabled():
            return None
        try:
            raw = w.apply(op, res)
        except RecursionError:
            raw = [("op:" + str(op[0]), "no exception", "RecursionError", "exception:RecursionError")]
        except Exception as e:  # noqa: BLE001
            raw = [("op:" + str(op[0]), "no exception", type(e).__name__ + ": " + str(e)[:200], "exception:" + type(e).__name__)]
        out.extend(raw or [])
        if raw:
            break
    return out


def _minimise(hist):
    head = hist[0]

    def violates(ops):
        r = _valid_and_violates([head] + ops)
        return bool(r)

    return [head] + explore.minimise(hist[1:], violates)


def _tuplify(x):
    if isinstance(x, list):
        return tuple(_tuplify(y) for y in x)
    return x


def replay(history):
    raw = _valid_and_violates(history)
    if raw is None:
        return []
    return [dict(observable=o, expected=e, actual=a, mode=m) for o, e, a, m in raw]


def vacuity_guards(tot, tier):
    f = tot.facts
    yield "reads of live and frozen function nodes both reached", f.get("read:F:live", 0) > 0 and f.get("read:F:frozen", 0) > 0
    yield "alias / tuple / array / fallback nodes read", all(f.get("read:%s:live" % k, 0) > 0 for k in "ATRB")
    yield "more than 3 distinct outcome classes", len(tot.outcomes) > 3
    yield "cached reads observed", any(k[1] == "cached" for k in tot.outcomes if isinstance(k, tuple) and len(k) == 3)
    yield "failing reads of function / fallback / alias / tuple / array nodes repeated without an operation in between", all(
        f.get("read-fails-again:%s" % k, 0) > 0 for k in "XFBATR"
    )
    yield "functions with dependency-only edges replaced by a fresh and by an existing function that takes over their children", all(
        f.get("replace_nc:%s:dep-only" % k, 0) > 0 for k in ("fresh", "existing")
    )
    yield "nodes that took over dependency-only edges (and nodes above them) read, recomputing and from the cache", all(
        f.get("read:took-over-dep-only:%s" % k, 0) > 0 for k in ("recomputed", "cached")
    )
    yield "functions registered again under their name in a populated registry", f.get("registry:function-replaced", 0) > 0
    yield "nodes above a fallback whose read has just failed are read (failing and falling through)", all(
        f.get("read-above-failed:%s>B:%s" % (k, o), 0) > 0 for k, o in (("B", "val"), ("B", "exc"), ("T", "val"), ("T", "exc"), ("F", "exc"))
    )
