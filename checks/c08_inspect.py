"""C08 - inspecting results never moves the fit.

Mode C: after do_fit() on each fitted problem, every sequence (with repetition) of post-fit queries up to length L;
after every query the fit must be where it was, minimizer and graph parameters must agree, and a repeated query must
give the same answer.
"""
import collections
import contextlib
import io
import itertools
import os
import shutil
import tempfile
import warnings

import numpy as np

from kmc import problems
from kmc.core import JobResult
from kmc.fitworld import FitWorld, close_scaled

PROPERTY = "C08"
RULE = (
    "executions = (fitted problem, backend, dynamic-error algorithm, sequence of post-fit queries with repetition); after each "
    "query: parameter values within 0.03 sigma, cost within 1e-3, parameter errors within 10 %, did_fit unchanged, "
    "minimizer.parameter_values within 0.01 sigma of fit.parameter_values, repeated query = same answer; non-trivial = the "
    "sequence contains a query that re-minimises internally (asymmetric errors, profile, contour); additionally after each query "
    "the model values the fit reports must be the model function at the data for fit.parameter_values (the parameters used to "
    "evaluate the model are the fit's), and a model curve returned by an evaluation method must be the model function at the "
    "requested points"
)
ASSUMPTIONS = [
    "tolerances calibrated on the unchanged tree (worst iminuit shift 2.9e-3 sigma, cost 1.2e-5, sigma 2.4 %)",
    "scipy: sequences of length 1 in the quick tier, contours only in the thorough tier (4.9 s each)",
    "quick tier: the read-type queries added later (goodness of fit, result dictionary, evaluation methods at user points) and all queries "
    "on the problems with other fit types / cost functions are enumerated alone, repeated, and in front of one query per re-evaluation "
    "mechanism (PAIR_Q); the thorough tier enumerates all their pairs",
]
QUERIES_BASE = ["cov", "cor", "asym", "profile0", "profile1", "profile_bounds", "profile_cl", "profile_refused_low", "profile_refused_high", "contour", "band", "report", "result_dict_asym", "plot", "to_file", "to_file_asym", "hessian"]
# pure reads: goodness of fit / result dictionary (every cost function has its own goodness_of_fit), and the public evaluation
# methods with arguments (model curve at user points, with explicit parameters, derivatives by parameters)
QUERIES_READ = ["gof", "result_dict", "eval_model", "eval_model_pars", "eval_deriv"]
QUERIES = QUERIES_BASE + QUERIES_READ
# one query per mechanism that evaluates the cost function again (MINOS-like scan, profile, profile with confidence level, contour, HESSE, asymmetric errors through the result dictionary)
PAIR_Q = ["asym", "profile0", "profile_cl", "contour", "hessian", "result_dict_asym"]
EVAL_CALLS = {
    "eval_model": {"xy": "call:eval_model_function:grid", "unbinned": "call:eval_model_function:grid", "hist": "call:eval_model_function_density:grid"},
    "eval_model_pars": {"xy": "call:eval_model_function:grid+pars", "unbinned": "call:eval_model_function:grid+pars", "hist": "call:eval_model_function_density:grid+pars"},
    "eval_deriv": {"xy": "call:eval_model_function_derivative_by_parameters:grid"},
}
REMINIMISING = {"asym", "profile0", "profile1", "profile_bounds", "profile_cl", "profile_refused_low", "profile_refused_high", "contour", "result_dict_asym", "to_file_asym"}
PROBS_QUICK = ["lin-y", "exp-xy", "exp-fixed", "exp-lim", "exp-relm", "idx3-cov"]
PROBS_ALL = list(problems.PROBLEMS)
# fit types and cost functions other than XYFit / chi2: name -> (fit type, cost identifier, model, ops before the fit).
# ':nodet' = a cost function OBJECT built with add_determinant_cost=False (no string identifier gives that)
PROBLEMS_X = collections.OrderedDict(
    [
        ("unb-nll", ("unbinned", "nll", "normal", [])),
        ("hist-ga-nodet", ("hist", "gauss_approximation:nodet", "normal", [])),
        ("idx-ga-nodet", ("indexed", "gauss_approximation:nodet", "idx2", [("add", "y-abs-rho", "e0")])),
        ("hist-nll", ("hist", "nll", "normal", [])),
        ("hist-ga", ("hist", "gauss_approximation", "normal", [("add", "y-abs", "e0")])),
        ("xy-ga-nodet", ("xy", "gauss_approximation:nodet", "linoff", [("add", "y-abs", "e0"), ("add", "x-abs", "e1")])),
        ("idx-ga", ("indexed", "gauss_approximation", "idx2", [("add", "y-abs-rho", "e0")])),
        ("hist-chi2-nodet", ("hist", "chi2:nodet", "normal", [("add", "y-abs", "e0")])),
    ]
)
PROBS_X_QUICK = ["unb-nll", "hist-ga-nodet", "idx-ga-nodet"]


def make_problem(prob, v=0, minimizer="iminuit", dea="nonlinear", fit=True):
    if prob in problems.PROBLEMS:
        return problems.make(prob, v=v, minimizer=minimizer, dea=dea, fit=fit)
    ftype, cost, model, ops = PROBLEMS_X[prob]
    if ftype == "unbinned":
        w = FitWorld(ftype, cost, model=model, v=v, minimizer=minimizer)
    else:
        w = FitWorld(ftype, cost, model=model, v=v, minimizer=minimizer, dea=dea, n=8 if ftype in ("xy", "indexed") else 5)
    with warnings.catch_warnings():
        warnings.simplefilter("ignore")
        for op in ops:
            w.apply(tuple(op))
        if fit:
            w.apply(("fit",))
    return w


def do_query(w, q, tmpdir):
    f = w.fit
    from kafe2 import ContoursProfiler, Plot

    free = [p for p in w.par_names if p not in w.fixed]
    with warnings.catch_warnings():
        warnings.simplefilter("ignore")
        if q == "cov":
            return np.asarray(f.parameter_cov_mat)
        if q == "cor":
            return np.asarray(f.parameter_cor_mat)
        if q == "hessian":
            h = f._fitter.minimizer.hessian
            return None if h is None else np.asarray(h)
        if q == "asym":
            a = f.asymmetric_parameter_errors
            return None if a is None else np.asarray(a)
        if q in ("profile0", "profile1"):
            p = free[int(q[-1]) % len(free)]
            return np.asarray(ContoursProfiler(f, profile_points=9).get_profile(p))
        if q == "profile_bounds":
            i = w.par_names.index(free[0])
            v0, s0 = float(f.parameter_values[i]), float(f.parameter_errors[i])
            return np.asarray(ContoursProfiler(f, profile_points=7).get_profile(free[0], low=v0 - 1.5 * s0, high=v0 + 1.2 * s0))
        if q == "profile_cl":
            return np.asarray(ContoursProfiler(f, profile_points=7).get_profile(free[-1], cl=0.9))
        if q in ("profile_refused_low", "profile_refused_high"):
            # a bound on the wrong side of the optimum: the request is refused (ValueError) - and a refused query is still only a query
            i = w.par_names.index(free[0])
            v0, s0 = float(f.parameter_values[i]), float(f.parameter_errors[i])
            kw = dict(low=v0 + 0.8 * s0) if q.endswith("low") else dict(high=v0 - 0.8 * s0)
            try:
                ContoursProfiler(f, profile_points=7).get_profile(free[0], **kw)
            except ValueError:
                return None
            return None
        if q == "to_file_asym":
            f.to_file(os.path.join(tmpdir, "fit_asym.yml"), calculate_asymmetric_errors=True)
            return None
        if q == "contour":
            cs = ContoursProfiler(f, contour_points=12, contour_sigma_values=(1.0,)).get_contours(free[0], free[1])
            out = []
            for cl, c in cs:
                if c is None:
                    out.append(None)
                elif getattr(c, "xy_points", None) is not None:
                    xy = np.asarray(c.xy_points)
                    out.append([xy[0].min(), xy[0].max(), xy[1].min(), xy[1].max()])
                else:
                    # grid contour (scipy backend): the drawn line is the level sigma of grid_z
                    import contourpy

                    lines = contourpy.contour_generator(np.asarray(c.grid_x), np.asarray(c.grid_y), np.asarray(c.grid_z).T).lines(float(c.sigma))
                    if not lines:
                        out.append(None)
                    else:
                        xy = np.asarray(max(lines, key=len)).T
                        out.append([xy[0].min(), xy[0].max(), xy[1].min(), xy[1].max()])
            return np.asarray([[np.nan] * 4 if o is None else o for o in out], dtype=float)
        if q == "band":
            if w.ftype != "xy":
                return None
            x = np.linspace(w.val.x[0] - 0.5, w.val.x[-1] + 0.5, 5)
            return np.asarray(f.error_band(x))
        if q == "report":
            s = io.StringIO()
            f.report(s, asymmetric_parameter_errors=False)
            return s.getvalue()
        if q == "result_dict_asym":
            d = f.get_result_dict(asymmetric_parameter_errors=True)
            if d["asymmetric_parameter_errors"] is None:
                return None
            return np.asarray([d["cost"]] + list(d["parameter_values"].values()) + list(np.ravel(d["asymmetric_parameter_errors"][free[0]])), dtype=float)
        if q == "gof":
            g = f.goodness_of_fit
            return None if g is None else np.asarray([g, f.ndf], dtype=float)
        if q == "result_dict":
            d = f.get_result_dict()
            return np.asarray([d["cost"], np.nan if d["goodness_of_fit"] is None else d["goodness_of_fit"], d["ndf"]] + list(d["parameter_values"].values()), dtype=float)
        if q in EVAL_CALLS:
            name = EVAL_CALLS[q][w.ftype]
            ans = np.asarray(getattr(f, name.split(":")[1])(**_call_kwargs(w, name)), dtype=float)
            exp = w.ref_call(name, pv=collections.OrderedDict(zip(w.par_names, (float(x) for x in f.parameter_values))))
            if exp is not None and not close_scaled(ans, np.asarray(exp, dtype=float), rtol=1e-9):
                raise WrongCurve(_l(np.asarray(exp, dtype=float)), _l(ans))
            return ans
        if q == "plot":
            import matplotlib.pyplot as plt

            p = Plot(f)
            p.plot()
            plt.close("all")
            return None
        if q == "to_file":
            path = os.path.join(tmpdir, "fit.yml")
            f.to_file(path)
            return None
    raise KeyError(q)


class WrongCurve(Exception):
    def __init__(self, expected, actual):
        Exception.__init__(self, "wrong curve")
        self.expected, self.actual = expected, actual


def _call_kwargs(w, name):
    spec = name.split(":")[2]
    kw = {}
    if "grid" in spec:
        kw["x"] = w.eval_grid()
    if "pars" in spec:
        kw["model_parameters"] = [float(x) for x in w.point("P2").values()]
    return kw


def model_vs_parameters(w):
    """the model values the fit reports against the model function evaluated (by the reference) at the data for fit.parameter_values"""
    f = w.fit
    with warnings.catch_warnings():
        warnings.simplefilter("ignore")
        try:
            act = np.asarray(f.y_model if w.ftype == "xy" else f.model, dtype=float)
        except Exception as e:  # noqa: BLE001
            return [("model_vs_parameters", "model values", "%s: %s" % (type(e).__name__, str(e)[:120]), "exception:" + type(e).__name__)]
        pv = collections.OrderedDict(zip(w.par_names, (float(x) for x in f.parameter_values)))
        exp = np.asarray(w.ref_model(pv), dtype=float)
    if act.shape == exp.shape and close_scaled(act, exp, rtol=1e-7):
        return []
    return [("model_vs_parameters", exp.tolist(), act.tolist(), "model-not-at-fit-parameters")]


def snapshot(w):
    f = w.fit
    return dict(
        values=np.asarray(f.parameter_values, dtype=float),
        cost=float(f.cost_function_value),
        errors=np.asarray(f.parameter_errors, dtype=float),
        did_fit=bool(f.did_fit),
        mvalues=np.asarray(f._fitter.minimizer.parameter_values, dtype=float),
    )


def compare_state(ref, now, sig):
    out = []
    free = sig > 0
    dv = np.abs(now["values"] - ref["values"])
    if np.any(dv[free] > 0.03 * sig[free]) or np.any(dv[~free] != 0):
        out.append(("parameter_values", ref["values"].tolist(), now["values"].tolist(), "moved"))
    if abs(now["cost"] - ref["cost"]) > 1e-3:
        out.append(("cost_function_value", ref["cost"], now["cost"], "moved"))
    if np.any(np.abs(now["errors"] - ref["errors"])[free] > 0.10 * sig[free]):
        out.append(("parameter_errors", ref["errors"].tolist(), now["errors"].tolist(), "moved"))
    if now["did_fit"] != ref["did_fit"]:
        out.append(("did_fit", ref["did_fit"], now["did_fit"], "changed"))
    dm = np.abs(now["mvalues"] - now["values"])
    if np.any(dm[free] > 0.01 * sig[free]) or np.any(dm[~free] != 0):
        out.append(("minimizer_vs_graph", now["values"].tolist(), now["mvalues"].tolist(), "diverged"))
    return out


def same_answer(a, b):
    if a is None or b is None:
        return (a is None) == (b is None)
    if isinstance(a, str):
        return True  # the report is compared through the state it prints (numbers round to few digits)
    a, b = np.asarray(a, dtype=float), np.asarray(b, dtype=float)
    if a.shape != b.shape:
        return False
    if a.ndim == 2 and a.shape[0] == 2 and a.shape[1] >= 4 and np.all(np.diff(a[0]) > 0) and np.all(np.diff(b[0]) > 0):
        # a profile (abscissas, cost): the scanned interval follows the symmetric uncertainty, which the backend may refine by a few
        # per cent during an asymmetric-error query - the two answers are compared as FUNCTIONS on their common interval
        width = a[0][-1] - a[0][0]
        if abs(b[0][0] - a[0][0]) > 0.08 * width or abs(b[0][-1] - a[0][-1]) > 0.08 * width:
            return False
        m = (b[0] >= a[0][0]) & (b[0] <= a[0][-1])
        ya = np.interp(b[0][m], a[0], a[1])
        off = 0.0
        if np.nanmin(np.abs(a[1])) > 1.0 or np.nanmin(np.abs(b[1])) > 1.0:  # absolute cost values: compare the rise
            off = np.nanmin(b[1]) - np.nanmin(a[1])
        rise = max(np.nanmax(a[1]) - np.nanmin(a[1]), 1e-300)
        return bool(np.all(np.abs(b[1][m] - off - ya) <= 0.08 * rise + 0.1))
    scale = max(np.nanmax(np.abs(a)) if a.size else 0.0, np.nanmax(np.abs(b)) if b.size else 0.0, 1e-300)
    both_nan = np.isnan(a) & np.isnan(b)  # "not defined" twice is the same answer
    return bool(np.all((np.abs(a - b) <= 5e-2 * scale + 2e-3) | both_nan))


def run_sequence(prob, backend, dea, v, seq, res=None):
    with contextlib.redirect_stdout(io.StringIO()):  # the minimizer base class prints a warning when a scan steps to an infinite cost value
        return _run_sequence(prob, backend, dea, v, seq, res)


def _run_sequence(prob, backend, dea, v, seq, res=None):
    tmpdir = tempfile.mkdtemp(prefix="kmc_c08_")
    try:
        w = make_problem(prob, v=v, minimizer=backend, dea=dea)
        ref = snapshot(w)
        sig = ref["errors"].copy()
        viol = []
        answers = {}
        for i, q in enumerate(seq):
            try:
                ans = do_query(w, q, tmpdir)
            except WrongCurve as e:
                viol.append(("answer:" + q, e.expected, e.actual, "wrong-curve"))
                break
            except Exception as e:  # noqa: BLE001
                viol.append(("query:" + q, "no exception", "%s: %s" % (type(e).__name__, str(e)[:120]), "exception:" + type(e).__name__))
                break
            if res is not None:
                res.transitions += 1
                res.evaluations += 1
            now = snapshot(w)
            bad = compare_state(ref, now, sig) + model_vs_parameters(w)
            for o, e, a, m in bad:
                viol.append(("%s after %s" % (o, q), e, a, m))
            if q in answers and not same_answer(answers[q], ans):
                viol.append(("repeat:" + q, _l(answers[q]), _l(ans), "different-answer"))
            answers.setdefault(q, ans)
            if bad:
                break
        return viol
    finally:
        shutil.rmtree(tmpdir, ignore_errors=True)


def _l(a):
    return a.tolist() if isinstance(a, np.ndarray) else a


def queries_for(prob, backend, tier):
    w = make_problem(prob, fit=False)
    free = [p for p in w.par_names if p not in w.fixed]
    qs = list(QUERIES)
    if len(free) < 2:
        qs = [q for q in qs if q not in ("contour", "profile1")]
    if w.ftype != "xy":
        qs.remove("band")
    qs = [q for q in qs if q not in EVAL_CALLS or w.ftype in EVAL_CALLS[q]]
    if backend == "scipy" and tier == "quick":
        qs = [q for q in qs if q != "contour"]
    return qs


def jobs(tier, seed):
    v = seed % 3
    specs = []
    probs = (PROBS_QUICK + PROBS_X_QUICK) if tier == "quick" else (PROBS_ALL + list(PROBLEMS_X))
    for vv in ([v] if tier == "quick" else [0, 1, 2]):
        for prob in probs:
            for backend in ("iminuit", "scipy"):
                deas = ["nonlinear"] + (["iterative"] if prob in ("exp-xy", "exp-relm", "exp-xy-relm") else [])
                for dea in deas:
                    L = (2 if backend == "iminuit" else 1) if tier == "quick" else (3 if (backend == "iminuit" and vv == v) else 2)
                    if tier != "quick" and backend == "scipy" and vv != v:
                        L = 1
                    qs = queries_for(prob, backend, tier)
                    for first in qs:
                        specs.append((prob, backend, dea, vv, L, first, tier))
    return specs


def bound(tier, seed):
    if tier == "quick":
        return (
            "6 fitted xy/indexed chi2 problems (linear, x+y, fixed, limited, model-relative, indexed) x {nonlinear, iterative where dynamic}; iminuit: all "
            "query sequences with repetition of length <= 2 over the 17 base queries, plus each of the 5 read queries (goodness of fit, result dictionary, "
            "model curve / curve with explicit parameters / parameter derivatives at user points) alone, twice, and in front of one query per "
            "re-evaluation mechanism (6); 3 fitted problems of other kinds (unbinned likelihood, histogram and indexed fits with a Gaussian-approximation "
            "cost OBJECT without determinant term): every query alone, twice, and in front of the 6 re-evaluating ones; scipy: length 1 without contours; "
            "valuation %d" % (seed % 3)
        )
    return (
        "14 fitted chi2 problems; iminuit: all query sequences of length <= 3 (one valuation) and <= 2 (the two others) over the 17 base queries, all pairs "
        "with the 5 read queries; scipy: length <= 2 incl. contours (one valuation), length 1 (the others); 8 problems of other fit types / cost "
        "functions (unbinned, histogram nll / Gaussian approximation with and without determinant term / chi2 object without determinant term, indexed and xy "
        "Gaussian approximation): all sequences of length <= 2 over all queries"
    )


def sequences_for(prob, backend, tier, L, first):
    """the query sequences of one job (all start with `first`)"""
    qs = queries_for(prob, backend, tier)
    base = [q for q in qs if q not in QUERIES_READ]
    full_product = prob in problems.PROBLEMS and first in base
    seqs = []
    if full_product:
        for n in range(1, L + 1):
            for tail in itertools.product(base, repeat=n - 1):
                seqs.append((first,) + tail)
        if tier != "quick" and L >= 2:
            seqs += [(first, q) for q in qs if q in QUERIES_READ]
        return seqs
    seqs.append((first,))
    if L >= 2:
        if tier == "quick":
            seqs.append((first, first))
            seqs += [(first, q) for q in PAIR_Q if q in qs and q != first]
        else:
            seqs += [(first, q) for q in qs]
    return seqs


def run_job(spec):
    prob, backend, dea, v, L, first, tier = spec
    res = JobResult()
    seqs = sequences_for(prob, backend, tier, L, first)
    for seq in seqs:
        viol = run_sequence(prob, backend, dea, v, seq, res)
        res.executions += 1
        key = (prob, backend, dea, v, seq)
        res.state(key)
        if any(q in REMINIMISING for q in seq):
            res.nontriv(key)
        res.observe((key, len(viol)))
        res.outcomes[(prob, backend, dea, "ok" if not viol else "MOVED")] += 1
        for q in seq:
            res.facts["query:" + q] += 1
        res.facts["problem:" + prob] += 1
        if len(seq) > 1 and seq[0] in QUERIES_READ + ["report", "plot", "to_file"] and seq[1] in REMINIMISING:
            res.facts["read-before-reminimising:" + prob] += 1
        for o, e, a, m in viol:
            hist = [dict(prob=prob, backend=backend, dea=dea, v=v)] + list(seq)
            res.violation("%s/%s/%s|%s" % (prob, backend, dea, ";".join(seq)), hist, o, e, a, m)
    res.sample(dict(problem=prob, backend=backend, algorithm=dea, first_query=first, sequences=len(seqs), example=list(seqs[-1])))
    return res.as_dict()


def replay(history):
    h = history[0]
    viol = run_sequence(h["prob"], h["backend"], h["dea"], h["v"], list(history[1:]))
    return [dict(observable=o, expected=e, actual=a, mode=m) for o, e, a, m in viol]


def triage_key(v):
    return (v["sig"].split("|")[0], v["observable"], v["mode"])


def vacuity_guards(tot, tier):
    for q in QUERIES:
        yield "query %s exercised" % q, tot.facts.get("query:" + q, 0) > 0
    for p in PROBS_X_QUICK if tier == "quick" else list(PROBLEMS_X):
        yield "problem %s explored" % p, tot.facts.get("problem:" + p, 0) > 0
        yield "a read was placed before a re-minimising query on %s" % p, tot.facts.get("read-before-reminimising:" + p, 0) > 0
