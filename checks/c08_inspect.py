"""C08 - inspecting results never moves the fit.

Mode C: after do_fit() on each fitted problem, every sequence (with repetition) of post-fit queries up to length L;
after every query the fit must be where it was, minimizer and graph parameters must agree, and a repeated query must
give the same answer.
"""
import io
import itertools
import os
import shutil
import tempfile
import warnings

import numpy as np

from kmc import problems
from kmc.core import JobResult

PROPERTY = "C08"
RULE = (
    "executions = (fitted problem, backend, dynamic-error algorithm, sequence of post-fit queries with repetition); after each "
    "query: parameter values within 0.03 sigma, cost within 1e-3, parameter errors within 10 %, did_fit unchanged, "
    "minimizer.parameter_values within 0.01 sigma of fit.parameter_values, repeated query = same answer; non-trivial = the "
    "sequence contains a query that re-minimises internally (asymmetric errors, profile, contour)"
)
ASSUMPTIONS = [
    "tolerances calibrated on the unchanged tree (worst iminuit shift 2.9e-3 sigma, cost 1.2e-5, sigma 2.4 %)",
    "scipy: sequences of length 1 in the quick tier, contours only in the thorough tier (4.9 s each)",
]
QUERIES = ["cov", "cor", "asym", "profile0", "profile1", "profile_bounds", "profile_cl", "profile_refused_low", "profile_refused_high", "contour", "band", "report", "result_dict_asym", "plot", "to_file", "to_file_asym", "hessian"]
REMINIMISING = {"asym", "profile0", "profile1", "profile_bounds", "profile_cl", "profile_refused_low", "profile_refused_high", "contour", "result_dict_asym", "to_file_asym"}
PROBS_QUICK = ["lin-y", "exp-xy", "exp-fixed", "exp-lim", "exp-relm", "idx3-cov"]
PROBS_ALL = list(problems.PROBLEMS)


def do_query(w, q, tmpdir):
    f = w.fit
    from kafe2 import ContoursProfiler, Plot

    free = [p for p in w.par_names if p not in w.fixed]
    with warnings.catch_warnings():
        warnings.simplefilter("ignore")
        if q == "cov":
            return np.asarray(f.parameter_cov_mat)
        if q == "cor":
            return np.asarray(f.parameter_cor_mat)
        if q == "hessian":
            h = f._fitter.minimizer.hessian
            return None if h is None else np.asarray(h)
        if q == "asym":
            a = f.asymmetric_parameter_errors
            return None if a is None else np.asarray(a)
        if q in ("profile0", "profile1"):
            p = free[int(q[-1]) % len(free)]
            return np.asarray(ContoursProfiler(f, profile_points=9).get_profile(p))
        if q == "profile_bounds":
            i = w.par_names.index(free[0])
            v0, s0 = float(f.parameter_values[i]), float(f.parameter_errors[i])
            return np.asarray(ContoursProfiler(f, profile_points=7).get_profile(free[0], low=v0 - 1.5 * s0, high=v0 + 1.2 * s0))
        if q == "profile_cl":
            return np.asarray(ContoursProfiler(f, profile_points=7).get_profile(free[-1], cl=0.9))
        if q in ("profile_refused_low", "profile_refused_high"):
            # a bound on the wrong side of the optimum: the request is refused (ValueError) - and a refused query is still only a query
            i = w.par_names.index(free[0])
            v0, s0 = float(f.parameter_values[i]), float(f.parameter_errors[i])
            kw = dict(low=v0 + 0.8 * s0) if q.endswith("low") else dict(high=v0 - 0.8 * s0)
            try:
                ContoursProfiler(f, profile_points=7).get_profile(free[0], **kw)
            except ValueError:
                return None
            return None
        if q == "to_file_asym":
            f.to_file(os.path.join(tmpdir, "fit_asym.yml"), calculate_asymmetric_errors=True)
            return None
        if q == "contour":
            cs = ContoursProfiler(f, contour_points=12, contour_sigma_values=(1.0,)).get_contours(free[0], free[1])
            out = []
            for cl, c in cs:
                if c is None:
                    out.append(None)
                else:
                    xy = np.asarray(c.xy_points) if hasattr(c, "xy_points") else np.asarray([c[0], c[1]])
                    out.append([xy[0].min(), xy[0].max(), xy[1].min(), xy[1].max()])
            return np.asarray(out, dtype=float)
        if q == "band":
            if w.ftype != "xy":
                return None
            x = np.linspace(w.val.x[0] - 0.5, w.val.x[-1] + 0.5, 5)
            return np.asarray(f.error_band(x))
        if q == "report":
            s = io.StringIO()
            f.report(s, asymmetric_parameter_errors=False)
            return s.getvalue()
        if q == "result_dict_asym":
            d = f.get_result_dict(asymmetric_parameter_errors=True)
            if d["asymmetric_parameter_errors"] is None:
                return None
            return np.asarray([d["cost"]] + list(d["parameter_values"].values()) + list(np.ravel(d["asymmetric_parameter_errors"][free[0]])), dtype=float)
        if q == "plot":
            import matplotlib.pyplot as plt

            p = Plot(f)
            p.plot()
            plt.close("all")
            return None
        if q == "to_file":
            path = os.path.join(tmpdir, "fit.yml")
            f.to_file(path)
            return None
    raise KeyError(q)


def snapshot(w):
    f = w.fit
    return dict(
        values=np.asarray(f.parameter_values, dtype=float),
        cost=float(f.cost_function_value),
        errors=np.asarray(f.parameter_errors, dtype=float),
        did_fit=bool(f.did_fit),
        mvalues=np.asarray(f._fitter.minimizer.parameter_values, dtype=float),
    )


def compare_state(ref, now, sig):
    out = []
    free = sig > 0
    dv = np.abs(now["values"] - ref["values"])
    if np.any(dv[free] > 0.03 * sig[free]) or np.any(dv[~free] != 0):
        out.append(("parameter_values", ref["values"].tolist(), now["values"].tolist(), "moved"))
    if abs(now["cost"] - ref["cost"]) > 1e-3:
        out.append(("cost_function_value", ref["cost"], now["cost"], "moved"))
    if np.any(np.abs(now["errors"] - ref["errors"])[free] > 0.10 * sig[free]):
        out.append(("parameter_errors", ref["errors"].tolist(), now["errors"].tolist(), "moved"))
    if now["did_fit"] != ref["did_fit"]:
        out.append(("did_fit", ref["did_fit"], now["did_fit"], "changed"))
    dm = np.abs(now["mvalues"] - now["values"])
    if np.any(dm[free] > 0.01 * sig[free]) or np.any(dm[~free] != 0):
        out.append(("minimizer_vs_graph", now["values"].tolist(), now["mvalues"].tolist(), "diverged"))
    return out


def same_answer(a, b):
    if a is None or b is None:
        return (a is None) == (b is None)
    if isinstance(a, str):
        return True  # the report is compared through the state it prints (numbers round to few digits)
    a, b = np.asarray(a, dtype=float), np.asarray(b, dtype=float)
    if a.shape != b.shape:
        return False
    scale = max(np.nanmax(np.abs(a)) if a.size else 0.0, np.nanmax(np.abs(b)) if b.size else 0.0, 1e-300)
    return bool(np.all(np.abs(a - b) <= 5e-2 * scale + 2e-3))


def run_sequence(prob, backend, dea, v, seq, res=None):
    tmpdir = tempfile.mkdtemp(prefix="kmc_c08_")
    try:
        w = problems.make(prob, v=v, minimizer=backend, dea=dea)
        ref = snapshot(w)
        sig = ref["errors"].copy()
        viol = []
        answers = {}
        for i, q in enumerate(seq):
            try:
                ans = do_query(w, q, tmpdir)
            except Exception as e:  # noqa: BLE001
                viol.append(("query:" + q, "no exception", "%s: %s" % (type(e).__name__, str(e)[:120]), "exception:" + type(e).__name__))
                break
            if res is not None:
                res.transitions += 1
                res.evaluations += 1
            now = snapshot(w)
            bad = compare_state(ref, now, sig)
            for o, e, a, m in bad:
                viol.append(("%s after %s" % (o, q), e, a, m))
            if q in answers and not same_answer(answers[q], ans):
                viol.append(("repeat:" + q, _l(answers[q]), _l(ans), "different-answer"))
            answers.setdefault(q, ans)
            if bad:
                break
        return viol
    finally:
        shutil.rmtree(tmpdir, ignore_errors=True)


def _l(a):
    return a.tolist() if isinstance(a, np.ndarray) else a


def queries_for(prob, backend, tier):
    w = problems.make(prob, fit=False)
    free = [p for p in w.par_names if p not in w.fixed]
    qs = list(QUERIES)
    if len(free) < 2:
        qs = [q for q in qs if q not in ("contour", "profile1")]
    if w.ftype != "xy":
        qs.remove("band")
    if backend == "scipy" and tier == "quick":
        qs = [q for q in qs if q != "contour"]
    return qs


def jobs(tier, seed):
    v = seed % 3
    specs = []
    probs = PROBS_QUICK if tier == "quick" else PROBS_ALL
    for vv in ([v] if tier == "quick" else [0, 1, 2]):
        for prob in probs:
            for backend in ("iminuit", "scipy"):
                deas = ["nonlinear"] + (["iterative"] if prob in ("exp-xy", "exp-relm", "exp-xy-relm") else [])
                for dea in deas:
                    L = (2 if backend == "iminuit" else 1) if tier == "quick" else (3 if (backend == "iminuit" and vv == v) else 2)
                    if tier != "quick" and backend == "scipy" and vv != v:
                        L = 1
                    qs = queries_for(prob, backend, tier)
                    for first in qs:
                        specs.append((prob, backend, dea, vv, L, first, tier))
    return specs


def bound(tier, seed):
    if tier == "quick":
        return "6 fitted problems (linear, x+y, fixed, limited, model-relative, indexed) x {nonlinear, iterative where dynamic}; iminuit: all query sequences with repetition of length <= 2 over 12 queries; scipy: length 1 without contours; valuation %d" % (seed % 3)
    return "14 fitted problems; iminuit: all query sequences of length <= 3 (one valuation) and <= 2 (the two others) over 15 queries; scipy: length <= 2 incl. contours (one valuation), length 1 (the others)"


def run_job(spec):
    prob, backend, dea, v, L, first, tier = spec
    res = JobResult()
    qs = queries_for(prob, backend, tier)
    seqs = []
    for n in range(1, L + 1):
        for tail in itertools.product(qs, repeat=n - 1):
            seqs.append((first,) + tail)
    for seq in seqs:
        viol = run_sequence(prob, backend, dea, v, seq, res)
        res.executions += 1
        key = (prob, backend, dea, v, seq)
        res.state(key)
        if any(q in REMINIMISING for q in seq):
            res.nontriv(key)
        res.observe((key, len(viol)))
        res.outcomes[(prob, backend, dea, "ok" if not viol else "MOVED")] += 1
        for q in seq:
            res.facts["query:" + q] += 1
        for o, e, a, m in viol:
            hist = [dict(prob=prob, backend=backend, dea=dea, v=v)] + list(seq)
            res.violation("%s/%s/%s|%s" % (prob, backend, dea, ";".join(seq)), hist, o, e, a, m)
    res.sample(dict(problem=prob, backend=backend, algorithm=dea, first_query=first, sequences=len(seqs), example=list(seqs[-1])))
    return res.as_dict()


def replay(history):
    h = history[0]
    viol = run_sequence(h["prob"], h["backend"], h["dea"], h["v"], list(history[1:]))
    return [dict(observable=o, expected=e, actual=a, mode=m) for o, e, a, m in viol]


def triage_key(v):
    return (v["sig"].split("|")[0], v["observable"], v["mode"])


def vacuity_guards(tot, tier):
    for q in QUERIES:
        yield "query %s exercised" % q, tot.facts.get("query:" + q, 0) > 0
