"""C06 - the reported optimum is a true local minimum within bounds; fixed values untouched.

Mode D: complete product of nonlinear problems x uncertainty configurations x algorithm x fixed / limited subsets x
backends; oracle = neighbourhood enumeration on the REFERENCE cost (parameter-dependent covariance, kmc.ref).
"""
import collections
import warnings

import numpy as np

from kmc import problems
from kmc.core import JobResult
from kmc.fitworld import FitWorld

PROPERTY = "C06"
RULE = (
    "configurations = (problem family, uncertainty configuration, dynamic-error algorithm, fixed/limited variant, backend); after "
    "do_fit the reference cost is enumerated on the star and pairwise-diagonal neighbourhood p +- delta sigma_i, delta in "
    "{0.01,0.1,0.5,1} clipped to the limits; none may be lower than the reported minimum by more than 1e-4; fixed parameters "
    "bit-identical, limited ones inside the closed interval, backends within 0.05 sigma; iterative: frozen-covariance objective and "
    "refit fixed point; non-trivial = parameter-dependent covariance or a fixed/limited parameter"
)
ASSUMPTIONS = [
    "the neighbourhood is evaluated on the reference cost, not on kafe2's own cost (agreement of the two is C01)",
    "iterative algorithm: judged by the clause the statement gives it (covariance frozen at the reported optimum; refit does not move)",
    "scipy with a limited parameter under-converges (known finding D30)",
]
FAMILIES = list(problems.FAMILY_TRUTH)
QUICK_FAMILIES = ["expo", "powerlaw", "sinus"]
UNCS = list(problems.UNC_CONFIGS)
DELTAS = (0.01, 0.1, 0.5, 1.0)


def variants(model):
    truth = problems.FAMILY_TRUTH[model]
    w = problems.make_family(model, "y", fit=False)
    free = [p for p in w.par_names if p not in w.fixed]
    tr = dict(zip(w.par_names, truth))
    out = [("free", [])]
    for p in free:
        out.append(("fix:" + p, [("fix", p, round(tr[p] * 1.04, 6))]))
    if len(free) >= 3:
        out.append(("fix2:%s+%s" % (free[0], free[-1]), [("fix", free[0], round(tr[free[0]] * 0.97, 6)), ("fix", free[-1], round(tr[free[-1]] * 1.03, 6))]))
    for p in (free[-1], free[0]):
        lo, hi = sorted((0.5 * tr[p], 2.0 * tr[p]))
        out.append(("lim-in:" + p, [("lim", p, round(lo, 6), round(hi, 6))]))
    p = free[-1]
    lo, hi = sorted((0.3 * tr[p], 0.93 * tr[p]))
    out.append(("lim-bound:" + p, [("lim", p, round(lo, 6), round(hi, 6))]))
    if "c" in free and abs(tr["c"]) <= 1.0:
        # fixing to exactly zero - only where zero is a plausible value of the offset: a sinusoid around 3 with its offset held at 0
        # has several local minima and the backends legitimately end in different ones (not a well-posed problem)
        out.append(("fix0:c", [("fix", "c", 0.0)]))
    if len(free) == 2:
        # two-parameter families: with the exponent / rate held at exactly zero the model is a constant times the remaining parameter
        # (a one-dimensional linear problem, certainly well-posed)
        out.append(("fix0:" + free[-1], [("fix", free[-1], 0.0)]))
    # values assigned with set_all_parameter_values, then one parameter fixed WITHOUT a value: it stays where it was put
    moved = [round(tr[q] * (1.05 if i % 2 == 0 else 0.96), 6) for i, q in enumerate(w.par_names)]
    out.append(("setall+fix:" + free[-1], [("setall", moved), ("fix", free[-1])]))
    # a parameter fixed first and moved afterwards (both setters): it stays fixed, at the value it was moved to
    out.append(("fix+setall:" + free[-1], [("fix", free[-1]), ("setall", moved)]))
    out.append(("fix+set:" + free[0], [("fix", free[0], round(tr[free[0]] * 0.9, 6)), ("set", {free[0]: round(tr[free[0]] * 1.03, 6)})]))
    # two limited parameters, one limit removed again: the other limit (with the optimum on its bound) must stay in force
    p_b, p_o = free[-1], free[0]
    lo_b, hi_b = sorted((0.3 * tr[p_b], 0.93 * tr[p_b]))
    lo_o, hi_o = sorted((0.5 * tr[p_o], 2.0 * tr[p_o]))
    out.append(("lim2-unlim:%s+%s" % (p_b, p_o), [("lim", p_b, round(lo_b, 6), round(hi_b, 6)), ("lim", p_o, round(lo_o, 6), round(hi_o, 6)), ("unlim", p_o)]))
    # the optimum on the bound of the FIRST parameter while a LATER parameter is fixed (backends that re-pack their argument lists)
    lo, hi = sorted((0.3 * tr[free[0]], 0.93 * tr[free[0]]))
    out.append(("lim-bound+fix:%s+%s" % (free[0], free[-1]), [("lim", free[0], round(lo, 6), round(hi, 6)), ("fix", free[-1], round(tr[free[-1]] * 1.02, 6))]))
    lo, hi = sorted((0.5 * tr[free[0]], 2.0 * tr[free[0]]))
    out.append(("lim-in+fix:%s+%s" % (free[0], free[-1]), [("lim", free[0], round(lo, 6), round(hi, 6)), ("fix", free[-1], round(tr[free[-1]] * 1.02, 6))]))
    return out


def dynamic(unc):
    return unc in ("xy", "relm", "xy-relm", "x-model")


def jobs(tier, seed):
    v = seed % 3
    specs = []
    fams = QUICK_FAMILIES if tier == "quick" else FAMILIES
    for vv in ([v] if tier == "quick" else [0, 1, 2]):
        for model in fams:
            for unc in UNCS:
                for dea in ["nonlinear"] + (["iterative"] if dynamic(unc) else []):
                    for vname, vops in variants(model):
                        if tier == "quick" and unc in ("cov", "x-model") and vname != "free":
                            continue
                        specs.append(("xy", model + "/" + unc, dea, vname, vv, tier))
        for name in ("hist-nll", "hist-nllg", "hist-ga", "unbinned-nll"):
            for vname in ("free", "fix0", "lim-in"):
                specs.append(("nll", name, "nonlinear", vname, vv, tier))
        # histogram fits whose uncertainties depend on the parameters (counts model, source relative to the model): both algorithms
        for name in ("hist-ga-relm", "hist-chi2-relm"):
            for dea in ("nonlinear", "iterative"):
                for vname in ("free", "fix0"):
                    specs.append(("nll", name, dea, vname, vv, tier))
    return specs


def bound(tier, seed):
    return "%d nonlinear families x 5 uncertainty configurations (y, x+y, model-relative, x+y+model-relative, matrix+correlated) x {nonlinear, iterative where the covariance depends on the parameters} x {free, each parameter fixed, two fixed, limited inside (two positions), limited on the bound, limited+fixed, set_all then fix, fix then set_all / set, two limits one removed} x {iminuit, scipy}; Poisson / Gaussian-NLL / Gauss-approximation histogram fits and unbinned fits x {free, fixed, limited}; valuation(s) %s" % (
        len(QUICK_FAMILIES if tier == "quick" else FAMILIES),
        (seed % 3) if tier == "quick" else "0,1,2",
    )


def make_nll(name, v, backend, vname, dea="nonlinear"):
    if name in ("hist-ga-relm", "hist-chi2-relm"):
        w = FitWorld("hist", "gauss_approximation" if name == "hist-ga-relm" else "chi2", model="normal_counts", v=v, minimizer=backend, poisson_data=False, dea=dea)
        if name == "hist-chi2-relm":
            w.apply(("add", "y-abs", "e0"))
        w.apply(("add", "y-rel-model", "e1"))
    elif name == "unbinned-nll":
        w = FitWorld("unbinned", "nll", model="normal", v=v, minimizer=backend)
    else:
        cost = {"hist-nll": "nll", "hist-nllg": "nll-gaussian", "hist-ga": "gauss_approximation"}[name]
        w = FitWorld("hist", cost, model="normal", v=v, minimizer=backend, poisson_data=False)
        if name == "hist-nllg":
            w.apply(("add", "y-abs-s", "e0"))
            w.apply(("add", "y-rel", "e1"))
        if name == "hist-ga":
            w.apply(("add", "y-abs", "e0"))
    ops = []
    if vname == "fix0":
        ops = [("fix", "mu", 3.05)]
    elif vname == "lim-in":
        ops = [("lim", "sigma", 0.8, 3.0)]
    with warnings.catch_warnings():
        warnings.simplefilter("ignore")
        for op in ops:
            w.apply(op)
        w.apply(("fit",))
    return w


def neighbourhood(w, sig):
    """star + pairwise diagonal points around the reported optimum, clipped to the limits"""
    free = [p for p in w.par_names if p not in w.fixed]
    pts = []
    base = collections.OrderedDict(w.pv)

    def clip(p, x):
        if p in w.limits:
            lo, hi = w.limits[p]
            if lo is not None:
                x = max(x, lo)
            if hi is not None:
                x = min(x, hi)
        return x

    for d in DELTAS:
        for p in free:
            for s in (-1, 1):
                q = collections.OrderedDict(base)
                q[p] = clip(p, base[p] + s * d * sig[p])
                pts.append(q)
        for i, p in enumerate(free):
            for p2 in free[i + 1 :]:
                for s in (-1, 1):
                    for s2 in (-1, 1):
                        q = collections.OrderedDict(base)
                        q[p] = clip(p, base[p] + s * d * sig[p])
                        q[p2] = clip(p2, base[p2] + s2 * d * sig[p2])
                        pts.append(q)
    return pts


def check_world(w, dea, backend):
    out = []
    f = w.fit
    vals = np.asarray(f.parameter_values, dtype=float)
    errs = np.asarray(f.parameter_errors, dtype=float)
    sig = dict(zip(w.par_names, errs))
    for i, p in enumerate(w.par_names):
        if p in w.fixed and vals[i] != w.fixed[p]:
            out.append(("fixed:" + p, w.fixed[p], float(vals[i]), "fixed-moved"))
        if p in w.limits:
            lo, hi = w.limits[p]
            if (lo is not None and vals[i] < lo) or (hi is not None and vals[i] > hi):
                out.append(("limits:" + p, [lo, hi], float(vals[i]), "outside-limits"))
            # a parameter resting on its limit has no meaningful sigma: use the distance scale of the interval
            if errs[i] <= 0 or not np.isfinite(errs[i]) or min(abs(vals[i] - lo), abs(hi - vals[i])) < 1e-3 * (hi - lo):
                sig[p] = 0.05 * (hi - lo)
    frozen = dict(w.pv) if dea == "iterative" else None
    c0 = w.ref_cost(cov_pv=frozen)
    rep = float(f.cost_function_value)
    if abs(rep - w.ref_cost()) > 1e-6 * max(1.0, abs(rep)):
        out.append(("cost_function_value", w.ref_cost(), rep, "wrong-value"))
    worst, worst_pt = 0.0, None
    for q in neighbourhood(w, sig):
        c = w.ref_cost(pv=q, cov_pv=frozen)
        if c0 - c > worst:
            worst, worst_pt = c0 - c, q
    if worst > 1e-4:
        out.append(("neighbour-lower", c0, dict(cost=c0 - worst, point=dict(worst_pt)), "not-a-minimum"))
    return out, worst


def run_config(spec):
    kind, name, dea, vname, v, tier = spec
    viol = []
    worlds = {}
    worst = {}
    for backend in ("iminuit", "scipy"):
        try:
            if kind == "xy":
                model, unc = name.split("/")
                vops = dict(variants(model))[vname]
                w = problems.make_family(model, unc, v=v, minimizer=backend, dea=dea, extra_ops=vops)
            else:
                w = make_nll(name, v, backend, vname, dea)
        except Exception as e:  # noqa: BLE001
            viol.append((backend, "do_fit", "no exception", "%s: %s" % (type(e).__name__, str(e)[:120]), "exception:" + type(e).__name__))
            continue
        worlds[backend] = w
        bad, worst[backend] = check_world(w, dea, backend)
        viol += [(backend,) + b for b in bad]
        if dea == "iterative" and not bad:
            # fixed point: refitting from the reported optimum does not move it
            before = np.asarray(w.fit.parameter_values, dtype=float)
            errs = np.asarray(w.fit.parameter_errors, dtype=float)
            with warnings.catch_warnings():
                warnings.simplefilter("ignore")
                w.fit.do_fit()
            after = np.asarray(w.fit.parameter_values, dtype=float)
            if np.any(np.abs(after - before) > 0.03 * np.where(errs > 0, errs, np.inf)):
                viol.append((backend, "refit-moves", before.tolist(), after.tolist(), "not-a-fixed-point"))
    if len(worlds) == 2:
        a, b = worlds["iminuit"], worlds["scipy"]
        va, vb = np.asarray(a.fit.parameter_values), np.asarray(b.fit.parameter_values)
        ea = np.asarray(a.fit.parameter_errors)
        on_limit = any(p in a.limits for p in a.par_names)
        tol = np.where(ea > 0, 0.05 * ea, 0.0)
        if np.any(np.abs(va - vb) > tol + 1e-12) and not (on_limit and "bound" in vname and np.all(np.abs(va - vb) <= 1e-3 * np.abs(va) + 1e-9)):
            viol.append(("both", "backends-agree", va.tolist(), vb.tolist(), "backends-disagree"))
    return viol, worlds, worst


def run_job(spec):
    kind, name, dea, vname, v, tier = spec
    res = JobResult()
    viol, worlds, worst = run_config(spec)
    res.executions += 2
    res.transitions += 2 * 6
    res.evaluations += 2 * 60
    res.state(spec[:5])
    if (kind == "xy" and dynamic(name.split("/")[1])) or vname != "free":
        res.nontriv(spec[:5])
    res.observe((spec[:5], [[round(float(x), 5) for x in w.fit.parameter_values] for w in worlds.values()]))
    res.outcomes[(kind, dea, vname.split(":")[0], "ok" if not viol else "VIOLATION")] += 1
    res.facts["family:" + name] += 1
    res.facts["variant:" + vname.split(":")[0]] += 1
    for backend, o, e, a, m in viol:
        hist = [dict(kind=kind, name=name, dea=dea, variant=vname, v=v)]
        res.violation("%s/%s/%s/%s" % (name, dea, vname, backend), hist, o, e, a, m)
    res.sample(dict(problem=name, algorithm=dea, variant=vname, valuation=v, worst_neighbour_gain={k: float(x) for k, x in worst.items()}))
    return res.as_dict()


def replay(history):
    h = history[0]
    viol, worlds, worst = run_config((h["kind"], h["name"], h["dea"], h["variant"], h["v"], "quick"))
    return [dict(observable=b + ":" + o, expected=e, actual=a, mode=m) for b, o, e, a, m in viol]


def triage_key(v):
    f = v["sig"].split("/")
    return (f[0], f[1], f[2].split(":")[0], f[3], v["observable"].split(":")[0], v["mode"])


def vacuity_guards(tot, tier):
    yield "fixed, limited-inside and limited-on-bound variants explored", all(tot.facts.get("variant:" + k, 0) > 0 for k in ("fix", "lim-in", "lim-bound"))
    yield "histogram / unbinned likelihood fits explored", tot.facts.get("family:hist-nll", 0) > 0 and tot.facts.get("family:unbinned-nll", 0) > 0
