"""Nexus registry API world for C04 (and the cycle clause shared with C19).

Universe: parameters a, b, c; functions f(a, b), g(f, c=3), h(g, a); aliases x -> a|f, y -> x.
Reference: definitions *by name* (the registry's contract: replacing a node re-wires its parents).
"""
import collections

from kmc.core import h64
from kmc.fingerprint import fingerprint


class RefExc(Exception):
    pass


def _mk(name, argnames, defaults, calls):
    src = "def __call__(self, %s):\n    self.calls[self.__name__] += 1\n    return (self.__name__, self.ver, %s)\n" % (
        ", ".join(a if a not in defaults else "%s=%r" % (a, defaults[a]) for a in argnames),
        ", ".join(argnames) + ("," if len(argnames) == 1 else ""),
    )
    ns = {}
    exec(src, ns)
    cls = type("Fn_" + name, (object,), {"__call__": ns["__call__"], "__kmc_fp__": lambda self: (self.__name__, self.ver)})
    o = cls()
    o.__name__ = name
    o.calls = calls
    o.ver = 0
    return o


FUNCS = collections.OrderedDict([("f", (("a", "b"), {})), ("g", (("f", "c"), {"c": 3})), ("h", (("g", "a"), {}))])


# operations that build a populated registry: a, b, c, f(a, b), g(f, c), x -> f (start state of the 'registry-full' exploration)
FULL = (
    ("addp", "a", 0, "fail"),
    ("addp", "b", 0, "fail"),
    ("addf", "f", "fail"),
    ("addf", "g", "fail"),
    ("alias", "x", "f", "fail"),
)


class RegistryWorld(object):
    def __init__(self, prefix=()):
        from kafe2.core.fitters import nexus as nx

        self.nx = nx
        self.nexus = nx.Nexus()
        self.calls = collections.Counter()
        self.defs = collections.OrderedDict()  # name -> ('P', v) | ('E',) | ('F', ver, params, deps) | ('A', target)
        self.nadd = 0
        self.nrepl = 0
        for op in prefix:
            self.apply(op, None)

    # -- reference
    def ev(self, n, depth=0):
        d = self.defs[n]
        if d[0] == "P":
            return d[1]
        if d[0] == "E":
            raise RefExc("TypeError")
        if d[0] == "A":
            return self.ev(d[1])
        return (n, d[1]) + tuple(self.ev(p) for p in d[2])

    def kids(self, n):
        d = self.defs[n]
        if d[0] == "F":
            return list(d[2]) + list(d[3])
        if d[0] == "A":
            return [d[1]]
        return []

    def reach(self, n):
        out, st = set(), [n]
        while st:
            m = st.pop()
            for c in self.kids(m):
                if c not in out:
                    out.add(c)
                    st.append(c)
        return out

    def enabled(self):
        ops = []
        D = self.defs
        for p in ("a", "b"):
            if p not in D:
                ops.append(("addp", p, 0, "fail"))
            elif D[p][0] == "E":
                ops.append(("addp", p, 0, "replace_if_empty"))
                ops.append(("addp", p, 0, "replace"))
            elif D[p][0] == "P":
                for v in (0, 1):
                    ops.append(("set", p, v))
                ops.append(("addp", p, 5, "ignore"))
                if self.nadd < 1:
                    ops.append(("addp", p, 2, "replace"))
        if "c" in D and D["c"][0] == "P":
            ops.append(("set", "c", 4))
        for fn in FUNCS:
            if fn not in D:
                ops.append(("addf", fn, "fail"))
            elif D[fn][0] == "E":
                # replacing the placeholder by the function must not close a cycle through explicit dependencies
                if not any(a in D and (a == fn or fn in self.reach(a)) for a in FUNCS[fn][0]):
                    ops.append(("addf", fn, "replace_if_empty"))
            elif D[fn][0] == "F" and self.nrepl < 1:
                # a function registered again under the same name (new version): the new node has the arguments of the
                # new definition and none of the explicit dependencies of the old one; nodes that use or explicitly
                # depend on the name now see the new node
                if not any(a == fn or fn in self.reach(a) for a in FUNCS[fn][0] if a in D):
                    ops.append(("addf", fn, "replace"))
        for al, targets in (("x", ("a", "f")), ("y", ("x",))):
            if al not in D:
                for t in targets:
                    if t in D:
                        ops.append(("alias", al, t, "fail"))
            elif D[al][0] == "A":
                for t in targets:
                    if t in D and t != D[al][1] and al not in ({t} | self.reach(t)):
                        ops.append(("alias", al, t, "replace_if_alias"))
        # explicit dependencies: every ordered pair of existing nodes, cyclic ones included
        names = [n for n in D]
        for n in names:
            if D[n][0] not in ("F",):
                continue
            for m in names:
                if len(D[n][3]) < 1 or (m == n or n in self.reach(m)):
                    if m not in D[n][3]:
                        ops.append(("dep", n, m))
        # several dependencies at once where a LATER entry closes a cycle: the whole call must be rejected, nothing applied
        for n in names:
            if D[n][0] != "F" or D[n][3]:
                continue
            legal = [m for m in names if m != n and n not in self.reach(m) and m not in self.kids(n)]
            cyc = [m for m in names if m == n or n in self.reach(m)]
            if legal and cyc:
                ops.append(("depm", n, (legal[0], cyc[-1])))
        ops.append(("read_all",))
        for n in names:
            if D[n][0] in ("F", "A"):
                ops.append(("read", n))
        return ops

    def apply(self, op, res):
        nx, N, D = self.nx, self.nexus, self.defs
        viol = []
        k = op[0]
        if k == "addp":
            _, p, v, beh = op
            N.add(nx.Parameter(v, name=p), existing_behavior=beh)
            if beh != "ignore":
                D[p] = ("P", v)
                if beh == "replace":
                    self.nadd += 1
        elif k == "set":
            _, p, v = op
            N.get(p).value = v
            D[p] = ("P", v)
        elif k == "addf":
            _, fn, beh = op
            args, defaults = FUNCS[fn]
            func, ver = _mk(fn, args, defaults, self.calls), 0
            if beh == "replace":
                self.nrepl += 1
                func.ver = ver = 1
                if res is not None:
                    res.facts["registry:function-replaced"] += 1
                    if D[fn][3] or any(fn in d[3] for d in D.values() if d[0] == "F"):
                        res.facts["registry:function-replaced:dep-only-edges"] += 1
            N.add_function(func, existing_behavior=beh)
            for a in args:
                if a not in D:
                    D[a] = ("P", defaults[a]) if a in defaults else ("E",)
                elif D[a][0] == "E" and a in defaults:
                    D[a] = ("P", defaults[a])
            D[fn] = ("F", ver, list(args), [])
        elif k == "alias":
            _, al, t, beh = op
            N.add_alias(al, alias_for=t, existing_behavior=beh)
            D[al] = ("A", t)
        elif k == "dep":
            _, n, m = op
            cyclic = m == n or n in self.reach(m)
            _before = self._graph_fp() if cyclic else None
            try:
                N.add_dependency(n, depends_on=m)
                raised = None
            except ValueError:
                raised = "ValueError"
            except RecursionError:
                raised = "RecursionError"
            if res is not None:
                res.evaluations += 1
                res.observe((op, raised))
                res.outcomes[("dep", "cyclic" if cyclic else "acyclic", str(raised))] += 1
                res.facts["dep:cyclic" if cyclic else "dep:acyclic"] += 1
                if cyclic and raised != "ValueError":
                    viol.append(("reject:%s->%s" % (n, m), "ValueError", raised, "not-rejected"))
                elif cyclic and self._graph_fp() != _before:
                    viol.append(("graph-after-rejected:%s->%s" % (n, m), "unchanged", "changed", "state-changed"))
                if not cyclic and raised is not None:
                    viol.append(("accept:%s->%s" % (n, m), None, raised, "exception:" + raised))
            if not cyclic:
                d = D[n]
                D[n] = ("F", d[1], d[2], d[3] + [m])
        elif k == "depm":
            _, n, ms = op
            _before = self._graph_fp()
            try:
                N.add_dependency(n, depends_on=list(ms))
                raised = None
            except ValueError:
                raised = "ValueError"
            except RecursionError:
                raised = "RecursionError"
            if res is not None:
                res.evaluations += 1
                res.observe((op, raised))
                res.outcomes[("depm", "cyclic-later-entry", str(raised))] += 1
                res.facts["dep:cyclic"] += 1
                if raised != "ValueError":
                    viol.append(("reject:%s->%s" % (n, ",".join(ms)), "ValueError", raised, "not-rejected"))
                elif self._graph_fp() != _before:
                    viol.append(("graph-after-rejected:%s->%s" % (n, ",".join(ms)), "unchanged", "changed", "state-changed"))
            # reference: nothing applied
        elif k in ("read_all", "read"):
            names = [n for n in D] if k == "read_all" else [op[1]]
            exp = {}
            for n in names:
                try:
                    exp[n] = _canon(self.ev(n))
                except RefExc:
                    pass  # erroring nodes are left out (error_behavior="ignore")
            before = collections.Counter(self.calls)
            try:
                if k == "read_all":
                    act = N.get_value_dict(error_behavior="ignore")
                else:
                    try:
                        act = {op[1]: N.get(op[1]).value}
                    except TypeError:
                        act = {}
                act = {n: _canon(v) for n, v in act.items()}
                err = None
            except RecursionError:
                act, err = {}, "RecursionError"
            except Exception as e:  # noqa: BLE001
                act, err = {}, type(e).__name__
            if res is not None:
                res.evaluations += 1
                res.observe((op, sorted(act.items(), key=repr), err))
                res.outcomes[(k, "error" if err else "ok", len(names))] += 1
                res.facts["registry-read"] += 1
                if err:
                    viol.append(("read", exp, err, "exception:" + err))
                elif act != exp:
                    bad = sorted(n for n in set(exp) | set(act) if exp.get(n, "<missing>") != act.get(n, "<missing>"))
                    viol.append(("value:" + ",".join(bad), {n: exp.get(n) for n in bad}, {n: act.get(n, "<missing>") for n in bad}, "wrong-value"))
                for fn in FUNCS:
                    if self.calls[fn] - before[fn] > 1:
                        viol.append(("calls:" + fn, "<=1", self.calls[fn] - before[fn], "evaluated-twice"))
        else:
            raise ValueError(op)
        return viol

    def _graph_fp(self):
        roots = {n: self.nexus.get(n) for n in self.defs}
        roots["__root__"] = self.nexus.get("__root__")
        return fingerprint(roots)

    def key(self):
        roots = {n: self.nexus.get(n) for n in self.defs}
        roots["__root__"] = self.nexus.get("__root__")
        return h64((fingerprint(roots), repr(sorted(self.defs.items())), self.nadd, self.nrepl))

    def nontrivial(self):
        return any(d[0] == "F" for d in self.defs.values()) and any(
            d[0] in ("F", "A") and not self.nexus.get(n).stale for n, d in self.defs.items()
        )


def _canon(v):
    if isinstance(v, (list, tuple)):
        return tuple(_canon(x) for x in v)
    return v
