"""C17 - every number shown to the user is a faithful rounding of the fit state.

Mode D (complete products), two families of jobs:

fmt   ParameterFormatter.get_formatted over the complete product  uncertainty (mantissa set x 10^-6..10^6) x value (0 and
      +- the same set) x n_significant_digits {1,2,3} x {plain, LaTeX}, asymmetric pairs of equal and different magnitude, and
      the fixed flag.  Produced strings are parsed with decimal.Decimal (kmc/c17_parse.py) and judged exactly.
show  a handful of fitted problems (XYFit linear / exponential / very large and very small scales, IndexedFit, HistFit; with and
      without a fixed parameter; both backends) x display moments (before the fit, after it, after a second fit with a further
      uncertainty source, after parameters were displaced by hand, with asymmetric uncertainties) x both display orders:
      fit.report(stream), the preface comment written by fit.to_file() and fit.get_result_dict() are parsed back and every
      number is compared with what the public properties of the fit return at that moment.
      Further display dimensions: (a) the dictionary RETURNED by do_fit() / do_fit(asymmetric_parameter_errors=True) is a display
      of its own, judged at every fit of every sequence, incl. the sequences  results loaded (from_file / load_state, with and
      without stored asymmetric uncertainties) -> problem changed -> fitted again;  (b) who asks for the asymmetric uncertainties
      first: an earlier property access (showA), do_fit (fitA) or the display itself (showA1: each of report / preface / dict
      as the first requester, the others as repeated requests);  (c) the displayed object: multi-fits (shared parameters,
      mixed member types, shared uncertainty source, single member) are displayed themselves (report, result dictionary, return
      value of do_fit) and so is each of their members (report, preface, result dictionary) after operations on the multi-fit;
      (d) the naming of the parameters: display names assigned (assign_parameter_names) before anything else (before a parameter is
      fixed) / right before the first display, LaTeX names only (assign_parameter_latex_names), display names that are the argument
      names rotated by one - x every problem x {free, last parameter fixed} x the kinds of moments (unfitted, fitted, displaced,
      read back from a file / a saved state, asymmetric): the report must list every parameter under its display name with the
      numbers and the '(fixed)' mark of the parameter at that position, preface and result dictionary keep the argument names.
"""
import contextlib
import io
import os
import shutil
import tempfile
import warnings
from decimal import Decimal

import numpy as np

from kmc import c17_parse as P
from kmc.core import JobResult

PROPERTY = "C17"
RULE = (
    "fmt cases = (uncertainty or asymmetric pair, value, n_significant_digits, plain/LaTeX, fixed flag), complete product of the "
    "alphabets; show cases = (problem incl. multi-fits, backend, fixed subset, naming of the parameters (argument names / assigned display names / LaTeX names / permuted names), moment sequence incl. who requests the asymmetric uncertainties first and reload -> change -> refit, display order) x displayed object (fit / multi-fit / each member) x display (report, preface, result dictionary, return value of do_fit); non-trivial = the string contains "
    "an uncertainty that had to be rounded (fmt) / the fit was performed and at least one parameter line with an uncertainty, "
    "one off-diagonal correlation and the cost were compared (show)"
)
ASSUMPTIONS = [
    "the unit of 'the uncertainty's last displayed digit' is the n-th significant digit of the correctly rounded uncertainty (coarser only if the display itself shows the uncertainty coarser without exponent notation)",
    "for asymmetric uncertainties the smaller one must be the n-digit rounding; the larger one must lie within half a unit of that digit and be shown down to it (it then carries more than n digits, which the statement does not forbid)",
    "in LaTeX power-of-ten notation kafe2 strips trailing zeros of the mantissa by design; the clause 'shown at least down to that digit' is judged on plain output and on LaTeX fixed-point output only",
    "ParameterFormatter objects always carry a symmetric uncertainty (as every formatter owned by a fit does); asymmetric_error without error is not generated",
    "report / preface numbers are held to 'within half a unit of their own last displayed digit' (%g strips trailing zeros, which makes this lenient, never stricter than the statement); parameter lines of the report are additionally held to the value +/- uncertainty rule with 2 significant digits; result dictionary entries must equal the properties (relative 1e-12)",
    "a parameter whose fitted value is exactly 0 is not generated (the compact preface takes log10 of it)",
    "a display that lists asymmetric uncertainties although the harness did not ask for them is held to fit.asymmetric_parameter_errors read right afterwards (the public accessor of what the fit holds)",
    "the profile scan behind the asymmetric uncertainties may move the minimizer state slightly (observed up to 2e-3 relative on uncertainties); when the judged call itself runs that scan for the first time (display as first requester, do_fit(asymmetric_parameter_errors=True)) every symmetric number must be faithful to the state held just before the scan or to the state held after it (before: read from the same object, for do_fit from an identically built twin fitted without the scan), the asymmetric ones to the state after it; the state-unchanged check of that one call is reduced to names / did_fit / ndf",
    "a parameter that was given a display name is listed in the textual report under that name (the documented purpose of assign_parameter_names); the compact preface of saved files and the result dictionary list the argument names (as fit.parameter_names does); which parameter is fixed and which numbers it holds is a matter of its position / argument name, never of its display name",
    "MultiFit has no file representation (to_file raises TypeError by design): multi-fits are displayed through report, get_result_dict and the return value of do_fit, their members through all three displays; members are asked for asymmetric uncertainties only after the multi-fit holds them (a member asked first would scan its own cost function alone, a different quantity)",
]

MANT = ["1", "1.04", "1.05", "1.49", "1.5", "2.5", "4.99", "5", "9.49", "9.5", "9.94", "9.95", "9.96", "9.99", "9.995", "9.996", "9.9996"]
EXTRA_MANT = {0: ["3.14159", "7.77"], 1: ["1.995", "6.25"], 2: ["2.05", "8.349"]}  # valuation dependent additions
EXPS = list(range(-6, 7))
EXP_ORDER = sorted(EXPS, key=lambda k: (abs(k), k))  # simplest inputs first: the first failing case is the one reported
NSIG = [2, 1, 3]
ASYM_M_QUICK = ["1.5", "9.96", "9.9996"]
ASYM_M_ALL = ["1", "1.5", "9.5", "9.96", "9.9996"]
VAL_M_ASYM_QUICK = ["2.5", "9.9996"]
VAL_M_ASYM_ALL = ["1.04", "2.5", "9.96", "9.9996"]


def fl(m, k):
    return float("%se%d" % (m, k))


def mantissas(v):
    if int(v) >= 3:  # thorough tier: the additions of all valuations
        return MANT + [m for k in sorted(EXTRA_MANT) for m in EXTRA_MANT[k]]
    return MANT + EXTRA_MANT[int(v)]


def values_for(v, exps=EXPS):
    out = [0.0]
    for k in sorted(exps, key=lambda k: (abs(k), k)):
        for m in mantissas(v):
            out.append(fl(m, k))
            out.append(-fl(m, k))
    return out


# ----------------------------------------------------------------------------------------------------------------------
# part A: ParameterFormatter.get_formatted


def fmt_case(value, n, latex, error=None, asym=None, fixed=False):
    """Execute one get_formatted call on a fresh real formatter -> string or ('EXC', text)."""
    from kafe2.fit._base.format import ParameterFormatter

    try:
        pf = ParameterFormatter("p", value=value, error=error, asymmetric_error=None if asym is None else np.array(asym, dtype=float))
        if fixed:
            pf.fixed = True
        with warnings.catch_warnings():
            warnings.simplefilter("ignore")
            return pf.get_formatted(n_significant_digits=n, asymmetric_error=asym is not None, format_as_latex=latex)
    except Exception as e:  # noqa: BLE001
        return ("EXC", type(e).__name__ + ": " + str(e)[:100])


def judge_fmt(text, value, n, latex, error=None, asym=None, fixed=False):
    if isinstance(text, tuple):
        return [("get_formatted", "no exception", text[1], "exception:" + text[1].split(":")[0])]
    return [(o, e, a, "wrong-value") for o, e, a in P.judge_pm(text, latex, value, n, error=error, asym=asym, fixed=fixed)]


class _First(object):
    def __init__(self, res):
        self.res, self.seen = res, set()

    def report(self, sig, hist, bad):
        for obs, exp, act, mode in bad:
            self.res.facts["failing-cases:" + sig.split("|")[0]] += 1
            if (sig, obs) in self.seen:
                continue
            self.seen.add((sig, obs))
            self.res.violation(sig, hist, obs, exp, act, mode)


BIG_EXPS = [9, -9, 10, -10, 11, -11, 20, -20, 100, -100]  # two- and three-digit decimal exponents (with and without zero digits)


def run_fmt_sym(res, k, n, v, near_only=False):
    first = _First(res)
    vals = values_for(v, exps=[k - 1, k, k + 1, k + 2, k + 3]) if near_only else values_for(v)
    for m in mantissas(v):
        e = fl(m, k)
        for latex in (False, True):
            for val in vals:
                text = fmt_case(val, n, latex, error=e)
                bad = judge_fmt(text, val, n, latex, error=e)
                res.executions += 1
                res.transitions += 2
                res.evaluations += 3
                key = ("sym", e, val, n, latex)
                res.state(key)
                res.observe((key, text))
                cls = _text_class(text)
                res.outcomes[("sym", "n=%d" % n, "latex" if latex else "plain", cls, "MISMATCH" if bad else "ok")] += 1
                if not isinstance(text, tuple) and Decimal(e) != P.round_sig(e, n)[0][0]:
                    res.nontriv(key)
                if bad:
                    first.report("fmt|sym|n=%d|%s" % (n, "latex" if latex else "plain"), dict(kind="fmt", value=val, error=e, asym=None, n=n, latex=latex, fixed=False), bad)
        if n == 2:
            # fixed flag (the uncertainty plays no role)
            for latex in (False, True):
                for val in vals:
                    text = fmt_case(val, n, latex, error=e, fixed=True)
                    bad = judge_fmt(text, val, n, latex, error=e, fixed=True)
                    res.executions += 1
                    res.transitions += 3
                    res.evaluations += 2
                    key = ("fixed", e, val, latex)
                    res.state(key)
                    res.observe((key, text))
                    res.outcomes[("fixed", "latex" if latex else "plain", "MISMATCH" if bad else "ok")] += 1
                    res.facts["fixed-cases"] += 1
                    if bad:
                        first.report("fmt|fixed|%s" % ("latex" if latex else "plain"), dict(kind="fmt", value=val, error=e, asym=None, n=n, latex=latex, fixed=True), bad)
    res.facts["carry-uncertainties"] += sum(1 for m in mantissas(v) if P.round_sig(fl(m, k), n)[0][0].adjusted() != Decimal(fl(m, k)).adjusted())
    res.sample(dict(kind="fmt-sym", uncertainty=fl("9.96", k), value=fl("9.9996", k), n=n, plain=fmt_case(fl("9.9996", k), n, False, error=fl("9.96", k)), latex=fmt_case(fl("9.9996", k), n, True, error=fl("9.96", k))))


def asym_pairs(m, k, tier):
    """(down, up) pairs built from the uncertainty m x 10^k and a partner of equal or larger magnitude, both orientations."""
    e = fl(m, k)
    out = [(e, e)]
    partners = ASYM_M_QUICK if tier == "quick" else ASYM_M_ALL
    for d in (0, 1) if tier == "quick" else (0, 1, 2):
        for m2 in partners:
            big = fl(m2, k + d)
            if big < e:
                continue
            if big == e and (e, e) in out[1:]:
                continue
            out.append((e, big))
            out.append((big, e))
    return out


def asym_values(k, tier):
    out = [0.0]
    for dv in (0, 1) if tier == "quick" else (-1, 0, 1, 3):
        for mv in VAL_M_ASYM_QUICK if tier == "quick" else VAL_M_ASYM_ALL:
            out.append(fl(mv, k + dv))
            out.append(-fl(mv, k + dv))
    return out


def run_fmt_asym(res, k, n, v, tier):
    first = _First(res)
    vals = asym_values(k, tier)
    for m in mantissas(v):
        for dn, up in asym_pairs(m, k, tier):
            for latex in (False, True):
                for val in vals:
                    asym = (-dn, up)
                    text = fmt_case(val, n, latex, error=0.5 * (dn + up), asym=asym)
                    bad = judge_fmt(text, val, n, latex, error=0.5 * (dn + up), asym=asym)
                    res.executions += 1
                    res.transitions += 2
                    res.evaluations += 4
                    key = ("asym", dn, up, val, n, latex)
                    res.state(key)
                    res.nontriv(key)
                    res.observe((key, text))
                    rel = "equal" if dn == up else ("same-decade" if Decimal(dn).adjusted() == Decimal(up).adjusted() else "different-decade")
                    res.facts["asym:" + rel] += 1
                    res.outcomes[("asym", "n=%d" % n, "latex" if latex else "plain", rel, "down>up" if dn > up else "down<=up", "MISMATCH" if bad else "ok")] += 1
                    if bad:
                        first.report("fmt|asym|n=%d|%s|%s" % (n, "latex" if latex else "plain", rel), dict(kind="fmt", value=val, error=0.5 * (dn + up), asym=list(asym), n=n, latex=latex, fixed=False), bad)
    res.sample(dict(kind="fmt-asym", down=fl("9.96", k), up=fl("1.5", k + 1), value=fl("2.5", k + 1), n=n, plain=fmt_case(fl("2.5", k + 1), n, False, error=1.0, asym=(-fl("9.96", k), fl("1.5", k + 1)))))


def _text_class(text):
    if isinstance(text, tuple):
        return "exception"
    c = []
    if "e+" in text or "e-" in text:
        c.append("exp")
    if "times10" in text:
        c.append("pow10")
    return "+".join(c) or "fixed-point"


# ----------------------------------------------------------------------------------------------------------------------
# part B: fitted problems

_X = np.array([0.5, 1.3, 2.1, 3.4, 4.2, 5.5, 6.1, 7.3, 8.4, 9.2])
_NOISE = np.array([0.62, -1.10, 0.35, 1.25, -0.48, -0.92, 1.05, -0.15, 0.71, -1.33])
_NOISE = _NOISE - _NOISE.mean()
_HIST_ENTRIES = [0.3, 0.8, 1.1, 1.4, 1.7, 1.9, 2.2, 2.4, 2.5, 2.7, 2.9, 3.0, 3.2, 3.3, 3.6, 3.8, 4.1, 4.4, 4.6, 4.9, 5.3, 5.8, 2.1, 2.8, 3.1, 1.5, 3.9, 0.6, 4.2, 2.6, 2.95, 3.05, 3.45, 2.35, 3.75]
_HIST_EXTRA = {0: [], 1: [2.0, 3.5, 4.0], 2: [1.2, 2.75, 3.25, 4.8]}


def lin(x, a=1.0, b=0.5):
    return a * x + b


def expo(x, A0=1.0, k=0.3):
    return A0 * np.exp(k * x)


def normal_density(x, mu=2.8, sigma=1.5):
    return np.exp(-0.5 * ((x - mu) / sigma) ** 2) / np.sqrt(2.0 * np.pi * sigma**2)


_IDX_DESIGN = np.stack([np.ones(10), np.linspace(-1.0, 1.5, 10) ** 2 + 0.3 * np.arange(10)], axis=1)


def idx_model(a=1.0, b=1.0):
    # self-contained (the source text is what a saved fit stores): same numbers as _IDX_DESIGN
    return np.ones(10) * a + (np.linspace(-1.0, 1.5, 10) ** 2 + 0.3 * np.arange(10)) * b


def expo_c(x, A0=1.0, k=0.3, c=0.5):
    return A0 * np.exp(k * x) + c


def lin_d(x, a=1.0, d=0.5):
    return a * x + d


PROBLEMS = ["xy-lin", "xy-expo", "xy-big", "xy-tiny", "indexed", "hist"]
# multi-fits as displayed objects: two strongly non-linear members sharing two of three parameters (asymmetric uncertainties differ
# visibly from the symmetric ones), members of different type with disjoint parameters (chi2 + negative log-likelihood), two members
# with a shared parameter and an uncertainty source shared between them, a multi-fit of a single member
MULTI_PROBLEMS = ["multi-expo", "multi-mixed", "multi-shared", "multi-one"]


def is_multi(problem):
    return problem in MULTI_PROBLEMS


def build_problem(problem, backend, v):
    """-> (fit, info) ; info: names, truth (for fixing / displacing), second-source adder"""
    import kafe2

    v = int(v) % 3
    kw = dict(minimizer=backend)
    x = _X + 0.1 * v
    with warnings.catch_warnings():
        warnings.simplefilter("ignore")
        if problem in ("xy-lin", "xy-big", "xy-tiny"):
            truth = [0.9 + 0.2 * v, 0.7 - 0.3 * v]
            ey = 0.30 + 0.05 * v
            y = lin(x, *truth) + ey * _NOISE
            sx, sy = {"xy-lin": (1.0, 1.0), "xy-big": (1e-3, 1e5), "xy-tiny": (1e2, 1e-5)}[problem]
            fit = kafe2.XYFit([x * sx, y * sy], lin, **kw)
            fit.add_error("y", ey * sy, name="ey")
            fit.add_error("y", 0.4 * ey * sy, correlation=0.5, name="eyc")
            truth = [truth[0] * sy / sx, truth[1] * sy]
            second = lambda f: f.add_error("y", 0.8 * ey * sy, name="e2")  # noqa: E731
        elif problem == "xy-expo":
            truth = [1.2 + 0.2 * v, 0.25 - 0.03 * v]
            ey = 0.2 + 0.02 * v
            y = expo(x, *truth) + ey * _NOISE
            fit = kafe2.XYFit([x, y], expo, **kw)
            fit.add_error("y", ey, name="ey")
            fit.add_error("x", 0.05, name="ex")
            second = lambda f: f.add_error("y", 0.05, relative=True, name="e2")  # noqa: E731
        elif problem == "indexed":
            truth = [1.4 + 0.3 * v, 0.8 - 0.1 * v]
            ey = 0.25 + 0.05 * v
            y = idx_model(*truth) + ey * _NOISE
            fit = kafe2.IndexedFit(y, idx_model, **kw)
            fit.add_error(ey, name="ey")
            fit.add_error(0.5 * ey, correlation=0.3, name="eyc")
            second = lambda f: f.add_error(0.7 * ey, name="e2")  # noqa: E731
        elif problem == "hist":
            truth = [2.9, 1.4]
            c = kafe2.HistContainer(n_bins=6, bin_range=(0.0, 6.0), fill_data=list(_HIST_ENTRIES) + _HIST_EXTRA[v])
            fit = kafe2.HistFit(c, normal_density, **kw)

            def second(f):
                f.data = kafe2.HistContainer(n_bins=6, bin_range=(0.0, 6.0), fill_data=list(_HIST_ENTRIES) + _HIST_EXTRA[v] + [2.45, 3.55, 3.15, 1.95])

        elif problem == "multi-expo":
            truth = [1.1 + 0.1 * v, 0.9 - 0.05 * v, 1.5]
            xs = _X[:7] * 0.4 + 0.05 * v
            f0 = kafe2.XYFit([xs, expo(xs, *truth[:2]) + 0.5 * _NOISE[:7]], expo, **kw)
            f0.add_error("y", 0.5, name="ey0")
            f1 = kafe2.XYFit([xs, expo_c(xs, *truth) + 0.7 * _NOISE[::-1][:7]], expo_c, **kw)
            f1.add_error("y", 0.7, name="ey1")
            fit = kafe2.MultiFit([f0, f1], **kw)
            second = lambda f: f.fits[0].add_error("y", 0.3, name="e2")  # noqa: E731  (an operation issued on a member)
        elif problem == "multi-mixed":
            ey = 0.30 + 0.05 * v
            f0 = kafe2.XYFit([x, lin(x, 0.9 + 0.2 * v, 0.7 - 0.3 * v) + ey * _NOISE], lin, **kw)
            f0.add_error("y", ey, name="ey0")
            f1 = kafe2.HistFit(kafe2.HistContainer(n_bins=6, bin_range=(0.0, 6.0), fill_data=list(_HIST_ENTRIES) + _HIST_EXTRA[v]), normal_density, **kw)
            fit = kafe2.MultiFit([f0, f1], **kw)
            truth = [0.9 + 0.2 * v, 0.7 - 0.3 * v, 2.9, 1.4]
            second = lambda f: f.add_error(0.8 * ey, fits=0, axis="y", name="e2")  # noqa: E731
        elif problem == "multi-shared":
            truth = [0.9 + 0.2 * v, 0.7 - 0.3 * v, -0.4 + 0.1 * v]
            ey = 0.30 + 0.05 * v
            f0 = kafe2.XYFit([x, lin(x, truth[0], truth[1]) + ey * _NOISE], lin, **kw)
            f0.add_error("y", ey, name="ey0")
            f1 = kafe2.XYFit([x + 0.25, lin_d(x + 0.25, truth[0], truth[2]) + 1.2 * ey * _NOISE[::-1]], lin_d, **kw)
            f1.add_error("y", 1.2 * ey, name="ey1")
            fit = kafe2.MultiFit([f0, f1], **kw)
            fit.add_error(0.5 * ey, fits="all", axis="y", correlation=1.0, name="shared")
            second = lambda f: f.add_error(0.6 * ey, fits="all", axis="y", name="e2")  # noqa: E731
        elif problem == "multi-one":
            truth = [1.4 + 0.3 * v, 0.8 - 0.1 * v]
            ey = 0.25 + 0.05 * v
            f0 = kafe2.IndexedFit(idx_model(*truth) + ey * _NOISE, idx_model, **kw)
            f0.add_error(ey, name="ey0")
            fit = kafe2.MultiFit([f0], **kw)
            second = lambda f: f.fits[0].add_error(0.7 * ey, name="e2")  # noqa: E731
        else:
            raise ValueError(problem)
    return fit, dict(names=list(fit.parameter_names), truth=truth, second=second)


ALL_DISPLAYS = ("report", "preface", "dict")

# the naming dimension: what the parameters are called in displays.  'default' = the argument names; 'names' = every parameter
# gets a display name (assign_parameter_names) before anything else happens (before a parameter is fixed); 'names-late' = the
# same names, assigned right before the first display; 'latex' = LaTeX names only (assign_parameter_latex_names: the textual
# displays keep the argument names); 'permuted' = the display names are the argument names rotated by one (every display name
# is the argument name of ANOTHER parameter).  Multi-fits: the names are assigned on every member for the parameters it has.
NAMINGS = ("names", "names-late", "latex", "permuted")


def display_map(names, naming):
    """argument name -> name shown in the report"""
    names = list(names)
    if naming in ("names", "names-late"):
        return dict((n, n + "_shown") for n in names)
    if naming == "permuted":
        return dict((n, names[(i + 1) % len(names)]) for i, n in enumerate(names))
    return dict((n, n) for n in names)


def assign_names(fit, naming):
    """Assign the names of `naming` on the real API -> argument name -> display name expected in the report."""
    names = [str(n) for n in fit.parameter_names]
    disp = display_map(names, naming)
    members = list(fit.fits) if type(fit).__name__ == "MultiFit" else [fit]
    for f in members:
        own = [str(n) for n in f.parameter_names]
        if naming == "latex":
            f.assign_parameter_latex_names(**dict((n, r"\hat{%s}_{0}" % n) for n in own))
        elif naming != "default":
            f.assign_parameter_names(**dict((n, disp[n]) for n in own))
    return disp


def displayed_objects(fit):
    """(label, object, available displays): the fit itself; for a multi-fit the multi-fit (no file representation) and every member."""
    if type(fit).__name__ == "MultiFit":
        return [("M", fit, ("report", "dict"))] + [("m%d" % i, f, ALL_DISPLAYS) for i, f in enumerate(fit.fits)]
    return [("", fit, ALL_DISPLAYS)]


SEQUENCES = {
    "unfitted": ["show"],
    "fit": ["fit", "show"],
    "fit-show-refit": ["fit", "show", "second", "fit", "show"],
    "fit-displace": ["fit", "displace", "show"],
    "fit-asym": ["fit", "showA"],
    "fit-show-asym-show": ["fit", "show", "showA", "show"],
    "fit-reload-show": ["fit", "reload", "show"],  # the fit restored from its own file, displayed without another do_fit
    "fit-loadstate-show": ["fit", "loadstate", "show"],
    # who asks for the asymmetric uncertainties first: the display itself (showA1) / do_fit (fitA); "showA" = an earlier property access
    "fit-asymfirst": ["fit", "showA1"],
    "fit-asymfirst-show": ["fit", "showA1", "show", "showA"],
    "fitA-show": ["fitA", "showA"],
    "fitA-refit": ["fitA", "second", "fit", "show"],  # asymmetric uncertainties of a superseded minimum must not be listed
    # results loaded -> problem changed -> fitted again: the return value of that do_fit and the displays after it
    "fit-reload-refit": ["fit", "reload", "second", "fit", "show"],
    "fit-loadstate-refit": ["fit", "loadstate", "second", "fit", "show"],
    "fitA-reload-refit": ["fitA", "reload", "second", "fit", "show"],  # the file carries asymmetric uncertainties as well
    "fitA-loadstate-refit": ["fitA", "loadstate", "second", "fit", "show"],
    "fit-reload-refitA": ["fit", "reload", "second", "fitA"],
}
ASYM_STEPS = ("showA", "showA1", "fitA")
ORDERS = {"rpd": ["report", "preface", "dict"], "dpr": ["dict", "preface", "report"], "prd": ["preface", "report", "dict"]}


def held(fit, asym=False):
    """What the fit holds, through public properties only."""
    with warnings.catch_warnings():
        warnings.simplefilter("ignore")
        a = fit.asymmetric_parameter_errors if asym else None  # first: computing them (MINOS) may move the minimum slightly
        h = dict(names=[str(n) for n in fit.parameter_names], did_fit=bool(fit.did_fit))
        h["values"] = [float(t) for t in fit.parameter_values]
        h["value_dict"] = [(str(k), float(t)) for k, t in fit.parameter_name_value_dict.items()]
        h["cost"] = float(fit.cost_function_value)
        g = fit.goodness_of_fit
        h["gof"] = None if g is None else float(g)
        h["ndf"] = int(fit.ndf)
        pr = fit.chi2_probability
        h["prob"] = None if pr is None else float(pr)
        if h["did_fit"]:
            h["errors"] = [float(t) for t in fit.parameter_errors]
            cm = fit.parameter_cor_mat
            h["cor"] = None if cm is None else np.array(cm, dtype=float).tolist()
            cv = fit.parameter_cov_mat
            h["cov"] = None if cv is None else np.array(cv, dtype=float).tolist()
        else:
            h["errors"] = h["cor"] = h["cov"] = None
        if asym:
            h["asym"] = None if a is None else np.array(a, dtype=float).tolist()
    return h


def _same(a, b):
    """Held values before / after a display: equal up to 1e-9 (relative to the largest entry) - far below any displayed digit."""
    if a is None or b is None or isinstance(a, (bool, str)) or (isinstance(a, list) and a and isinstance(a[0], str)):
        return a == b
    x, y = np.asarray(a, dtype=float), np.asarray(b, dtype=float)
    if x.shape != y.shape:
        return False
    scale = max(1e-300, float(np.max(np.abs(x))) if x.size else 0.0)
    return bool(np.all((np.abs(x - y) <= 1e-9 * scale) | ((x != x) & (y != y))))


def to_plain(x):
    if isinstance(x, dict):
        return {str(k): to_plain(t) for k, t in x.items()}
    if isinstance(x, (list, tuple)):
        return [to_plain(t) for t in x]
    if isinstance(x, (np.ndarray, np.generic)):
        return x.tolist()
    return x


class Shower(object):
    """Runs one display on the real fit and judges it against held values."""

    def __init__(self, fit, fixed, tmpdir, display=None):
        self.fit, self.fixed, self.tmpdir = fit, set(fixed), tmpdir
        self.counter = 0
        self.display = {} if display is None else display  # argument name -> assigned display name (shared, filled by the harness)

    # -- the three displays
    def show(self, what, asym):
        fit = self.fit
        with warnings.catch_warnings():
            warnings.simplefilter("ignore")
            if what == "report":
                s = io.StringIO()
                fit.report(s, asymmetric_parameter_errors=asym)
                return s.getvalue()
            if what == "preface":
                self.counter += 1
                fn = os.path.join(self.tmpdir, "fit%d.yml" % self.counter)
                fit.to_file(fn, calculate_asymmetric_errors=asym)
                with open(fn) as f:
                    return f.read()
            if what == "dict":
                return fit.get_result_dict(asymmetric_parameter_errors=asym)
        raise ValueError(what)

    # -- judging
    def judge(self, what, shown, h, asym, asym_known):
        if what == "report":
            return self.judge_report(shown, h, asym)
        if what == "preface":
            return self.judge_preface(shown, h, asym_known)
        return self.judge_dict(shown, h, asym_known)

    def judge_either(self, what, shown, h_before, h_after, asym_known):
        """The judged call itself ran the profile scan for the first time: a number is wrong only if it is faithful neither to the
        state held before the scan nor to the state held after it (asymmetric uncertainties: always the ones held after it)."""
        post = self.judge(what, shown, h_after, True, asym_known)
        if not post:
            return []
        pre = {(o, repr(a)) for o, _, a in self.judge(what, shown, dict(h_before, asym=h_after.get("asym")), True, asym_known)}
        return [(o, e, a) for o, e, a in post if (o, repr(a)) in pre]

    def asym_now(self):
        """The asymmetric uncertainties the fit holds, read through the public property (for displays that list them unasked)."""
        try:
            with warnings.catch_warnings():
                warnings.simplefilter("ignore")
                a = self.fit.asymmetric_parameter_errors
            return None if a is None else np.array(a, dtype=float).tolist()
        except Exception as e:  # noqa: BLE001
            return "asymmetric_parameter_errors raised " + type(e).__name__

    def _num(self, bad, obs, tok, x):
        try:
            s = P.Shown(tok)
        except ValueError:
            bad.append((obs, "a number close to %r" % (x,), tok))
            return
        if x is None or not s.faithful_to(x):
            bad.append((obs, "%r within half a unit of the last displayed digit" % (x,), tok))

    def judge_report(self, text, h, asym):
        bad = []
        try:
            r = P.parse_report(text)
        except ValueError as e:
            return [("report.format", "parsable report", str(e))]
        if r["warning"] != (not h["did_fit"]):
            bad.append(("report.warning", "warning iff no fit was performed (did_fit=%s)" % h["did_fit"], r["warning"]))
        # the report lists the parameters under the display names they were given (the argument names unless assigned)
        shown_names = [self.display.get(n, n) for n in h["names"]]
        if [p[0] for p in r["params"]] != shown_names:
            bad.append(("report.parameter_names", shown_names, [p[0] for p in r["params"]]))
            return bad
        for i, (name, rest) in enumerate(r["params"]):
            fixed = h["names"][i] in self.fixed
            if h["did_fit"] and not fixed:
                pb = P.judge_pm(rest, False, h["values"][i], 2, error=h["errors"][i], asym=(h["asym"][i] if asym else None))
            elif fixed:
                pb = P.judge_pm(rest, False, h["values"][i], 2, fixed=True)
            else:
                pb = []
                try:
                    p = P.parse_pm(rest, False)
                    if p["kind"] != "bare" or not p["v"].faithful_to(h["values"][i]):
                        pb = [("value", "%r within half a unit of the last displayed digit, no uncertainty" % h["values"][i], rest)]
                except ValueError as e:
                    pb = [("format", "a number", str(e))]
            for o, e, a in pb:
                bad.append(("report.parameter." + o, e, "%s = %s" % (name, a)))
        if h["did_fit"]:
            if r["cor"] is None:
                bad.append(("report.correlations", "correlation table", "missing"))
            else:
                if r["cor"]["cols"] != shown_names or [t[0] for t in r["cor"]["rows"]] != shown_names:
                    bad.append(("report.correlation_names", shown_names, [r["cor"]["cols"], [t[0] for t in r["cor"]["rows"]]]))
                else:
                    for i, (_, toks) in enumerate(r["cor"]["rows"]):
                        if len(toks) != len(h["names"]):
                            bad.append(("report.correlations", "%d entries" % len(h["names"]), toks))
                            continue
                        for j, tok in enumerate(toks):
                            self._num(bad, "report.correlation", tok, h["cor"][i][j])
        elif r["cor"] is not None:
            bad.append(("report.correlations", "no correlation table before the fit", r["cor"]))
        c = r["cost"]
        if c is None:
            bad.append(("report.cost", "cost line", "missing"))
        elif c[0] == "cost":
            if h["did_fit"] and h["gof"] is not None:
                bad.append(("report.cost", "goodness of fit / ndf line", c))
            self._num(bad, "report.cost", c[1], h["cost"])
        else:
            _, label, g, nd, ratio = c
            if h["gof"] is None:
                bad.append(("report.gof", "no goodness of fit", c))
            else:
                self._num(bad, "report.gof", g, h["gof"])
                if nd.strip() != str(h["ndf"]):
                    bad.append(("report.ndf", h["ndf"], nd))
                if ratio is not None:
                    self._num(bad, "report.gof_per_ndf", ratio, h["gof"] / h["ndf"])
                elif h["ndf"] > 0:
                    bad.append(("report.gof_per_ndf", h["gof"] / h["ndf"], None))
        if r["prob"] is not None:
            self._num(bad, "report.chi2_probability", r["prob"], h["prob"])
        elif h["did_fit"] and h["prob"] is not None:
            bad.append(("report.chi2_probability", h["prob"], "missing"))
        return bad

    def judge_preface(self, text, h, asym_known):
        bad = []
        try:
            r = P.parse_preface(text)
        except ValueError as e:
            return [("preface.format", "parsable preface", str(e))]
        if r.get("error"):
            return [("preface.format", "table", r["error"])]
        if r["warning"] != (not h["did_fit"]):
            bad.append(("preface.warning", "warning iff no fit was performed", r["warning"]))
        if not h["did_fit"]:
            if r["rows"] or r["gof"] or r["cost"]:
                bad.append(("preface.table", "no results before the fit", [r["rows"], r["gof"], r["cost"]]))
            return bad
        if h["gof"] is not None:
            if r["gof"] is None:
                bad.append(("preface.gof", h["gof"], "missing"))
            else:
                self._num(bad, "preface.gof", r["gof"][1], h["gof"])
            if r["ratio"] is None:
                bad.append(("preface.gof_per_ndf", h["gof"] / h["ndf"], "missing"))
            else:
                self._num(bad, "preface.gof_per_ndf", r["ratio"][1], h["gof"] / h["ndf"])
        else:
            if r["cost"] is None:
                bad.append(("preface.cost", h["cost"], "missing"))
            else:
                self._num(bad, "preface.cost", r["cost"], h["cost"])
        if r["ndf"] is None or r["ndf"].strip() != str(h["ndf"]):
            bad.append(("preface.ndf", h["ndf"], r["ndf"]))
        with_asym = r["header"] is not None and "Par err down" in r["header"]
        if asym_known is None and with_asym:
            asym_known = self.asym_now()
            if isinstance(asym_known, str) or asym_known is None:
                bad.append(("preface.asymmetric_columns", "no asymmetric columns (%s)" % (asym_known,), r["header"]))
                asym_known = None
        if asym_known is not None and not with_asym:
            bad.append(("preface.asymmetric_columns", "columns for the asymmetric uncertainties", r["header"]))
        if [row[0] for row in r["rows"]] != h["names"]:
            bad.append(("preface.parameter_names", h["names"], [row[0] for row in r["rows"]]))
            return bad
        for i, row in enumerate(r["rows"]):
            name = row[0]
            need = 3 + (2 if with_asym else 0) + i
            if len(row) != need:
                bad.append(("preface.row", "%d cells" % need, row))
                continue
            self._num(bad, "preface.value", row[1], h["values"][i])
            fixed = name in self.fixed
            if fixed != (row[2] == "fixed"):
                bad.append(("preface.fixed-marker", "'fixed' iff the parameter is fixed (%s)" % fixed, row))
            elif not fixed:
                self._num(bad, "preface.error", row[2], h["errors"][i])
            k = 3
            if with_asym:
                for col, idx in (("down", 0), ("up", 1)):
                    tok = row[k]
                    k += 1
                    if asym_known is None:
                        continue
                    x = asym_known[i][idx]
                    if fixed or x != x:
                        if tok != "N/A" and not fixed:
                            bad.append(("preface.asymmetric_error", "N/A", tok))
                    else:
                        self._num(bad, "preface.asymmetric_error_" + col, tok, x)
            for j, tok in enumerate(row[k:]):
                self._num(bad, "preface.correlation", tok, h["cor"][i][j])
        return bad

    def judge_dict(self, d, h, asym_known):
        bad = []

        def eq(obs, act, exp):
            try:
                if exp is None or act is None:
                    ok = exp is None and act is None
                else:
                    a, e = np.asarray(act, dtype=float), np.asarray(exp, dtype=float)
                    ok = a.shape == e.shape and bool(np.all((np.abs(a - e) <= 1e-12 * np.abs(e)) | ((a != a) & (e != e))))
            except Exception:  # noqa: BLE001
                ok = False
            if not ok:
                bad.append(("dict." + obs, exp, to_plain(act)))

        if bool(d.get("did_fit")) != h["did_fit"]:
            bad.append(("dict.did_fit", h["did_fit"], d.get("did_fit")))
        eq("cost", d.get("cost"), h["cost"])
        if d.get("ndf") != h["ndf"]:
            bad.append(("dict.ndf", h["ndf"], d.get("ndf")))
        eq("goodness_of_fit", d.get("goodness_of_fit"), h["gof"])
        eq("gof/ndf", d.get("gof/ndf"), None if h["gof"] is None else h["gof"] / h["ndf"])
        eq("chi2_probability", d.get("chi2_probability"), h["prob"])
        pv = d.get("parameter_values")
        if pv is None or [str(k) for k in pv.keys()] != h["names"]:
            bad.append(("dict.parameter_names", h["names"], None if pv is None else list(pv.keys())))
        else:
            eq("parameter_values", [pv[k] for k in pv], h["values"])
        pe = d.get("parameter_errors")
        if h["did_fit"]:
            if pe is None or [str(k) for k in pe.keys()] != h["names"]:
                bad.append(("dict.parameter_error_names", h["names"], None if pe is None else list(pe.keys())))
            else:
                eq("parameter_errors", [pe[k] for k in pe], h["errors"])
        elif pe is not None:
            bad.append(("dict.parameter_errors", None, pe))
        eq("parameter_cov_mat", d.get("parameter_cov_mat"), h["cov"])
        eq("parameter_cor_mat", d.get("parameter_cor_mat"), h["cor"])
        if asym_known is None and d.get("asymmetric_parameter_errors") is not None:
            asym_known = self.asym_now()
            if isinstance(asym_known, str) or asym_known is None:
                bad.append(("dict.asymmetric_parameter_errors", asym_known, to_plain(d.get("asymmetric_parameter_errors"))))
                asym_known = None
        if asym_known is not None:
            ad = d.get("asymmetric_parameter_errors")
            if ad is None or [str(k) for k in ad.keys()] != h["names"]:
                bad.append(("dict.asymmetric_error_names", h["names"], None if ad is None else list(ad.keys())))
            else:
                eq("asymmetric_parameter_errors", [ad[k] for k in ad], asym_known)
        return bad


def apply_op(step, fit, info, fixed, tmpdir, stats=None):
    """One state-changing operation of a sequence on the real API -> (the fit to go on with (a new object after 'reload'), what the
    operation returned)."""
    n, ret = 1, None
    if step in ("fit", "fitA"):
        with contextlib.redirect_stdout(io.StringIO()):  # the minimizer base class prints a warning on infinite cost values
            ret = fit.do_fit(asymmetric_parameter_errors=True) if step == "fitA" else fit.do_fit()
    elif step == "second":
        info["second"](fit)
    elif step == "reload":
        _path = os.path.join(tmpdir, "reload.yml")
        fit.to_file(_path)
        fit = type(fit).from_file(_path)
        n = 2
    elif step == "loadstate":
        _path = os.path.join(tmpdir, "state.yml")
        fit.save_state(_path)
        fit.load_state(_path)
        n = 2
    elif step == "displace":
        free = [n_ for n_ in info["names"] if n_ not in fixed]
        cur = dict(zip(info["names"], fit.parameter_values))
        fit.set_parameter_values(**{n_: float(cur[n_]) * 1.07 + 0.01 * abs(float(cur[n_])) for n_ in free})
    else:
        raise ValueError(step)
    if stats is not None:
        stats["ops"] += n
    return fit, ret


OPS = ("fit", "fitA", "second", "reload", "loadstate", "displace")


def start(problem, backend, v, fix, stats=None, naming="default", display=None):
    fit, info = build_problem(problem, backend, v)
    fixed = []
    with warnings.catch_warnings():
        warnings.simplefilter("ignore")
        if naming not in ("default", "names-late"):
            _d = assign_names(fit, naming)
            if display is not None:
                display.update(_d)
            if stats is not None:
                stats["ops"] += 1
        if fix:
            pname = info["names"][-1]
            fit.fix_parameter(pname, info["truth"][-1])
            fixed = [pname]
            if stats is not None:
                stats["ops"] += 1
    return fit, info, fixed


def twin_state(problem, backend, v, fix, steps, tmpdir, naming="default"):
    """What an identically built fit holds after the same operations when the last one, do_fit(asymmetric_parameter_errors=True), is
    replaced by a plain do_fit(): the state at the moment the returned dictionary was filled, before the profile scan."""
    twin_dir = tempfile.mkdtemp(prefix="twin_", dir=tmpdir)
    fit, info, fixed = start(problem, backend, v, fix, naming=naming)
    with warnings.catch_warnings():
        warnings.simplefilter("ignore")
        for step in steps[:-1]:
            assert step in OPS, "do_fit(asymmetric_parameter_errors=True) after a display step is not generated"
            fit, _ = apply_op(step, fit, info, fixed, twin_dir)
        fit, _ = apply_op("fit", fit, info, fixed, twin_dir)
    return held(fit, asym=False)


def _asym_visible(text):
    """Number of parameter lines of a report whose upper and lower uncertainty are displayed differently."""
    n = 0
    try:
        for _, rest in P.parse_report(text)["params"]:
            try:
                q = P.parse_pm(rest, False)
            except ValueError:
                continue
            if q["kind"] == "asym" and q["u"].value != q["d"].value:
                n += 1
    except ValueError:
        pass
    return n


def run_show_case(problem, backend, v, fix, seqname, order, collect=None, naming="default"):
    """Execute one (problem, backend, fixed, sequence, display order) history on the real API.
    -> (list of (step index, display, observable, expected, actual, mode), stats dict)"""
    tmpdir = tempfile.mkdtemp(prefix="kmc_c17_")
    stats = dict(displays=0, numbers=0, fitted_displays=0, ops=0, returned=0, returned_loaded=0, first_requests=0, asym_visible=0, multi_displays=0, member_displays=0, first_by={})
    out = []
    steps = SEQUENCES[seqname]
    try:
        display = {}
        fit, info, fixed = start(problem, backend, v, fix, stats, naming, display)
        objs = displayed_objects(fit)
        showers = dict((lab, Shower(o, fixed, tmpdir, display)) for lab, o, _ in objs)
        known = dict((lab, None) for lab, _, _ in objs)  # asymmetric uncertainties an object is known to hold
        loaded = False  # the fit carries results read from a file
        for si, step in enumerate(steps):
            if step in OPS:
                with warnings.catch_warnings():
                    warnings.simplefilter("ignore")
                    try:
                        fit, ret = apply_op(step, fit, info, fixed, tmpdir, stats)
                    except Exception as e:  # noqa: BLE001
                        if isinstance(e, np.linalg.LinAlgError) and step in ("fit", "fitA"):
                            # a minimisation that fails numerically (scipy's Hessian on the badly scaled problems: the subject of C06 / C15,
                            # where it is a known finding) leaves nothing to display - the history ends here without a verdict
                            stats["ops_failed_numerically"] = stats.get("ops_failed_numerically", 0) + 1
                            return out, stats
                        out.append((si, step, "op:" + step, "no exception", type(e).__name__ + ": " + str(e)[:120], "exception:" + type(e).__name__))
                        return out, stats
                if step == "reload":
                    objs = displayed_objects(fit)
                    showers = dict((lab, Shower(o, fixed, tmpdir, display)) for lab, o, _ in objs)
                known = dict((lab, None) for lab, _, _ in objs)
                if step in ("reload", "loadstate"):
                    loaded = True
                if step not in ("fit", "fitA"):
                    continue
                # the dictionary returned by do_fit is a display of the state the fit holds when do_fit returns
                top = objs[0][0]
                what = (top + "." if top else "") + "do_fit"
                try:
                    after = held(fit, asym=step == "fitA")
                    if step == "fitA":
                        known[top] = after["asym"]
                        bad = showers[top].judge_dict(ret, after, known[top])
                        if bad:
                            pre = twin_state(problem, backend, v, fix, steps[: si + 1], tmpdir, naming)
                            keys = {(o, repr(a)) for o, _, a in showers[top].judge_dict(ret, pre, known[top])}
                            bad = [(o, e, a) for o, e, a in bad if (o, repr(a)) in keys]
                    else:
                        bad = showers[top].judge_dict(ret, after, None)
                except Exception as e:  # noqa: BLE001
                    out.append((si, what, what, "no exception", type(e).__name__ + ": " + str(e)[:120], "exception:" + type(e).__name__))
                    continue
                stats["displays"] += 1
                stats["returned"] += 1
                stats["returned_loaded"] += 1 if loaded else 0
                stats["fitted_displays"] += 1
                stats["numbers"] += 2 * len(after["names"]) + len(after["names"]) ** 2 + 3
                loaded = False
                if collect is not None:
                    collect.append((si, what, "dict"))
                for o, e, a in bad:
                    out.append((si, what, o, e, a, "wrong-value"))
                continue
            if naming == "names-late" and not display:
                with warnings.catch_warnings():
                    warnings.simplefilter("ignore")
                    display.update(assign_names(fit, naming))  # right before the first display
                stats["ops"] += 1
            asym = step != "show"
            first = step == "showA1"  # the first display of this step is the first to ask for the asymmetric uncertainties
            # in asymmetric steps the multi-fit is asked before its members (see ASSUMPTIONS)
            for lab, obj, avail in objs if (asym or order != "dpr") else objs[::-1]:
                sh = showers[lab]
                for disp in ORDERS[order]:
                    if disp not in avail:
                        continue
                    what = (lab + "." if lab else "") + disp
                    try:
                        if first:
                            before = held(obj, asym=False)
                            shown = sh.show(disp, True)
                            after = held(obj, asym=True)
                            known[lab] = after["asym"]
                            bad = sh.judge_either(disp, shown, before, after, known[lab])
                            same_keys = ("ndf", "did_fit", "names")
                            stats["first_requests"] += 1
                            stats["first_by"][what] = stats["first_by"].get(what, 0) + 1
                        else:
                            before = held(obj, asym=asym)
                            if asym:
                                known[lab] = before["asym"]
                            shown = sh.show(disp, asym)
                            after = held(obj, asym=False)
                            bad = sh.judge(disp, shown, before, asym, known[lab])
                            same_keys = ("values", "errors", "cor", "cost", "gof", "ndf", "prob", "did_fit", "names")
                    except Exception as e:  # noqa: BLE001
                        out.append((si, what, what, "no exception", type(e).__name__ + ": " + str(e)[:120], "exception:" + type(e).__name__))
                        first = False
                        continue
                    first = False
                    stats["displays"] += 1
                    stats["ops"] += 1
                    stats["fitted_displays"] += 1 if before["did_fit"] else 0
                    stats["multi_displays"] += 1 if lab == "M" else 0
                    stats["member_displays"] += 1 if lab.startswith("m") else 0
                    stats["numbers"] += 2 * len(before["names"]) + (len(before["names"]) ** 2 if before["did_fit"] else 0) + 3
                    if asym and disp == "report":
                        stats["asym_visible"] += _asym_visible(shown)
                    if collect is not None:
                        collect.append((si, what, shown if isinstance(shown, str) else "dict"))
                    for o, e, a in bad:
                        out.append((si, what, o, e, a, "wrong-value"))
                    for key in same_keys:
                        if not _same(before[key], after[key]):
                            out.append((si, what, "state." + key, before[key], after[key], "state-changed"))
        return out, stats
    except Exception as e:  # noqa: BLE001
        out.append((-1, "build", "op:construct", "no exception", type(e).__name__ + ": " + str(e)[:120], "exception:" + type(e).__name__))
        return out, stats
    finally:
        shutil.rmtree(tmpdir, ignore_errors=True)


def seq_names(tier):
    return [
        "unfitted",
        "fit",
        "fit-show-refit",
        "fit-displace",
        "fit-asym",
        "fit-reload-show",
        "fit-loadstate-show",
        "fit-asymfirst",
        "fitA-show",
        "fitA-refit",
        "fit-reload-refit",
        "fit-loadstate-refit",
        "fitA-reload-refit",
        "fitA-loadstate-refit",
    ] + (["fit-show-asym-show", "fit-asymfirst-show", "fit-reload-refitA"] if tier == "thorough" else [])


# scipy computes asymmetric uncertainties in > 1 s per single fit and > 5 s per multi-fit: the quick tier runs the sequences that
# need them with scipy on the problems / sequences listed here (iminuit: everything), the thorough tier runs all of them
QUICK_SCIPY_ASYM = {
    "xy-lin": ("fit-asym", "fitA-reload-refit"),
    "hist": ("fit-asym", "fit-asymfirst"),
    "multi-one": ("fit-asymfirst",),
}


# sequences whose judged displays depend on the display order; in the others the new element is the return value of do_fit, which no
# display precedes: the quick tier runs those in one order (alternating), the thorough tier in both
ORDER_SENSITIVE = ("unfitted", "fit", "fit-show-refit", "fit-displace", "fit-asym", "fit-reload-show", "fit-loadstate-show", "fit-asymfirst", "fit-show-asym-show", "fit-asymfirst-show")
QUICK_SCIPY_MULTI = ("multi-expo", "multi-one")


# the sequences of the naming product: every kind of moment at which names matter (nothing fitted, fitted, fitted again after a
# change, values set by hand, read back from a file / a saved state, asymmetric uncertainties)
NAMING_SEQS = {
    "quick": ("unfitted", "fit", "fit-displace", "fit-reload-show", "fit-loadstate-show", "fit-asym"),
    "thorough": ("unfitted", "fit", "fit-show-refit", "fit-displace", "fit-asym", "fit-reload-show", "fit-loadstate-show", "fit-asymfirst", "fitA-show", "fit-reload-refit", "fit-loadstate-refit"),
}


def cases(problem, backend, fix, tier, v=0, naming="default"):
    """(sequence, display order) pairs of one job."""
    k = 0
    for seqname in seq_names(tier):
        steps = SEQUENCES[seqname]
        if naming != "default" and (seqname not in NAMING_SEQS[tier] or (backend == "scipy" and any(t in ASYM_STEPS for t in steps))):
            continue  # (names do not depend on the minimizer: the slow scipy profile scans are left to the default naming)
        if is_multi(problem) and "reload" in steps:
            continue  # a multi-fit has no file representation
        if backend == "scipy" and tier == "thorough" and is_multi(problem) and int(v) != 0 and any(t in ASYM_STEPS for t in steps):
            continue  # thorough tier: scipy profile scans of multi-fits (5-8 s each) in the first valuation only
        if backend == "scipy" and tier == "quick" and any(t in ASYM_STEPS for t in steps) and seqname not in QUICK_SCIPY_ASYM.get(problem, ()):
            continue
        if naming != "default" and tier == "quick":
            k += 1
            orders = ("rpd", "dpr")[(k + int(bool(fix))) % 2 :][:1]  # one display order (alternating)
        elif seqname not in ORDER_SENSITIVE and tier == "quick":
            k += 1
            orders = ("rpd", "dpr")[(k + int(bool(fix))) % 2 :][:1]
        elif "showA1" in steps and not is_multi(problem):
            orders = ("rpd", "dpr", "prd")  # every display once as the first requester of the asymmetric uncertainties
        else:
            orders = ("rpd", "dpr")  # (a multi-fit has two displays)
        for order in orders:
            yield seqname, order


def run_show(res, problem, backend, v, fix, tier, naming="default"):
    for seqname, order in cases(problem, backend, fix, tier, v, naming):
        bad, stats = run_show_case(problem, backend, v, fix, seqname, order, naming=naming)
        res.executions += 1
        res.transitions += stats["ops"]
        res.evaluations += stats["numbers"]
        key = (problem, backend, v, fix, seqname, order) + ((naming,) if naming != "default" else ())
        res.facts["show-naming:%s" % naming] += 1
        res.facts["show-naming:%s:%s" % (naming, "fixed" if fix else "free")] += 1
        if naming != "default" and "reload" in SEQUENCES[seqname]:
            res.facts["show-naming:read-back-from-file"] += 1
        res.state(key)
        if stats["fitted_displays"]:
            res.nontriv(key)
        res.observe((key, stats["displays"], [(b[0], b[1], b[2]) for b in bad]))
        res.facts["show:%s" % problem] += 1
        res.facts["show-backend:%s" % backend] += 1
        res.facts["show-fixed:%s" % bool(fix)] += 1
        res.facts["displays"] += stats["displays"]
        res.facts["fitted-displays"] += stats["fitted_displays"]
        res.facts["do_fit-return-values"] += stats["returned"]
        res.facts["do_fit-return-values-after-loaded-results"] += stats["returned_loaded"]
        res.facts["asymmetric-first-requests"] += stats["first_requests"]
        for k, n in stats["first_by"].items():
            res.facts["asymmetric-first-request-by:" + k] += n
        res.facts["report-lines-with-visibly-asymmetric-uncertainties" + (":multi" if is_multi(problem) else "")] += stats["asym_visible"]
        res.facts["multi-fit-displays"] += stats["multi_displays"]
        res.facts["member-displays"] += stats["member_displays"]
        res.outcomes[("show", problem, backend, "fixed" if fix else "free", seqname) + (("naming=" + naming,) if naming != "default" else ()) + ("MISMATCH" if bad else "ok",)] += 1
        hist = dict(kind="show", problem=problem, backend=backend, v=v, fix=bool(fix), sequence=seqname, order=order)
        if naming != "default":
            hist["naming"] = naming
        seen = set()
        for si, what, obs, exp, act, mode in bad:
            if (what, obs) in seen:
                continue
            seen.add((what, obs))
            sig = "show|%s|%s|%s|%s|%s" % (problem, backend, ("fixed" if fix else "free") + ("" if naming == "default" else ",naming=" + naming), ";".join(SEQUENCES[seqname][: si + 1]), what)
            res.violation(sig, hist, obs, exp, act, mode, extra=dict(step=si, display=what))
    res.sample(dict(kind="show", problem=problem, backend=backend, valuation=v, fixed_last_parameter=bool(fix), naming=naming, cases=["%s/%s" % c for c in cases(problem, backend, fix, tier, v, naming)]))


# ----------------------------------------------------------------------------------------------------------------------


def jobs(tier, seed):
    v = seed % 3
    vals = [v] if tier == "quick" else [0, 1, 2]
    specs = []
    for vv in vals:
        for problem in PROBLEMS + MULTI_PROBLEMS:
            for backend in ("scipy", "iminuit"):
                if tier == "quick" and backend == "scipy" and is_multi(problem) and problem not in QUICK_SCIPY_MULTI:
                    continue  # scipy needs 2-5 s per multi-fit job: two of the four multi-fit problems in the quick tier
                for fix in (False, True):
                    specs.append(("show", problem, backend, vv, fix, tier))
        # the naming product: problems x {free, last parameter fixed} x namings x the sequences NAMING_SEQS
        for problem in PROBLEMS + MULTI_PROBLEMS:
            for backend in ("iminuit", "scipy"):
                if backend == "scipy" and tier == "quick" and problem not in ("xy-lin", "multi-one"):
                    continue  # (names are independent of the minimizer: the second backend on one single fit and one multi-fit)
                for fix in (False, True):
                    for naming in NAMINGS:
                        specs.append(("show", problem, backend, vv, fix, tier, naming))
    fv = v if tier == "quick" else 3  # the formatter grid is the same in every valuation up to two extra mantissas (thorough: all of them)
    for n in NSIG:
        for k in EXP_ORDER:
            specs.append(("sym", k, n, fv, tier))
            specs.append(("asym", k, n, fv, tier))
    for n in NSIG:
        for k in BIG_EXPS:
            specs.append(("symbig", k, n, fv, tier))
    k0 = [i for i, s in enumerate(specs) if s[0] == "show" and s[2] == "iminuit" and s[1] == "xy-lin" and len(s) == 6][0]
    specs.insert(0, specs.pop(k0))
    return specs


DETCHECK_JOB = 0


def bound(tier, seed):
    return (
        "get_formatted: %d uncertainty mantissas x exponents -6..6 x (0 and +- the same set) values x n in {1,2,3} x {plain, LaTeX}, complete; exponents +-9, +-10, +-11, +-20, +-100 with the values of the same and the next three decades; "
        "asymmetric pairs (equal, same decade, up to %d decades apart, both orientations) x %d values x n x {plain, LaTeX}; fixed flag x all values; "
        "displays: (%d single fits + %d multi-fits, each multi-fit and each of its members a displayed object) x 2 backends x {free, last parameter fixed} x %d moment sequences "
        "(return value of every do_fit judged; asymmetric uncertainties first requested by an earlier access / do_fit / the display itself; results loaded -> change -> refit; "
        "multi-fits: the %d sequences without from_file) x 2 display orders (3 where the display is the first requester), valuation(s) %s%s; "
        "naming product: the same fits and multi-fits x {free, last parameter fixed} x parameter namings {display names assigned before anything else, display names assigned right before the first "
        "display, LaTeX names only, display names = the argument names rotated by one} x %d moment sequences (unfitted, fitted, displaced, read back from a file, from a saved state, asymmetric, ...)%s"
        % (
            len(mantissas((seed % 3) if tier == "quick" else 3)),
            1 if tier == "quick" else 2,
            len(asym_values(0, tier)),
            len(PROBLEMS),
            len(MULTI_PROBLEMS),
            len(seq_names(tier)),
            len([q for q in seq_names(tier) if "reload" not in SEQUENCES[q]]),
            (seed % 3) if tier == "quick" else "0,1,2",
            "; sequences whose new element is the return value of do_fit in one display order; scipy: multi-fits " + "/".join(QUICK_SCIPY_MULTI) + " only, asymmetric uncertainties only for " + ", ".join("%s: %s" % (k, "/".join(t)) for k, t in sorted(QUICK_SCIPY_ASYM.items())) if tier == "quick" else "",
            len(NAMING_SEQS[tier]),
            " in one display order; scipy on xy-lin and multi-one only" if tier == "quick" else " x display orders x 2 backends",
        )
    )


def run_job(spec):
    res = JobResult()
    kind = spec[0]
    if kind == "sym":
        _, k, n, v, tier = spec
        run_fmt_sym(res, k, n, v)
    elif kind == "asym":
        _, k, n, v, tier = spec
        run_fmt_asym(res, k, n, v, tier)
    elif kind == "symbig":
        _, k, n, v, tier = spec
        run_fmt_sym(res, k, n, v, near_only=True)
    elif kind == "show":
        _, problem, backend, v, fix, tier = spec[:6]
        run_show(res, problem, backend, v, fix, tier, *spec[6:])
    else:
        raise ValueError(spec)
    return res.as_dict()


def replay(history):
    h = history
    if h["kind"] == "fmt":
        asym = None if h.get("asym") is None else tuple(float(t) for t in h["asym"])
        text = fmt_case(float(h["value"]), int(h["n"]), bool(h["latex"]), error=float(h["error"]), asym=asym, fixed=bool(h["fixed"]))
        bad = judge_fmt(text, float(h["value"]), int(h["n"]), bool(h["latex"]), error=float(h["error"]), asym=asym, fixed=bool(h["fixed"]))
        return [dict(observable=o, expected=e, actual=a, mode=m) for o, e, a, m in bad]
    bad, _ = run_show_case(h["problem"], h["backend"], h["v"], h["fix"], h["sequence"], h["order"], naming=h.get("naming", "default"))
    return [dict(observable=o, expected=e, actual=a, mode=m, step=si, display=what) for si, what, o, e, a, m in bad]


def vacuity_guards(tot, tier):
    yield "all six single-fit problems and all four multi-fit problems displayed", all(tot.facts.get("show:" + p, 0) > 0 for p in PROBLEMS + MULTI_PROBLEMS)
    yield "more than 200 displays of multi-fits and more than 300 of their members parsed back", tot.facts.get("multi-fit-displays", 0) > 200 and tot.facts.get("member-displays", 0) > 300
    yield "more than 300 return values of do_fit judged, more than 50 of them of fits that carried loaded results", tot.facts.get("do_fit-return-values", 0) > 300 and tot.facts.get("do_fit-return-values-after-loaded-results", 0) > 50
    yield "each display was the first requester of the asymmetric uncertainties (fit: report, preface, dict; multi-fit: report, dict)", all(
        tot.facts.get("asymmetric-first-request-by:" + k, 0) > 0 for k in ("report", "preface", "dict", "M.report", "M.dict")
    )
    yield "reports of fits and of multi-fits with visibly different upper and lower uncertainties were judged", tot.facts.get("report-lines-with-visibly-asymmetric-uncertainties", 0) > 0 and tot.facts.get("report-lines-with-visibly-asymmetric-uncertainties:multi", 0) > 0
    yield "every naming (display names before anything else / right before the first display, LaTeX names, permuted names) displayed with and without a fixed parameter, and read back from a file", all(
        tot.facts.get("show-naming:%s:%s" % (n, f), 0) > 0 for n in NAMINGS for f in ("fixed", "free")
    ) and tot.facts.get("show-naming:read-back-from-file", 0) > 0
    yield "both backends and both fixed settings displayed", all(tot.facts.get(k, 0) > 0 for k in ("show-backend:iminuit", "show-backend:scipy", "show-fixed:True", "show-fixed:False"))
    yield "more than 300 displays of fitted states parsed back", tot.facts.get("fitted-displays", 0) > 300
    yield "uncertainties whose rounding carries into the next decade were formatted", tot.facts.get("carry-uncertainties", 0) > 50
    yield "asymmetric pairs of equal, same-decade and different-decade magnitude formatted", all(tot.facts.get("asym:" + k, 0) > 0 for k in ("equal", "same-decade", "different-decade"))
    yield "fixed flag formatted", tot.facts.get("fixed-cases", 0) > 0
    yield "exponent, power-of-ten and fixed-point notations all produced (more than 40 outcome classes)", len(tot.outcomes) > 40


def triage_key(v):
    f = v["sig"].split("|")
    return (f[0], f[1] if f[0] == "fmt" else f[-1], f[2] if f[0] == "fmt" else "", v["observable"], v["mode"])
