"""C12 - histogram filling counts every entry exactly once in half-open bins.

World: a real ``kafe2.HistContainer`` coupled with ``HistRef`` (the multiset of all entries filled so far and the
current edge sequence; counts by ``lo <= e < hi``, underflow ``e < first edge``, overflow ``e >= last edge``).

Exploration: bounded-exhaustive enumeration of operation sequences, every sequence replayed from scratch on a
fresh container.  Operations: ``fill(batch)`` (every multiset of size <= 2 over the entry alphabet E, the empty
batch, scalars, one batch with all of E as list and as ndarray), the five reads, ``rebin`` to three targets (the
original edges, a coarser binning, a narrower binning that starts with a zero-width bin).  Every read - inside the
sequence and in the final read phase - is compared with the reference.  State merging is not used: the container
remembers every entry in order, so distinct histories practically never reach equal private states; instead the
op alphabet is split into a *reduced* alphabet (singletons, duplicated edges, empty, scalar, full batch, reads,
rebins) used at the deepest level and the *full* alphabet used up to one level below (see ``bound``).
"""
import collections
import itertools

import numpy as np

from kmc import explore
from kmc.core import JobResult

PROPERTY = "C12"
RULE = (
    "executions = (binning, operation sequence) replayed from scratch on a fresh HistContainer; ops = fill(batch) for every "
    "multiset of size <= 2 over the entry alphabet (all edges, their nextafter neighbours, mid-points, far below/above) + empty "
    "batch + scalars + one batch with the whole alphabet, reads of data/underflow/overflow/n_entries/raw_data, rebin to 3 "
    "targets; every read inside the sequence and 5 final reads (underflow first) are compared with the multiset reference, "
    "plus underflow + sum(data) + overflow == n_entries == number filled.  states = distinct reference states (binning, "
    "current edges, count vector, number of entries); non-trivial case = distinct (binning, op pattern with each entry "
    "abstracted to edge / just-below / just-above / interior / far) that fills >= 1 entry on or adjacent to an edge and has a "
    "read or rebin before a later op"
)
ASSUMPTIONS = [
    "edges and entries are exactly representable doubles (multiples of 1/16 after the affine map of the valuation), so the reference edge sequence is the implementation's bit for bit; n_bins/bin_range construction is used only where numpy.linspace is exact",
    "a zero-width bin [a, a) is empty: an entry equal to a repeated edge belongs to the next non-empty bin, or to the overflow when the repeated edge is the last one",
    "raw_data is compared as a multiset (the statement does not fix an order)",
    "finite entries only; set_bins (manual heights) is not part of the statement and is not generated",
    "rebin changes the number of bins freely (no uncertainty sources are declared in this check)",
]

READS = ("data", "underflow", "overflow", "n_entries", "raw_data")
FINAL_READS = ("underflow", "overflow", "n_entries", "raw_data", "data")
VALUATIONS = ((1.0, 0.0), (2.0, -1.5), (0.25, 10.0))  # affine maps x -> s x + t, exact in binary floating point
NSHARD = 16

# name -> (base edges, constructor form, prefill)
BINNINGS = collections.OrderedDict(
    [
        ("single", ([0.0, 1.0], "edges", False)),
        ("zero-inner", ([0.0, 1.0, 1.0, 2.0], "edges+n", False)),
        ("zero-first", ([0.0, 0.0, 1.0, 2.0], "edges", False)),
        ("zero-last", ([0.0, 1.0, 2.0, 2.0], "edges", False)),
        ("prefilled", ([0.0, 1.0, 2.0], "edges", True)),
        ("uniform", ([0.0, 1.0, 2.0, 3.0], "range", False)),
        ("nonuniform", ([-1.0, 0.5, 0.75, 3.0], "edges", False)),
        ("inner", ([0.0, 1.0, 2.5, 3.0], "inner", False)),
    ]
)


# ---------------------------------------------------------------------------------------
# reference model


class HistRef(object):
    """Plain-python reference: the multiset of entries and the current edges."""

    def __init__(self, edges):
        self.edges = [float(e) for e in edges]
        self.entries = []

    def fill(self, values):
        self.entries.extend(values)

    def rebin(self, edges):
        self.edges = [float(e) for e in edges]

    def counts(self):
        ed = self.edges
        n = len(ed) - 1
        under = over = 0
        bins = [0] * n
        for e in self.entries:
            if e < ed[0]:
                under += 1
            if e >= ed[-1]:
                over += 1
            for i in range(n):
                if ed[i] <= e < ed[i + 1]:
                    bins[i] += 1
        # sanity of the reference itself: every entry is in exactly one class for ascending edges
        assert under + over + sum(bins) == len(self.entries), "reference partition broken"
        return under, bins, over


# ---------------------------------------------------------------------------------------
# configuration: binning + valuation -> alphabets


class Config(object):
    def __init__(self, name, v):
        base, ctor, prefill = BINNINGS[name]
        s, t = VALUATIONS[v % 3]
        self.name, self.v, self.ctor, self.prefill = name, v % 3, ctor, prefill
        self.edges = [s * e + t for e in base]
        d = sorted(set(self.edges))  # distinct edge values
        self.distinct = d
        val = collections.OrderedDict()
        val["lo"] = d[0] - 1.0e6
        for i, e in enumerate(d):
            val["e%d-" % i] = float(np.nextafter(e, -np.inf))
            val["e%d" % i] = e
            val["e%d+" % i] = float(np.nextafter(e, np.inf))
            if i + 1 < len(d):
                val["m%d" % i] = 0.5 * (e + d[i + 1])
        val["hi"] = d[-1] + 1.0e6
        self.val = val  # ordered by value
        assert list(val.values()) == sorted(val.values()) and len(set(val.values())) == len(val)
        self.names = list(val)
        # rebin targets: original / coarser (second edge dropped) / narrower with a leading zero-width bin
        e = self.edges
        if len(d) == 2:
            t1 = [d[0], d[0], d[1]]
            t2 = [d[1], d[1]]
        else:
            t1 = [e[0]] + e[2:]
            t2 = [d[1], d[1], e[-1]]
        self.targets = collections.OrderedDict([("T0", list(e)), ("T1", t1), ("T2", t2)])
        for tg in self.targets.values():
            assert all(x in d for x in tg) and all(b >= a for a, b in zip(tg[:-1], tg[1:]))
        self.prefill_names = list(self.names) if prefill else []
        self._build_ops()

    def _build_ops(self):
        """ops: symbolic tuples; self.ops = full alphabet, self.reduced = set of indices of the reduced alphabet."""
        names, d = self.names, self.distinct
        edge_names = ["e%d" % i for i in range(len(d))]
        ops, red = [], set()

        def add(op, reduced):
            if reduced:
                red.add(len(ops))
            ops.append(op)

        for r in READS:
            add(("read", r), True)
        for tg in self.targets:
            add(("rebin", tg), True)
        add(("fill", "L", ()), True)  # empty batch
        add(("fill", "A", ()), False)  # empty ndarray
        for n in names:
            add(("fill", "L", (n,)), True)
        for a, b in itertools.combinations_with_replacement(names, 2):
            add(("fill", "L", (b, a)), a == b and a in edge_names)  # deliberately unsorted inside the batch
        for n in edge_names:
            add(("fill", "S", (n,)), n == edge_names[-1])  # python float scalar
        add(("fill", "N", ("m0",)), False)  # numpy scalar
        add(("fill", "L", tuple(reversed(names))), True)  # the whole alphabet, descending
        add(("fill", "A", tuple(names[1::2] + names[0::2])), False)  # the whole alphabet as ndarray, interleaved
        add(("fill", "T", (edge_names[0], edge_names[-1])), False)  # tuple: first and last edge
        self.ops = ops
        self.reduced = red
        self.compiled = [self.compile(op) for op in ops]

    def compile(self, op):
        """symbolic op -> (kind, a, b) with concrete values"""
        op = tuple(op)
        if op[0] == "read":
            return (1, op[1], None)
        if op[0] == "rebin":
            return (2, list(self.targets[op[1]]), None)
        if op[0] == "fill":
            return (0, op[1], [self.val[n] for n in op[2]])
        raise ValueError(op)

    def make(self):
        import kafe2

        e = self.edges
        kw = {}
        if self.prefill:
            kw["fill_data"] = [self.val[n] for n in self.prefill_names]
        if self.ctor == "edges":
            return kafe2.HistContainer(bin_edges=list(e), **kw)
        if self.ctor == "edges+n":
            return kafe2.HistContainer(n_bins=len(e) - 1, bin_range=(e[0], e[-1]), bin_edges=list(e), **kw)
        if self.ctor == "range":
            return kafe2.HistContainer(n_bins=len(e) - 1, bin_range=(e[0], e[-1]), **kw)
        if self.ctor == "inner":
            return kafe2.HistContainer(n_bins=len(e) - 1, bin_range=(e[0], e[-1]), bin_edges=list(e[1:-1]), **kw)
        raise ValueError(self.ctor)

    def make_ref(self):
        r = HistRef(self.edges)
        r.fill([self.val[n] for n in self.prefill_names])
        return r

    def entry_class(self, n):
        if n in ("lo", "hi"):
            return "far"
        if n[0] == "m":
            return "mid"
        return "edge" + n[2:] if n[-1] in "+-" else "edge"


_CFG = {}


def config(name, v):
    k = (name, v % 3)
    if k not in _CFG:
        _CFG[k] = Config(name, v)
    return _CFG[k]


# ---------------------------------------------------------------------------------------
# execution of one sequence


def _do_fill(c, how, values):
    if how == "L":
        c.fill(list(values))
    elif how == "A":
        c.fill(np.array(values, dtype=float))
    elif how == "T":
        c.fill(tuple(values))
    elif how == "S":
        c.fill(values[0])
    elif how == "N":
        c.fill(np.float64(values[0]))
    else:
        raise ValueError(how)


def _read(c, name):
    """public read -> plain python value"""
    v = getattr(c, name)
    if name == "data":
        return [float(x) for x in np.asarray(v).tolist()]
    if name == "raw_data":
        return sorted(float(x) for x in v)
    return float(v)


def _expected(ref, name, cnt=None):
    under, bins, over = cnt if cnt is not None else ref.counts()
    if name == "data":
        return [float(b) for b in bins]
    if name == "underflow":
        return float(under)
    if name == "overflow":
        return float(over)
    if name == "n_entries":
        return float(len(ref.entries))
    if name == "raw_data":
        return sorted(ref.entries)
    raise KeyError(name)


def execute(cfg, cops, res=None, stop_at_first=True):
    """Run compiled ops on a fresh container.  -> (violations, observation, ref, final reference counts)
    violations: list of (position, observable, expected, actual, mode); position = index of the op (or len(cops) + k for
    the k-th final read)."""
    viol = []
    obs = []
    try:
        c = cfg.make()
    except Exception as e:  # noqa: BLE001
        return [(-1, "constructor", "no exception", "%s: %s" % (type(e).__name__, str(e)[:120]), "exception:" + type(e).__name__)], obs, None, None
    ref = cfg.make_ref()
    nev = 0
    cnt = None
    for pos, (kind, a, b) in enumerate(cops):
        try:
            if kind == 0:
                _do_fill(c, a, b)
                ref.fill(b)
            elif kind == 2:
                c.rebin(list(a))
                ref.rebin(a)
            else:
                act = _read(c, a)
                exp = _expected(ref, a)
                nev += 1
                obs.append(act)
                if act != exp:
                    viol.append((pos, a, exp, act, "wrong-value"))
                    if stop_at_first:
                        break
        except Exception as e:  # noqa: BLE001 - every generated operation is valid under the statement
            what = ("fill", "read:" + str(a), "rebin")[kind]
            viol.append((pos, "op:" + what, "no exception", "%s: %s" % (type(e).__name__, str(e)[:120]), "exception:" + type(e).__name__))
            break
    if not viol:
        cnt = ref.counts()
        got = {}
        for k, name in enumerate(FINAL_READS):
            try:
                act = _read(c, name)
            except Exception as e:  # noqa: BLE001
                viol.append((len(cops) + k, "op:read:" + name, "no exception", "%s: %s" % (type(e).__name__, str(e)[:120]), "exception:" + type(e).__name__))
                break
            exp = _expected(ref, name, cnt)
            nev += 1
            obs.append(act)
            got[name] = act
            if act != exp:
                viol.append((len(cops) + k, name, exp, act, "wrong-value"))
                if stop_at_first:
                    break
        if not viol:
            nev += 1
            tot = got["underflow"] + sum(got["data"]) + got["overflow"]
            if not (tot == got["n_entries"] == float(len(ref.entries))):
                viol.append((len(cops) + len(FINAL_READS), "underflow+sum(data)+overflow", float(len(ref.entries)), tot, "wrong-value"))
    if res is not None:
        res.evaluations += nev
        res.transitions += len(cops)
        res.executions += 1
    return viol, obs, ref, cnt


# ---------------------------------------------------------------------------------------
# enumeration


def tier_limits(tier):
    """(L_full, L_mix, L_red): sequences of length <= L_full use the full alphabet at every position, lengths up to L_mix
    allow one op outside the reduced alphabet, lengths up to L_red use the reduced alphabet only."""
    return (2, 3, 3) if tier == "quick" else (3, 3, 4)


def _maxrich(length, lim):
    if length <= lim[0]:
        return length
    if length <= lim[1]:
        return 1
    if length <= lim[2]:
        return 0
    return -1


def sequences(cfg, tier, shard):
    """All admissible sequences (tuples of indices into cfg.ops) of this shard, shorter ones first within a subtree."""
    lim = tier_limits(tier)
    lmax = max(lim)
    n = len(cfg.ops)
    rich = [0 if i in cfg.reduced else 1 for i in range(n)]

    def extendable(k, r):
        return any(r <= _maxrich(length, lim) for length in range(k + 1, lmax + 1))

    def rec(prefix, r):
        k = len(prefix)
        if r <= _maxrich(k, lim):
            yield prefix
        if k < lmax and extendable(k, r):
            for i in range(n):
                r2 = r + rich[i]
                if any(r2 <= _maxrich(length, lim) for length in range(k + 1, lmax + 1)):
                    for s in rec(prefix + (i,), r2):
                        yield s

    for i0 in range(n):
        if i0 % NSHARD == shard:
            yield (i0,)
        if lmax < 2:
            continue
        for i1 in range(n):
            if (i0 * n + i1) % NSHARD != shard:
                continue
            r = rich[i0] + rich[i1]
            if not any(r <= _maxrich(length, lim) for length in range(2, lmax + 1)):
                continue
            for s in rec((i0, i1), r):
                yield s


def count_sequences(cfg, tier):
    lim = tier_limits(tier)
    n = len(cfg.ops)
    nr = len(cfg.reduced)
    tot = 0
    for length in range(1, max(lim) + 1):
        m = _maxrich(length, lim)
        if m >= length:
            tot += n**length
        elif m == 1:
            tot += nr**length + length * (n - nr) * nr ** (length - 1)
        elif m == 0:
            tot += nr**length
    return tot


def jobs(tier, seed):
    vals = [seed % 3]
    specs = []
    for name in BINNINGS:  # small binnings first (job 0 is re-run for the determinism check)
        for v in vals:
            for sh in range(NSHARD):
                specs.append((name, v, tier, sh))
    # large binnings first in the pool, but keep a small job at index 0
    head, rest = specs[:1], specs[1:]
    rest.sort(key=lambda s: -len(config(s[0], s[1]).ops))
    return head + rest


def bound(tier, seed):
    lim = tier_limits(tier)
    n = sum(count_sequences(config(name, seed), tier) for name in BINNINGS)
    return (
        "8 binnings (single bin, zero-width inner / first / last bin, constructor-filled, uniform via n_bins+bin_range, "
        "non-uniform, inner-edge specification) x ALL operation sequences of length <= %d over the full alphabet (fills: every "
        "multiset of size <= 2 over 9-17 entry values incl. every edge and its two floating-point neighbours, empty, scalars, "
        "whole alphabet; 5 reads; 3 rebin targets)%s + all sequences of length <= %d over the reduced alphabet (single entries, "
        "duplicated edges, empty, scalar, whole alphabet, reads, rebins); %d sequences, each followed by 5 checked reads; "
        "valuation %d (affine map of edges and entries)"
        % (
            lim[0],
            (" + all sequences of length <= %d with at most one op outside the reduced alphabet" % lim[1]) if lim[1] > lim[0] else "",
            lim[2],
            n,
            seed % 3,
        )
    )


# ---------------------------------------------------------------------------------------
# violations: minimisation, signature, replay


def _symbolic(cfg, seq):
    return [list(_jsonop(cfg.ops[i])) for i in seq]


def _jsonop(op):
    return [op[0], op[1], list(op[2])] if op[0] == "fill" else [op[0], op[1]]


def _violates(cfg, sops, observable, mode):
    """symbolic ops -> True if the history shows a violation of the same observable and mode."""
    try:
        cops = [cfg.compile((o[0], o[1], tuple(o[2])) if o[0] == "fill" else tuple(o)) for o in sops]
    except (KeyError, ValueError):
        return False
    viol = execute(cfg, cops)[0]
    return any(v[1] == observable and v[4] == mode for v in viol)


def minimise(cfg, sops, observable, mode):
    sops = explore.minimise(sops, lambda h: _violates(cfg, h, observable, mode))
    # shrink the batches
    changed = True
    while changed:
        changed = False
        for i, o in enumerate(sops):
            if o[0] != "fill" or o[1] not in ("L", "A", "T") or len(o[2]) < 1:
                continue
            for j in range(len(o[2]) - 1, -1, -1):
                cand = [o[0], o[1], o[2][:j] + o[2][j + 1 :]]
                trial = sops[:i] + [cand] + sops[i + 1 :]
                if _violates(cfg, trial, observable, mode):
                    sops = trial
                    o = cand
                    changed = True
    # canonicalise: plain lists where possible, and the first entry value (in ascending order) that still violates
    for i, o in enumerate(sops):
        if o[0] != "fill":
            continue
        if o[1] != "L":
            trial = sops[:i] + [[o[0], "L", list(o[2])]] + sops[i + 1 :]
            if _violates(cfg, trial, observable, mode):
                sops = trial
                o = sops[i]
        for j in range(len(o[2])):
            for n in cfg.names:
                if n == o[2][j]:
                    break
                cand = [o[0], o[1], o[2][:j] + [n] + o[2][j + 1 :]]
                trial = sops[:i] + [cand] + sops[i + 1 :]
                if _violates(cfg, trial, observable, mode):
                    sops = trial
                    o = cand
                    break
    return explore.minimise(sops, lambda h: _violates(cfg, h, observable, mode))


def signature(cfg, sops, observable, mode):
    toks = []
    for o in sops:
        if o[0] == "fill":
            toks.append("fill%s(%s)" % ("" if o[1] == "L" else ":" + o[1], ",".join(o[2])))
        else:
            toks.append("%s:%s" % (o[0], o[1]))
    return "%s|%s|%s|%s" % (cfg.name, ";".join(toks), observable, mode)


def replay(history):
    head = history[0]
    cfg = config(head["binning"], head["v"])
    cops = [cfg.compile((o[0], o[1], tuple(o[2])) if o[0] == "fill" else tuple(o)) for o in history[1:]]
    viol = execute(cfg, cops, stop_at_first=False)[0]
    return [dict(observable=v[1], expected=v[2], actual=v[3], mode=v[4], position=v[0]) for v in viol]


# ---------------------------------------------------------------------------------------
# job


def _op_tables(cfg):
    """Per-op static information for the coverage bookkeeping."""
    edge_set = set(cfg.distinct)
    last_edge = cfg.distinct[-1]
    kind, static, ptok, akind, near_edge = [], [], [], [], []
    tokens = {}
    for op, cop in zip(cfg.ops, cfg.compiled):
        facts = []
        if op[0] == "fill":
            vals = cop[2]
            kind.append(0 if vals else 1)
            if not vals:
                facts.append("fill:empty")
            if op[1] in "SN":
                facts.append("fill:scalar")
            if op[1] == "A":
                facts.append("fill:ndarray")
            for x in vals:
                if x in edge_set:
                    facts.append("entry:on-edge")
                    if x == last_edge:
                        facts.append("entry:on-last-edge")
                    if cfg.edges.count(x) > 1:
                        facts.append("entry:on-repeated-edge")
            classes = tuple(sorted(cfg.entry_class(n) for n in op[2])) if len(op[2]) <= 2 else ("all",)
            tok = ("F", op[1], classes)
            akind.append(("F", op[1], len(op[2])))
            near_edge.append(any(cfg.entry_class(n).startswith("edge") for n in op[2]))
        else:
            kind.append(2 if op[0] == "read" else 3)
            tok = op
            akind.append(op)
            near_edge.append(False)
        static.append(facts)
        ptok.append(tokens.setdefault(tok, len(tokens)))
    return kind, static, ptok, akind, near_edge


def run_job(spec):
    name, v, tier, shard = spec
    cfg = config(name, v)
    res = JobResult()
    probe = cfg.make()
    if [float(x) for x in probe.bin_edges] != cfg.edges:
        raise RuntimeError("harness assumption broken: constructed edges %r != reference edges %r" % (list(probe.bin_edges), cfg.edges))
    seen_classes = {}
    compiled = cfg.compiled
    ops = cfg.ops
    kind, static, ptok, akind, near_edge = _op_tables(cfg)
    opcount = [0] * len(ops)
    f = res.facts
    outcomes = res.outcomes
    nseq = 0
    buf = []
    first_final = "first-read-after-fill:" + FINAL_READS[0]
    for seq in sequences(cfg, tier, shard):
        nseq += 1
        cops = [compiled[i] for i in seq]
        viol, obs, ref, cnt = execute(cfg, cops, res)
        buf.append((seq, obs))
        if len(buf) >= 512:
            res.observe((name, buf))
            buf = []
        if viol:
            pos, observable, exp, act, mode = viol[0]
            outcomes[(name, observable, mode)] += 1
            akey = (tuple(akind[i] for i in seq), pos, observable, mode)
            if akey not in seen_classes:
                sops = minimise(cfg, _symbolic(cfg, seq), observable, mode)
                sig = signature(cfg, sops, observable, mode)
                seen_classes[akey] = sig
                hist = [dict(binning=name, v=cfg.v)] + sops
                first = [a for a in replay(hist) if a["observable"] == observable and a["mode"] == mode]
                if first:
                    exp, act = first[0]["expected"], first[0]["actual"]
                res.violation(sig, hist, observable, exp, act, mode)
            continue
        # ---- coverage bookkeeping (reference side only)
        under, bins, over = cnt
        res.state_hashes.add(hash((name, tuple(ref.edges), under, tuple(bins), over)))
        outcomes[(name, "ok", "u" if under else "-", "o" if over else "-", sum(1 for b in bins if b), min(len(ref.entries), 4))] += 1
        pending = False  # a non-empty fill not yet followed by a read
        processed = False  # a read happened after some fill
        interleaved = False
        near = False
        for i in seq:
            opcount[i] += 1
            k = kind[i]
            if k == 0:
                if processed:
                    f["fill:after-read"] += 1
                    interleaved = True
                pending = True
                if near_edge[i]:
                    near = True
            elif k == 2:
                if pending:
                    f["first-read-after-fill:" + ops[i][1]] += 1
                    processed = True
                    interleaved = True
                    pending = False
            elif k == 3:
                f["rebin:" + ("pending" if pending else "processed" if processed else "empty")] += 1
                if pending or processed:
                    interleaved = True
        if pending:
            f[first_final] += 1
        if near and interleaved:
            res.nontrivial.add(hash((name, tuple(ptok[i] for i in seq))))
    if buf:
        res.observe((name, buf))
    res.max_depth = max(tier_limits(tier))
    for i, n in enumerate(opcount):
        if n:
            for k in static[i]:
                f[k] += n
    f["sequences:" + name] += nseq
    if shard == 0:
        mid = None
        for k, s in enumerate(sequences(cfg, tier, shard)):
            if k == 4321 % max(1, nseq):
                mid = s
                break
        res.sample(
            dict(
                binning=name,
                edges=cfg.edges,
                valuation=cfg.v,
                ops_full=len(cfg.ops),
                ops_reduced=len(cfg.reduced),
                entry_alphabet=len(cfg.names),
                sequences_in_shard=nseq,
                example=_symbolic(cfg, mid) if mid else [],
            ),
            cap=1,
        )
    return res.as_dict()


def triage_key(v):
    return (v["sig"].split("|")[0], v["observable"], v["mode"])


def vacuity_guards(tot, tier):
    f = tot.facts
    for name in BINNINGS:
        yield "binning %s explored" % name, f.get("sequences:" + name, 0) > 0
    for r in READS:
        yield "read %s occurs as the first read after a fill" % r, f.get("first-read-after-fill:" + r, 0) > 0
    yield "entries exactly on an edge / on the last edge / on a repeated edge filled", all(f.get(k, 0) > 0 for k in ("entry:on-edge", "entry:on-last-edge", "entry:on-repeated-edge"))
    yield "empty, scalar and ndarray batches filled", all(f.get(k, 0) > 0 for k in ("fill:empty", "fill:scalar", "fill:ndarray"))
    yield "a second fill after a read", f.get("fill:after-read", 0) > 0
    yield "rebin with pending and with processed entries", f.get("rebin:pending", 0) > 0 and f.get("rebin:processed", 0) > 0
    yield "underflow, overflow and several bins populated in the outcomes", len(tot.outcomes) > 20
