"""C12 - histogram filling counts every entry exactly once in half-open bins.

World: a real ``kafe2.HistContainer`` coupled with ``HistRef`` (the multiset of all entries filled so far and the
current edge sequence; counts by ``lo <= e < hi``, underflow ``e < first edge``, overflow ``e >= last edge``).

Exploration: bounded-exhaustive enumeration of operation sequences, every sequence replayed from scratch on a
fresh container.  Operations: ``fill(batch)`` (every multiset of size <= 2 over the entry alphabet E, the empty
batch, scalars, one batch with all of E as list and as ndarray), the five reads, ``rebin`` to three targets (the
original edges, a coarser binning, a narrower binning that starts with a zero-width bin).  Every read - inside the
sequence and in the final read phase - is compared with the reference.  State merging is not used: the container
remembers every entry in order, so distinct histories practically never reach equal private states; instead the
op alphabet is split into a *reduced* alphabet (singletons, duplicated edges, empty, scalar, full batch, reads,
rebins) used at the deepest level and the *full* alphabet used up to one level below (see ``bound``).

Second family ("ctor"): the way the binning and the initial entries are handed to the constructor is a dimension of its
own.  For every base edge sequence: every admissible constructor form (``bin_edges`` alone / with ``n_bins`` / with
``bin_range`` / with both, ``n_bins`` + ``bin_range`` where ``numpy.linspace`` is exact, inner edges + ``n_bins`` +
``bin_range``) x every container type of ``bin_edges`` (list, tuple, float ndarray, int ndarray where the edges are
integral) x every container type of ``bin_range`` (tuple, list, ndarray) x ``fill_data`` (absent, empty, the whole entry
alphabet as list / tuple / ndarray), each followed by every operation sequence of length <= 1 over the full alphabet
(thorough: also length 2 over the reduced alphabet) and the checked final reads.  All forms describe the same edge
sequence, so the reference is unchanged.  ``rebin`` takes its edges as list, tuple and ndarray as well.

The warnings filter of the caller is an environment answer of its own: every read also exists as a read with warnings escalated to
errors (``python -W error`` / ``warnings.simplefilter("error")``: the container warns when all pending entries are whole numbers, so
such a read may end with a raised ``Warning`` instead of a value) and as a read with every warning recorded (``"always"``).  A read
that returns is compared as usual; a read that raises a ``Warning`` is an accepted answer that must leave the contents untouched:
every later read - inside the sequence and in the final read phase (ordinary filter) - is compared with the unchanged reference.
"""
import collections
import itertools
import warnings

import numpy as np

from kmc import explore
from kmc.core import JobResult

PROPERTY = "C12"
RULE = (
    "executions = (binning, operation sequence) replayed from scratch on a fresh HistContainer; ops = fill(batch) for every "
    "multiset of size <= 2 over the entry alphabet (all edges, their nextafter neighbours, mid-points, far below/above) + empty "
    "batch + scalars + one batch with the whole alphabet, reads of data/underflow/overflow/n_entries/raw_data, rebin to 3 "
    "targets (edges as list; as tuple / ndarray outside the reduced alphabet); second family: every constructor form x "
    "container type of bin_edges x container type of bin_range x fill_data form, followed by every sequence of length <= 1; "
    "every read also under the warnings filters 'error' (a raised Warning is an accepted answer of that read, the reference is unchanged) and 'always' (recorded); "
    "every read inside the sequence and 5 final reads (underflow first) are compared with the multiset reference, "
    "plus underflow + sum(data) + overflow == n_entries == number filled.  states = distinct reference states (binning, "
    "current edges, count vector, number of entries); non-trivial case = distinct (binning, op pattern with each entry "
    "abstracted to edge / just-below / just-above / interior / far) that fills >= 1 entry on or adjacent to an edge and has a "
    "read or rebin before a later op; in the constructor family: distinct (binning, constructor variant, op pattern) with >= 1 "
    "entry on or adjacent to an edge"
)
ASSUMPTIONS = [
    "edges and entries are exactly representable doubles (multiples of 1/16 after the affine map of the valuation), so the reference edge sequence is the implementation's bit for bit; n_bins/bin_range construction is used only where numpy.linspace is exact",
    "a zero-width bin [a, a) is empty: an entry equal to a repeated edge belongs to the next non-empty bin, or to the overflow when the repeated edge is the last one",
    "raw_data is compared as a multiset (the statement does not fix an order)",
    "finite entries only; set_bins (manual heights) is not part of the statement and is not generated",
    "rebin changes the number of bins freely (no uncertainty sources are declared in this check)",
    "a read issued while warnings are escalated to errors may raise an exception that is a Warning (the container's note about whole-number entries) instead of returning; nothing else about it is prescribed, but like any read it must not change what later reads return; fills and rebins never process entries and are issued under the ordinary filter",
    "constructor forms: bin_edges / bin_range / fill_data are sized containers (list, tuple, ndarray) of exactly representable numbers; the inner-edge form is generated with at least one inner edge; all forms of one binning denote the same full edge sequence [low] + inner + [high]; the caller's containers are not modified afterwards (no aliasing question is asked)",
]

READS = ("data", "underflow", "overflow", "n_entries", "raw_data")
READ_FILTERS = collections.OrderedDict([("E", "error"), ("R", "always")])  # warnings filter in effect during a read (none: the caller's)
FINAL_READS = ("underflow", "overflow", "n_entries", "raw_data", "data")
VALUATIONS = ((1.0, 0.0), (2.0, -1.5), (0.25, 10.0))  # affine maps x -> s x + t, exact in binary floating point
NSHARD = 16
CTOR = -1  # shard number of the constructor-family job of a binning

CTOR_FORMS = ("edges", "edges+n", "edges+range", "edges+n+range", "range", "inner")
EDGE_TYPES = ("L", "T", "A", "I")  # list / tuple / float ndarray / int ndarray (integral edges only)
RANGE_TYPES = ("T", "L", "A")
FILL_TYPES = ("-", "E", "L", "T", "A")  # no fill_data / empty list / whole alphabet as list, tuple, ndarray


def _container(how, values):
    if how == "L":
        return [float(x) for x in values]
    if how == "T":
        return tuple(float(x) for x in values)
    if how == "A":
        return np.array([float(x) for x in values], dtype=float)
    if how == "I":
        return np.array([int(x) for x in values], dtype=np.int64)
    raise ValueError(how)

# name -> (base edges, constructor form, prefill)
BINNINGS = collections.OrderedDict(
    [
        ("single", ([0.0, 1.0], "edges", False)),
        ("zero-inner", ([0.0, 1.0, 1.0, 2.0], "edges+n", False)),
        ("zero-first", ([0.0, 0.0, 1.0, 2.0], "edges", False)),
        ("zero-last", ([0.0, 1.0, 2.0, 2.0], "edges", False)),
        ("prefilled", ([0.0, 1.0, 2.0], "edges", True)),
        ("uniform", ([0.0, 1.0, 2.0, 3.0], "range", False)),
        ("nonuniform", ([-1.0, 0.5, 0.75, 3.0], "edges", False)),
        ("inner", ([0.0, 1.0, 2.5, 3.0], "inner", False)),
    ]
)


# ---------------------------------------------------------------------------------------
# reference model


class HistRef(object):
    """Plain-python reference: the multiset of entries and the current edges."""

    def __init__(self, edges):
        self.edges = [float(e) for e in edges]
        self.entries = []

    def fill(self, values):
        self.entries.extend(values)

    def rebin(self, edges):
        self.edges = [float(e) for e in edges]

    def counts(self):
        ed = self.edges
        n = len(ed) - 1
        under = over = 0
        bins = [0] * n
        for e in self.entries:
            if e < ed[0]:
                under += 1
            if e >= ed[-1]:
                over += 1
            for i in range(n):
                if ed[i] <= e < ed[i + 1]:
                    bins[i] += 1
        # sanity of the reference itself: every entry is in exactly one class for ascending edges
        assert under + over + sum(bins) == len(self.entries), "reference partition broken"
        return under, bins, over


# ---------------------------------------------------------------------------------------
# configuration: binning + valuation -> alphabets


class Config(object):
    def __init__(self, name, v):
        base, ctor, prefill = BINNINGS[name]
        s, t = VALUATIONS[v % 3]
        self.name, self.v, self.ctor, self.prefill = name, v % 3, ctor, prefill
        self.edges = [s * e + t for e in base]
        d = sorted(set(self.edges))  # distinct edge values
        self.distinct = d
        val = collections.OrderedDict()
        val["lo"] = d[0] - 1.0e6
        for i, e in enumerate(d):
            val["e%d-" % i] = float(np.nextafter(e, -np.inf))
            val["e%d" % i] = e
            val["e%d+" % i] = float(np.nextafter(e, np.inf))
            if i + 1 < len(d):
                val["m%d" % i] = 0.5 * (e + d[i + 1])
        val["hi"] = d[-1] + 1.0e6
        self.val = val  # ordered by value
        assert list(val.values()) == sorted(val.values()) and len(set(val.values())) == len(val)
        self.names = list(val)
        # rebin targets: original / coarser (second edge dropped) / narrower with a leading zero-width bin
        e = self.edges
        if len(d) == 2:
            t1 = [d[0], d[0], d[1]]
            t2 = [d[1], d[1]]
        else:
            t1 = [e[0]] + e[2:]
            t2 = [d[1], d[1], e[-1]]
        self.targets = collections.OrderedDict([("T0", list(e)), ("T1", t1), ("T2", t2)])
        for tg in self.targets.values():
            assert all(x in d for x in tg) and all(b >= a for a, b in zip(tg[:-1], tg[1:]))
        self.prefill_names = list(self.names) if prefill else []
        self._build_ops()

    def _build_ops(self):
        """ops: symbolic tuples; self.ops = full alphabet, self.reduced = set of indices of the reduced alphabet."""
        names, d = self.names, self.distinct
        edge_names = ["e%d" % i for i in range(len(d))]
        ops, red = [], set()

        def add(op, reduced):
            if reduced:
                red.add(len(ops))
            ops.append(op)

        for r in READS:
            add(("read", r), True)
        for flt in READ_FILTERS:  # the same reads under another warnings filter
            for r in READS:
                add(("read", r, flt), flt == "E" and r == "data")
        for tg in self.targets:
            add(("rebin", tg), True)
        for tg in self.targets:  # container type of the new edges
            add(("rebin", tg, "T"), False)
            add(("rebin", tg, "A"), False)
        add(("fill", "L", ()), True)  # empty batch
        add(("fill", "A", ()), False)  # empty ndarray
        for n in names:
            add(("fill", "L", (n,)), True)
        for a, b in itertools.combinations_with_replacement(names, 2):
            add(("fill", "L", (b, a)), a == b and a in edge_names)  # deliberately unsorted inside the batch
        for n in edge_names:
            add(("fill", "S", (n,)), n == edge_names[-1])  # python float scalar
        add(("fill", "N", ("m0",)), False)  # numpy scalar
        add(("fill", "L", tuple(reversed(names))), True)  # the whole alphabet, descending
        add(("fill", "A", tuple(names[1::2] + names[0::2])), False)  # the whole alphabet as ndarray, interleaved
        add(("fill", "T", (edge_names[0], edge_names[-1])), False)  # tuple: first and last edge
        self.ops = ops
        self.reduced = red
        self.compiled = [self.compile(op) for op in ops]

    def compile(self, op):
        """symbolic op -> (kind, a, b) with concrete values"""
        op = tuple(op)
        if op[0] == "read":
            if len(op) > 2 and op[2] not in READ_FILTERS:
                raise ValueError(op)
            return (1, op[1], op[2] if len(op) > 2 else None)
        if op[0] == "rebin":
            how = op[2] if len(op) > 2 else "L"
            if how not in ("L", "T", "A"):
                raise ValueError(op)
            return (2, list(self.targets[op[1]]), how)
        if op[0] == "fill":
            return (0, op[1], [self.val[n] for n in op[2]])
        raise ValueError(op)

    def ctor_variants(self):
        """Every admissible way to hand this edge sequence and the initial entries to the constructor:
        (form, container type of bin_edges or '-', container type of bin_range or '-', fill_data form)."""
        e = self.edges
        integral = all(float(x).is_integer() for x in e)
        out = []
        for form in CTOR_FORMS:
            if form == "range" and [float(x) for x in np.linspace(e[0], e[-1], len(e))] != e:
                continue  # n_bins + bin_range cannot express this binning
            if form == "inner" and len(e) < 3:
                continue
            etypes = ("-",) if form == "range" else tuple(t for t in EDGE_TYPES if t != "I" or integral)
            rtypes = ("-",) if form in ("edges", "edges+n") else RANGE_TYPES
            for et in etypes:
                for rt in rtypes:
                    for ft in FILL_TYPES:
                        out.append((form, et, rt, ft))
        return out

    def variant_fill(self, variant):
        """names of the entries passed as fill_data by this constructor variant"""
        ft = variant[3]
        if ft == "L":
            return list(reversed(self.names))
        if ft == "T":
            return list(self.names)
        if ft == "A":
            return self.names[1::2] + self.names[0::2]
        if ft in ("-", "E"):
            return []
        raise ValueError(ft)

    def make_variant(self, variant):
        import kafe2

        form, et, rt, ft = variant
        if form not in CTOR_FORMS or tuple(variant) not in self.ctor_variants():
            raise ValueError(variant)
        e = self.edges
        kw = {}
        if form != "range":
            kw["bin_edges"] = _container(et, e[1:-1] if form == "inner" else e)
        if form in ("edges+n", "edges+n+range", "range", "inner"):
            kw["n_bins"] = len(e) - 1
        if form in ("edges+range", "edges+n+range", "range", "inner"):
            kw["bin_range"] = _container(rt, (e[0], e[-1]))
        if ft != "-":
            kw["fill_data"] = _container("L" if ft == "E" else ft, [self.val[n] for n in self.variant_fill(variant)])
        return kafe2.HistContainer(**kw)

    def make(self, variant=None):
        import kafe2

        if variant is not None:
            return self.make_variant(tuple(variant))
        e = self.edges
        kw = {}
        if self.prefill:
            kw["fill_data"] = [self.val[n] for n in self.prefill_names]
        if self.ctor == "edges":
            return kafe2.HistContainer(bin_edges=list(e), **kw)
        if self.ctor == "edges+n":
            return kafe2.HistContainer(n_bins=len(e) - 1, bin_range=(e[0], e[-1]), bin_edges=list(e), **kw)
        if self.ctor == "range":
            return kafe2.HistContainer(n_bins=len(e) - 1, bin_range=(e[0], e[-1]), **kw)
        if self.ctor == "inner":
            return kafe2.HistContainer(n_bins=len(e) - 1, bin_range=(e[0], e[-1]), bin_edges=list(e[1:-1]), **kw)
        raise ValueError(self.ctor)

    def make_ref(self, variant=None):
        r = HistRef(self.edges)
        r.fill([self.val[n] for n in (self.prefill_names if variant is None else self.variant_fill(variant))])
        return r

    def entry_class(self, n):
        if n in ("lo", "hi"):
            return "far"
        if n[0] == "m":
            return "mid"
        return "edge" + n[2:] if n[-1] in "+-" else "edge"


_CFG = {}


def config(name, v):
    k = (name, v % 3)
    if k not in _CFG:
        _CFG[k] = Config(name, v)
    return _CFG[k]


# ---------------------------------------------------------------------------------------
# execution of one sequence


def _do_fill(c, how, values):
    if how == "L":
        c.fill(list(values))
    elif how == "A":
        c.fill(np.array(values, dtype=float))
    elif how == "T":
        c.fill(tuple(values))
    elif how == "S":
        c.fill(values[0])
    elif how == "N":
        c.fill(np.float64(values[0]))
    else:
        raise ValueError(how)


def _read(c, name):
    """public read -> plain python value"""
    v = getattr(c, name)
    if name == "data":
        return [float(x) for x in np.asarray(v).tolist()]
    if name == "raw_data":
        return sorted(float(x) for x in v)
    return float(v)


def _read_filtered(c, name, flt):
    """the same read while the warnings filter `flt` is in effect ('E': warnings are errors, 'R': every warning is recorded)"""
    with warnings.catch_warnings(record=(flt == "R")):
        warnings.simplefilter(READ_FILTERS[flt])
        return _read(c, name)


def _expected(ref, name, cnt=None):
    under, bins, over = cnt if cnt is not None else ref.counts()
    if name == "data":
        return [float(b) for b in bins]
    if name == "underflow":
        return float(under)
    if name == "overflow":
        return float(over)
    if name == "n_entries":
        return float(len(ref.entries))
    if name == "raw_data":
        return sorted(ref.entries)
    raise KeyError(name)


def execute(cfg, cops, res=None, stop_at_first=True, variant=None):
    """Run compiled ops on a fresh container.  -> (violations, observation, ref, final reference counts)
    violations: list of (position, observable, expected, actual, mode); position = index of the op (or len(cops) + k for
    the k-th final read)."""
    viol = []
    obs = []
    try:
        c = cfg.make(variant)
    except Exception as e:  # noqa: BLE001
        return [(-1, "constructor", "no exception", "%s: %s" % (type(e).__name__, str(e)[:120]), "exception:" + type(e).__name__)], obs, None, None
    ref = cfg.make_ref(variant)
    nev = 0
    cnt = None
    failed = []  # positions of the reads that ended with a raised Warning (error filter)
    for pos, (kind, a, b) in enumerate(cops):
        try:
            if kind == 1 and b is not None:
                try:
                    act = _read_filtered(c, a, b)
                except Warning as w:
                    if b != "E":
                        raise
                    failed.append(pos)
                    obs.append("raised:" + type(w).__name__)  # an accepted answer; the reference does not change
                    continue
                exp = _expected(ref, a)
                nev += 1
                obs.append(act)
                if failed and res is not None:
                    res.facts["read-after-failed-read:in-sequence"] += 1
                if act != exp:
                    viol.append((pos, a, exp, act, "wrong-value"))
                    if stop_at_first:
                        break
            elif kind == 0:
                _do_fill(c, a, b)
                ref.fill(b)
            elif kind == 2:
                c.rebin(_container(b, a))
                ref.rebin(a)
            else:
                act = _read(c, a)
                exp = _expected(ref, a)
                nev += 1
                obs.append(act)
                if failed and res is not None:
                    res.facts["read-after-failed-read:in-sequence"] += 1
                if act != exp:
                    viol.append((pos, a, exp, act, "wrong-value"))
                    if stop_at_first:
                        break
        except Exception as e:  # noqa: BLE001 - every generated operation is valid under the statement
            what = ("fill", "read:" + str(a) + ("" if kind != 1 or b is None else ":" + b), "rebin")[kind]
            viol.append((pos, "op:" + what, "no exception", "%s: %s" % (type(e).__name__, str(e)[:120]), "exception:" + type(e).__name__))
            break
    if not viol:
        cnt = ref.counts()
        got = {}
        for k, name in enumerate(FINAL_READS):
            try:
                act = _read(c, name)
            except Exception as e:  # noqa: BLE001
                viol.append((len(cops) + k, "op:read:" + name, "no exception", "%s: %s" % (type(e).__name__, str(e)[:120]), "exception:" + type(e).__name__))
                break
            exp = _expected(ref, name, cnt)
            nev += 1
            obs.append(act)
            got[name] = act
            if act != exp:
                viol.append((len(cops) + k, name, exp, act, "wrong-value"))
                if stop_at_first:
                    break
        if not viol:
            nev += 1
            tot = got["underflow"] + sum(got["data"]) + got["overflow"]
            if not (tot == got["n_entries"] == float(len(ref.entries))):
                viol.append((len(cops) + len(FINAL_READS), "underflow+sum(data)+overflow", float(len(ref.entries)), tot, "wrong-value"))
    if res is not None:
        if failed:
            res.facts["read-under-error-filter:raised"] += len(failed)
            if len(failed) > 1:
                res.facts["read-under-error-filter:raised-more-than-once"] += 1
            if not viol:  # (the final reads were all made)
                res.facts["read-after-failed-read:final"] += 1
                if failed[-1] == len(cops) - 1:
                    res.facts["read-after-failed-read:directly"] += 1
        res.evaluations += nev
        res.transitions += len(cops)
        res.executions += 1
    return viol, obs, ref, cnt


# ---------------------------------------------------------------------------------------
# enumeration


def tier_limits(tier):
    """(L_full, L_mix, L_red): sequences of length <= L_full use the full alphabet at every position, lengths up to L_mix
    allow one op outside the reduced alphabet, lengths up to L_red use the reduced alphabet only."""
    return (2, 3, 3) if tier == "quick" else (3, 3, 4)


def _maxrich(length, lim):
    if length <= lim[0]:
        return length
    if length <= lim[1]:
        return 1
    if length <= lim[2]:
        return 0
    return -1


def sequences(cfg, tier, shard):
    """All admissible sequences (tuples of indices into cfg.ops) of this shard, shorter ones first within a subtree."""
    lim = tier_limits(tier)
    lmax = max(lim)
    n = len(cfg.ops)
    rich = [0 if i in cfg.reduced else 1 for i in range(n)]

    def extendable(k, r):
        return any(r <= _maxrich(length, lim) for length in range(k + 1, lmax + 1))

    def rec(prefix, r):
        k = len(prefix)
        if r <= _maxrich(k, lim):
            yield prefix
        if k < lmax and extendable(k, r):
            for i in range(n):
                r2 = r + rich[i]
                if any(r2 <= _maxrich(length, lim) for length in range(k + 1, lmax + 1)):
                    for s in rec(prefix + (i,), r2):
                        yield s

    for i0 in range(n):
        if i0 % NSHARD == shard:
            yield (i0,)
        if lmax < 2:
            continue
        for i1 in range(n):
            if (i0 * n + i1) % NSHARD != shard:
                continue
            r = rich[i0] + rich[i1]
            if not any(r <= _maxrich(length, lim) for length in range(2, lmax + 1)):
                continue
            for s in rec((i0, i1), r):
                yield s


def count_sequences(cfg, tier):
    lim = tier_limits(tier)
    n = len(cfg.ops)
    nr = len(cfg.reduced)
    tot = 0
    for length in range(1, max(lim) + 1):
        m = _maxrich(length, lim)
        if m >= length:
            tot += n**length
        elif m == 1:
            tot += nr**length + length * (n - nr) * nr ** (length - 1)
        elif m == 0:
            tot += nr**length
    return tot


def ctor_sequences(cfg, tier):
    """Op sequences run after every constructor variant: all of length <= 1 over the full alphabet; thorough: also all of
    length 2 over the reduced alphabet."""
    yield ()
    n = len(cfg.ops)
    for i in range(n):
        yield (i,)
    if tier != "quick":
        red = sorted(cfg.reduced)
        for i in red:
            for j in red:
                yield (i, j)


def count_ctor(cfg, tier):
    return len(cfg.ctor_variants()) * (1 + len(cfg.ops) + (len(cfg.reduced) ** 2 if tier != "quick" else 0))


def jobs(tier, seed):
    vals = [seed % 3]
    specs = []
    for name in BINNINGS:  # small binnings first (job 0 is re-run for the determinism check)
        for v in vals:
            for sh in range(NSHARD):
                specs.append((name, v, tier, sh))
    # large binnings first in the pool, but keep a small job at index 0
    head, rest = specs[:1], specs[1:]
    rest.sort(key=lambda s: -len(config(s[0], s[1]).ops))
    ctor = [(name, v, tier, CTOR) for name in BINNINGS for v in vals]
    ctor.sort(key=lambda s: -count_ctor(config(s[0], s[1]), tier))
    if tier != "quick":  # the constructor family is the longer job there
        return head + ctor + rest
    return head + rest + ctor


def bound(tier, seed):
    lim = tier_limits(tier)
    n = sum(count_sequences(config(name, seed), tier) for name in BINNINGS)
    nv = sum(len(config(name, seed).ctor_variants()) for name in BINNINGS)
    nc = sum(count_ctor(config(name, seed), tier) for name in BINNINGS)
    return _bound_main(lim, n, seed) + (
        "; constructor family: the same 8 edge sequences x every admissible constructor form (bin_edges alone / + n_bins / + "
        "bin_range / + both, n_bins + bin_range, inner edges + n_bins + bin_range) x container type of bin_edges (list, tuple, "
        "float ndarray, int ndarray) x container type of bin_range (tuple, list, ndarray) x fill_data (absent, empty, whole "
        "alphabet as list / tuple / ndarray) = %d variants x all sequences of length <= 1 over the full alphabet%s; %d executions"
        % (nv, "" if tier == "quick" else " and of length 2 over the reduced alphabet", nc)
    )


def _bound_main(lim, n, seed):
    return (
        "8 binnings (single bin, zero-width inner / first / last bin, constructor-filled, uniform via n_bins+bin_range, "
        "non-uniform, inner-edge specification) x ALL operation sequences of length <= %d over the full alphabet (fills: every "
        "multiset of size <= 2 over 9-17 entry values incl. every edge and its two floating-point neighbours, empty, scalars, "
        "whole alphabet; 5 reads x warnings filter {the caller's, 'error' (a raised Warning is an accepted answer), 'always'}; 3 rebin targets)%s + all sequences of length <= %d over the reduced alphabet (single entries, "
        "duplicated edges, empty, scalar, whole alphabet, reads, the read of data under the 'error' filter, rebins); %d sequences, each followed by 5 checked reads; "
        "valuation %d (affine map of edges and entries)"
        % (
            lim[0],
            (" + all sequences of length <= %d with at most one op outside the reduced alphabet" % lim[1]) if lim[1] > lim[0] else "",
            lim[2],
            n,
            seed % 3,
        )
    )


# ---------------------------------------------------------------------------------------
# violations: minimisation, signature, replay


def _symbolic(cfg, seq):
    return [list(_jsonop(cfg.ops[i])) for i in seq]


def _jsonop(op):
    return [op[0], op[1], list(op[2])] if op[0] == "fill" else list(op)


def _violates(cfg, sops, observable, mode, variant=None):
    """symbolic ops -> True if the history shows a violation of the same observable and mode."""
    try:
        cops = [cfg.compile((o[0], o[1], tuple(o[2])) if o[0] == "fill" else tuple(o)) for o in sops]
        viol = execute(cfg, cops, variant=variant)[0]
    except (KeyError, ValueError):
        return False
    return any(v[1] == observable and v[4] == mode for v in viol)


def minimise_variant(cfg, sops, observable, mode, variant):
    """Canonical constructor variant: per component the first value (in alphabet order, plainest first) that still violates
    with the given ops; then the ops are minimised again.  -> (variant, sops)"""
    variant = tuple(variant)
    admissible = set(cfg.ctor_variants())
    for k, alphabet in ((3, FILL_TYPES), (2, ("-",) + RANGE_TYPES), (1, ("-",) + EDGE_TYPES), (0, CTOR_FORMS)):
        for a in alphabet:
            if a == variant[k]:
                break
            cand = variant[:k] + (a,) + variant[k + 1 :]
            if cand in admissible and _violates(cfg, sops, observable, mode, cand):
                variant = cand
                break
    return variant, minimise(cfg, sops, observable, mode, variant)


def minimise(cfg, sops, observable, mode, variant=None):
    if variant is None:
        return _minimise(cfg, sops, observable, mode, _violates)
    return _minimise(cfg, sops, observable, mode, lambda c, h, o, m: _violates(c, h, o, m, variant))


def _minimise(cfg, sops, observable, mode, _violates):
    sops = explore.minimise(sops, lambda h: _violates(cfg, h, observable, mode))
    # shrink the batches
    changed = True
    while changed:
        changed = False
        for i, o in enumerate(sops):
            if o[0] != "fill" or o[1] not in ("L", "A", "T") or len(o[2]) < 1:
                continue
            for j in range(len(o[2]) - 1, -1, -1):
                cand = [o[0], o[1], o[2][:j] + o[2][j + 1 :]]
                trial = sops[:i] + [cand] + sops[i + 1 :]
                if _violates(cfg, trial, observable, mode):
                    sops = trial
                    o = cand
                    changed = True
    # canonicalise: plain lists where possible, and the first entry value (in ascending order) that still violates
    for i, o in enumerate(sops):
        if o[0] in ("rebin", "read") and len(o) > 2:  # plain edge list / the caller's warnings filter where possible
            trial = sops[:i] + [[o[0], o[1]]] + sops[i + 1 :]
            if _violates(cfg, trial, observable, mode):
                sops = trial
        if o[0] != "fill":
            continue
        if o[1] != "L":
            trial = sops[:i] + [[o[0], "L", list(o[2])]] + sops[i + 1 :]
            if _violates(cfg, trial, observable, mode):
                sops = trial
                o = sops[i]
        for j in range(len(o[2])):
            for n in cfg.names:
                if n == o[2][j]:
                    break
                cand = [o[0], o[1], o[2][:j] + [n] + o[2][j + 1 :]]
                trial = sops[:i] + [cand] + sops[i + 1 :]
                if _violates(cfg, trial, observable, mode):
                    sops = trial
                    o = cand
                    break
    return explore.minimise(sops, lambda h: _violates(cfg, h, observable, mode))


def signature(cfg, sops, observable, mode, variant=None):
    toks = []
    for o in sops:
        if o[0] == "fill":
            toks.append("fill%s(%s)" % ("" if o[1] == "L" else ":" + o[1], ",".join(o[2])))
        else:
            toks.append(":".join(o))
    head = cfg.name if variant is None else "%s[%s]" % (cfg.name, ",".join(variant))
    return "%s|%s|%s|%s" % (head, ";".join(toks), observable, mode)


def replay(history):
    head = history[0]
    cfg = config(head["binning"], head["v"])
    cops = [cfg.compile((o[0], o[1], tuple(o[2])) if o[0] == "fill" else tuple(o)) for o in history[1:]]
    viol = execute(cfg, cops, stop_at_first=False, variant=tuple(head["ctor"]) if head.get("ctor") else None)[0]
    return [dict(observable=v[1], expected=v[2], actual=v[3], mode=v[4], position=v[0]) for v in viol]


# ---------------------------------------------------------------------------------------
# job


def _op_tables(cfg):
    """Per-op static information for the coverage bookkeeping."""
    edge_set = set(cfg.distinct)
    last_edge = cfg.distinct[-1]
    kind, static, ptok, akind, near_edge = [], [], [], [], []
    tokens = {}
    for op, cop in zip(cfg.ops, cfg.compiled):
        facts = []
        if op[0] == "fill":
            vals = cop[2]
            kind.append(0 if vals else 1)
            if not vals:
                facts.append("fill:empty")
            if op[1] in "SN":
                facts.append("fill:scalar")
            if op[1] == "A":
                facts.append("fill:ndarray")
            for x in vals:
                if x in edge_set:
                    facts.append("entry:on-edge")
                    if x == last_edge:
                        facts.append("entry:on-last-edge")
                    if cfg.edges.count(x) > 1:
                        facts.append("entry:on-repeated-edge")
            classes = tuple(sorted(cfg.entry_class(n) for n in op[2])) if len(op[2]) <= 2 else ("all",)
            tok = ("F", op[1], classes)
            akind.append(("F", op[1], len(op[2])))
            near_edge.append(any(cfg.entry_class(n).startswith("edge") for n in op[2]))
        else:
            kind.append(2 if op[0] == "read" else 3)
            tok = op
            akind.append(op)
            near_edge.append(False)
        static.append(facts)
        ptok.append(tokens.setdefault(tok, len(tokens)))
    return kind, static, ptok, akind, near_edge


def run_ctor_job(spec):
    """Constructor family of one binning: every constructor variant x every short op sequence."""
    name, v, tier, _ = spec
    cfg = config(name, v)
    res = JobResult()
    compiled = cfg.compiled
    kind, static, ptok, akind, near_edge = _op_tables(cfg)
    f, outcomes = res.facts, res.outcomes
    seqs = list(ctor_sequences(cfg, tier))
    seen_classes, seen_sigs = set(), set()
    nexe = 0
    for variant in cfg.ctor_variants():
        form, et, rt, ft = variant
        prefilled = ft in ("L", "T", "A")
        buf = []
        nbad = 0
        for seq in seqs:
            nexe += 1
            cops = [compiled[i] for i in seq]
            viol, obs, ref, cnt = execute(cfg, cops, res, variant=variant)
            buf.append((seq, obs))
            if viol:
                nbad += 1
                pos, observable, exp, act, mode = viol[0]
                outcomes[(name, "ctor", observable, mode)] += 1
                akey = (variant, tuple(akind[i] for i in seq), pos, observable, mode)
                if akey in seen_classes or nbad > 64:  # one constructor variant that is wrong fails every sequence
                    continue
                seen_classes.add(akey)
                var, sops = minimise_variant(cfg, _symbolic(cfg, seq), observable, mode, variant)
                sig = signature(cfg, sops, observable, mode, var)
                if sig in seen_sigs:
                    continue
                seen_sigs.add(sig)
                hist = [dict(binning=name, v=cfg.v, ctor=list(var))] + sops
                first = [a for a in replay(hist) if a["observable"] == observable and a["mode"] == mode]
                if first:
                    exp, act = first[0]["expected"], first[0]["actual"]
                res.violation(sig, hist, observable, exp, act, mode)
                continue
            under, bins, over = cnt
            res.state_hashes.add(hash((name, tuple(ref.edges), under, tuple(bins), over)))
            outcomes[(name, "ctor", form, "u" if under else "-", "o" if over else "-", sum(1 for b in bins if b))] += 1
            for i in seq:
                if kind[i] == 0 and prefilled:
                    f["fill:after-fill_data"] += 1
                elif kind[i] == 3:
                    f["rebin:after-ctor:" + form] += 1
            if prefilled or any(near_edge[i] for i in seq):
                res.nontrivial.add(hash((name, variant, tuple(ptok[i] for i in seq))))
        res.observe((name, variant, buf))
        f["ctor:form:" + form] += 1
        f["ctor:%s:edges:%s" % (form, et)] += 1
        f["ctor:range:" + rt] += 1
        f["ctor:fill_data:" + ft] += 1
    res.max_depth = max(len(s) for s in seqs)
    f["ctor-executions:" + name] += nexe
    res.sample(dict(binning=name, edges=cfg.edges, valuation=cfg.v, family="ctor", variants=len(cfg.ctor_variants()), sequences_per_variant=len(seqs)), cap=1)
    return res.as_dict()


def run_job(spec):
    name, v, tier, shard = spec
    if shard == CTOR:
        return run_ctor_job(spec)
    cfg = config(name, v)
    res = JobResult()
    probe = cfg.make()
    if [float(x) for x in probe.bin_edges] != cfg.edges:
        raise RuntimeError("harness assumption broken: constructed edges %r != reference edges %r" % (list(probe.bin_edges), cfg.edges))
    seen_classes = {}
    compiled = cfg.compiled
    ops = cfg.ops
    kind, static, ptok, akind, near_edge = _op_tables(cfg)
    opcount = [0] * len(ops)
    f = res.facts
    outcomes = res.outcomes
    nseq = 0
    buf = []
    first_final = "first-read-after-fill:" + FINAL_READS[0]
    for seq in sequences(cfg, tier, shard):
        nseq += 1
        cops = [compiled[i] for i in seq]
        viol, obs, ref, cnt = execute(cfg, cops, res)
        buf.append((seq, obs))
        if len(buf) >= 512:
            res.observe((name, buf))
            buf = []
        if viol:
            pos, observable, exp, act, mode = viol[0]
            outcomes[(name, observable, mode)] += 1
            akey = (tuple(akind[i] for i in seq), pos, observable, mode)
            if akey not in seen_classes:
                sops = minimise(cfg, _symbolic(cfg, seq), observable, mode)
                sig = signature(cfg, sops, observable, mode)
                seen_classes[akey] = sig
                hist = [dict(binning=name, v=cfg.v)] + sops
                first = [a for a in replay(hist) if a["observable"] == observable and a["mode"] == mode]
                if first:
                    exp, act = first[0]["expected"], first[0]["actual"]
                res.violation(sig, hist, observable, exp, act, mode)
            continue
        # ---- coverage bookkeeping (reference side only)
        under, bins, over = cnt
        res.state_hashes.add(hash((name, tuple(ref.edges), under, tuple(bins), over)))
        outcomes[(name, "ok", "u" if under else "-", "o" if over else "-", sum(1 for b in bins if b), min(len(ref.entries), 4))] += 1
        pending = False  # a non-empty fill not yet followed by a read
        processed = False  # a read happened after some fill
        interleaved = False
        near = False
        for i in seq:
            opcount[i] += 1
            k = kind[i]
            if k == 0:
                if processed:
                    f["fill:after-read"] += 1
                    interleaved = True
                pending = True
                if near_edge[i]:
                    near = True
            elif k == 2 and len(ops[i]) > 2 and ops[i][2] == "E":
                # (whether such a read processes the pending entries is its own business: it may raise instead)
                f["read-under-error-filter:" + ("entries-pending" if pending else "nothing-pending")] += 1
            elif k == 2:
                if len(ops[i]) > 2:
                    f["read-under-filter:" + READ_FILTERS[ops[i][2]]] += 1
                if pending:
                    f["first-read-after-fill:" + ops[i][1]] += 1
                    processed = True
                    interleaved = True
                    pending = False
            elif k == 3:
                f["rebin:" + ("pending" if pending else "processed" if processed else "empty")] += 1
                if len(ops[i]) > 2:
                    f["rebin:edges-as:" + ops[i][2]] += 1
                if pending or processed:
                    interleaved = True
        if pending:
            f[first_final] += 1
        if near and interleaved:
            res.nontrivial.add(hash((name, tuple(ptok[i] for i in seq))))
    if buf:
        res.observe((name, buf))
    res.max_depth = max(tier_limits(tier))
    for i, n in enumerate(opcount):
        if n:
            for k in static[i]:
                f[k] += n
    f["sequences:" + name] += nseq
    if shard == 0:
        mid = None
        for k, s in enumerate(sequences(cfg, tier, shard)):
            if k == 4321 % max(1, nseq):
                mid = s
                break
        res.sample(
            dict(
                binning=name,
                edges=cfg.edges,
                valuation=cfg.v,
                ops_full=len(cfg.ops),
                ops_reduced=len(cfg.reduced),
                entry_alphabet=len(cfg.names),
                sequences_in_shard=nseq,
                example=_symbolic(cfg, mid) if mid else [],
            ),
            cap=1,
        )
    return res.as_dict()


def triage_key(v):
    return (v["sig"].split("|")[0], v["observable"], v["mode"])


def vacuity_guards(tot, tier):
    f = tot.facts
    for name in BINNINGS:
        yield "binning %s explored" % name, f.get("sequences:" + name, 0) > 0
    for r in READS:
        yield "read %s occurs as the first read after a fill" % r, f.get("first-read-after-fill:" + r, 0) > 0
    yield "entries exactly on an edge / on the last edge / on a repeated edge filled", all(f.get(k, 0) > 0 for k in ("entry:on-edge", "entry:on-last-edge", "entry:on-repeated-edge"))
    yield "empty, scalar and ndarray batches filled", all(f.get(k, 0) > 0 for k in ("fill:empty", "fill:scalar", "fill:ndarray"))
    yield "a second fill after a read", f.get("fill:after-read", 0) > 0
    yield "reads under the 'error' and the 'always' warnings filter, with and without pending entries", all(
        f.get(k, 0) > 0 for k in ("read-under-error-filter:entries-pending", "read-under-error-filter:nothing-pending", "read-under-filter:always")
    )
    yield "reads that raised a Warning (once and more than once in a sequence), reads inside the sequence after such a read, final reads directly after one", all(
        f.get(k, 0) > 0
        for k in ("read-under-error-filter:raised", "read-under-error-filter:raised-more-than-once", "read-after-failed-read:in-sequence", "read-after-failed-read:directly")
    )
    yield "rebin with pending and with processed entries", f.get("rebin:pending", 0) > 0 and f.get("rebin:processed", 0) > 0
    yield "underflow, overflow and several bins populated in the outcomes", len(tot.outcomes) > 20
    yield "rebin with the new edges as tuple and as ndarray", all(f.get("rebin:edges-as:" + t, 0) > 0 for t in "TA")
    yield "every constructor form explored", all(f.get("ctor:form:" + k, 0) > 0 for k in CTOR_FORMS)
    yield "full and inner bin_edges given as list, tuple and ndarray", all(
        f.get("ctor:%s:edges:%s" % (k, t), 0) > 0 for k in ("edges", "edges+n+range", "inner") for t in "LTA"
    )
    yield "bin_range given as tuple, list and ndarray", all(f.get("ctor:range:" + t, 0) > 0 for t in RANGE_TYPES)
    yield "fill_data absent, empty, list, tuple and ndarray; fills after fill_data", all(f.get("ctor:fill_data:" + t, 0) > 0 for t in FILL_TYPES) and f.get("fill:after-fill_data", 0) > 0
