"""C13 - histogram model bin contents equal the integral of the density over each bin.

Grammar product on the real ``HistParametricModel`` / ``HistFit``:

  model   binning x density x bin_evaluation x density flag x ALL histories of length <= L over
          {parameters = p0|p1|p2, read data, rebin(other edges), rebin(refined edges)} (+ a final read), and fresh models at
          every parameter point;
  order   refinement ladder n, 2n, 4n uniform bins on a fixed interval for every quadrature rule x non-exact density x point;
  fit     HistFit(data, density, bin_evaluation, density flag) x ALL histories of length <= L over {set_all_parameter_values,
          set_parameter_values, data = other container / numpy histogram, read model, read eval_model_function_density};
  fitx    the same with data whose entries lie partly OUTSIDE the bin range (underflow only, overflow only incl. an entry on the
          last edge, both with pending entries, manual heights with underflow / overflow) as initial data and as replacement
          data, histories one op shorter: a density model is scaled by ALL entries of the container (n_entries).
  entry   the way a fit / model comes into being: next to HistFit(...) in python with a HistContainer (binned / pending entries)
          or a numpy histogram tuple, the generic kafe2.Fit(container, ...) dispatcher, a HistModelFunction object in place of
          the plain function, and the round trip through a file - fit.to_file + HistFit.from_file / FitBase.from_file as an
          OPERATION of the history alphabet (first op = the fit is born from a file; later = written with changed parameters
          / replaced data), HistParametricModel.to_file + from_file in front of the model histories; every entry point x density
          flag x bin_evaluation method (a numpy.vectorize wrapper has no source text and cannot be written) x initial data.
  default the model function NOT given (kafe2's default density, the normal distribution with mu = sigma = 1) or given by its library
          name "normal_distribution", through HistFit(data, ...) and through kafe2.Fit(data, ...), x every bin_evaluation method
          (the antiderivative callables of the default density included) x density flag x initial data x histories; the keywords
          omitted as well (Simpson, density); HistParametricModel(n_bins, bin_range) without density and parameter values.
  fail    parameter values OUTSIDE the domain of the density as points of the history alphabet: densities that raise there (a
          normal density that rejects sigma <= 0 with ValueError, an exponential with mean tau that divides by tau: tau = 0) x all
          methods x binnings x flags x ALL histories of length <= L over the model ops + {parameters = outside point} in which
          such a point occurs, fresh models born outside the domain, and the same on fit level (set_all_parameter_values /
          set_parameter_values to the outside point).  A read in that state must FAIL - also the read that directly follows a
          failed read, after a rebin, ... - and the first read after valid values were set must give their integrals.

Oracle: exact bin integrals (rational arithmetic / 40 digit mpmath, kmc/c13_densities.py) for everything that the statement
declares exact (antiderivative callable, vectorised antiderivative: 1e-12; scipy quad: 1e-8; Simpson / trapezoid / midpoint on
polynomials of degree <= 3 / 1 / 1: 1e-12), NOT exact one degree higher, observed convergence orders 4 / 2 / 2 (+-0.3); values
of a quadrature rule outside its exactness class are compared with the textbook rule of that NAME evaluated in plain python
on the density (midpoint = rectangle: w f(m); trapezoid: w (f(a) + f(b)) / 2; Simpson: w (f(a) + 4 f(m) + f(b)) / 6) at the
current parameters and edges - this fixes nodes, weights and the sign of the error term per method name and is history
independent.  Fresh models are built for every spelling of a method string (lower / upper / capitalised).
"""
import collections
import itertools
import math
import os
import tempfile

import numpy as np

from kmc import c13_densities as D
from kmc import explore
from kmc.core import JobResult

PROPERTY = "C13"
RULE = (
    "executions = one history on a fresh real object: (model) binning x density x bin_evaluation x density flag x op sequence "
    "over {parameters = p_i, read data, rebin} with every read compared bin by bin; (order) one refinement ladder of three "
    "fresh models; (fit) HistFit x op sequence over {set parameters, replace data (other binning, other number of entries), "
    "read model, read density}; (fitx) the same with data that has underflow / overflow entries, as initial and as replacement "
    "data; (entry) the same histories on a fit made by kafe2.Fit / from a HistModelFunction object, and histories in which the fit "
    "(model) is written with to_file and replaced by what from_file returns; (default) the histories on fits / models made without a model "
    "function (kafe2's default density) or with its library name, by HistFit and kafe2.Fit; (fail) histories in which the parameters are "
    "set to values for which the density raises: every read in that state is expected to fail, every read after valid values to be right.  states = distinct (object kind, density, method, flag, edges, parameter point, number of "
    "entries) configurations read; non-trivial = history with >= 1 change of parameters / edges / data before a read whose "
    "expected value differs from the previous read's, or (fitx) a density-scaled model read on data with out-of-range entries"
)
ASSUMPTIONS = [
    "'number of entries' of a HistFit = ALL entries of the data container, those in the underflow / overflow included (HistContainer.n_entries, 'the number of data points' of the HistFit docstring; a density normalised on the real axis predicts N_total x bin integral per bin)",
    "exactness tolerance 1e-12 is relative to (bin width x max |density| at the bin's edges and centre); for the antiderivative methods also to |F| at the edges (rounding of the user's antiderivative is not kafe2's); quad: 1e-8 of the largest bin scale",
    "outside its exactness class a quadrature rule named by bin_evaluation must be that textbook rule (one panel per bin: midpoint = rectangle w f(m), trapezoid w (f(a) + f(b)) / 2, Simpson w (f(a) + 4 f(m) + f(b)) / 6; 1e-12 of bin width x max |density|) at the current parameters and edges, be inexact one degree above its class and converge at its textbook order; method strings are case-insensitive (kafe2 lower-cases them)",
    "convergence order is measured on the sum over bins of |bin content - exact integral| for 32/64/128 uniform bins",
    "parameters are assigned as new list objects (in-place mutation of a list kafe2 holds is an unnotified external change)",
    "kafe2's default density (no model function given) is the normal distribution with mean mu and standard deviation sigma, default values mu = sigma = 1 (function_library.normal_distribution, HistFit / HistParametricModel signatures); 'normal_distribution' is its library name",
    "when the density (or the antiderivative) raises for the current parameter values, 'the integrals for the current parameter values' do not exist: a read of model.data / fit.model / eval_model_function_density must fail (any exception), however often it is repeated and whatever was read before; nothing is demanded of the exception type.  eval_model_function_density with explicit valid model_parameters must still work",
    "a fit / model read back from a file written by to_file is the same fit / model: same edges, entries, parameter values, density flag and bin evaluation method (kafe2 writes floats with repr, the model function and an antiderivative callable as source text; the test functions refer to np / scipy only, which the reader imports); a numpy.vectorize wrapper has no source text, the 'vectorized' method is therefore not sent through files",
]

VALUATIONS = ((1.0, 0.0), (2.0, -1.5), (0.5, 1.0))  # affine maps of the abscissa, exact in binary floating point
METHODS = ("rectangle", "midpoint", "trapezoid", "simpson", "numerical", "antiderivative", "vectorized")
EXACT_DEGREE = {"rectangle": 1, "midpoint": 1, "trapezoid": 1, "simpson": 3}
ORDER = {"rectangle": 2.0, "midpoint": 2.0, "trapezoid": 2.0, "simpson": 4.0}
T_EXACT, T_NUM, T_ORDER = 1e-12, 1e-8, 0.3
LADDER = (32, 64, 128)
LADDER_RANGE = (0.0, 4.0)

BINNINGS = collections.OrderedDict(
    [
        ("single", ([0.5, 2.0], "edges")),
        ("uniform", ([0.0, 1.0, 2.0, 3.0], "range")),
        ("nonuniform", ([-1.0, 0.5, 0.75, 3.0], "edges")),
        ("inner", ([0.0, 1.0, 2.5, 3.0], "inner")),
        ("six", ([-1.0, -0.25, 0.0, 0.5, 1.75, 2.0, 3.0], "edges+n")),
    ]
)


def _map(v, xs):
    s, t = VALUATIONS[v % 3]
    return [s * x + t for x in xs]


def edges_of(binning, v):
    return _map(v, BINNINGS[binning][0])


def rebin_target(binning, v, which):
    base = BINNINGS[binning][0]
    if which == "RA":  # same number of bins, inner edges moved, range widened
        new = [base[0] - 0.5] + [e + 0.125 for e in base[1:-1]] + [base[-1] + 0.25]
    elif which == "RB":  # every bin split at its centre
        new = []
        for a, b in zip(base[:-1], base[1:]):
            new += [a, 0.5 * (a + b)]
        new.append(base[-1])
    elif which == "R0":
        new = list(base)
    else:
        raise KeyError(which)
    return _map(v, new)


SPELLINGS = ("lower", "upper", "capital")


def bin_eval(density, method, spelling="lower"):
    d = D.DENSITIES[density]
    if method == "antiderivative":
        return d.F
    if method == "vectorized":
        return np.vectorize(d.Fs)
    return {"lower": method, "upper": method.upper(), "capital": method.capitalize()}[spelling]


# ---------------------------------------------------------------------------------------
# reference values and tolerances


def scales(density, params, edges):
    f = D.DENSITIES[density].f
    out = []
    for a, b in zip(edges[:-1], edges[1:]):
        m = 0.5 * (a + b)
        out.append((b - a) * max(abs(float(f(a, *params))), abs(float(f(m, *params))), abs(float(f(b, *params)))))
    return out


def is_exact_class(density, method):
    if method in ("antiderivative", "vectorized", "numerical"):
        return True
    deg = D.DENSITIES[density].degree
    return deg is not None and deg <= EXACT_DEGREE[method]


_RULE = {}


def rule_bins(density, method, params, edges):
    """The textbook quadrature rule called ``method`` (one panel per bin) applied to the density, in plain python floats -
    independent reference for nodes, weights and thereby the sign and size of the error outside the exactness class."""
    key = (density, method, tuple(params), tuple(edges))
    if key not in _RULE:
        f = D.DENSITIES[density].f
        out = []
        for a, b in zip(edges[:-1], edges[1:]):
            w = b - a
            fa, fm, fb = float(f(a, *params)), float(f(0.5 * (a + b), *params)), float(f(b, *params))
            if method in ("rectangle", "midpoint"):
                out.append(w * fm)
            elif method == "trapezoid":
                out.append(w * (fa + fb) / 2.0)
            elif method == "simpson":
                out.append(w * (fa + 4.0 * fm + fb) / 6.0)
            else:
                raise KeyError(method)
        _RULE[key] = out
    return _RULE[key]


def expected_bins(density, method, params, edges):
    """-> (expected values, tolerances, kind)"""
    sc = scales(density, params, edges)
    if is_exact_class(density, method):
        exp = D.exact_bins(density, params, edges)
        if method == "numerical":
            tol = [T_NUM * max(sc)] * len(sc)
        elif method in ("antiderivative", "vectorized"):
            F = D.DENSITIES[density].F
            Fv = [abs(float(F(e, *params))) for e in edges]
            tol = [T_EXACT * max(s, fa, fb) for s, fa, fb in zip(sc, Fv[:-1], Fv[1:])]
        else:
            tol = [T_EXACT * s for s in sc]
        return exp, tol, "exact"
    exp = rule_bins(density, method, params, edges)
    return exp, [T_EXACT * s for s in sc], "rule"


def compare(act, exp, tol, factor=1.0):
    """-> None or (worst bin, deviation / tolerance)"""
    if act is None or len(act) != len(exp):
        return ("shape", None)
    worst = None
    for i, (a, e, t) in enumerate(zip(act, exp, tol)):
        dv = abs(a - factor * e)
        lim = abs(factor) * t + 1e-300
        if not dv <= lim:  # also catches nan
            r = dv / lim if dv == dv else float("inf")
            if worst is None or r > worst[1]:
                worst = (i, r)
    return worst


def textbook_error(method, c, a, b):
    """|rule - integral| for c x^(d+1), d the rule's exactness degree (the error term is constant for that degree)."""
    w = b - a
    if method == "simpson":
        return abs(c) * w**5 / 120.0
    if method == "trapezoid":
        return abs(c) * w**3 / 6.0
    return abs(c) * w**3 / 12.0


# ---------------------------------------------------------------------------------------
# model-level world


class ModelWorld(object):
    def __init__(self, binning, density, method, flag, v, p_init=0, spelling="lower"):
        from kafe2.fit.histogram.model import HistParametricModel

        via_file = spelling == "file"  # entry point: the model is written with to_file and read back with from_file
        spelling = "lower" if via_file else spelling

        self.binning, self.density, self.method, self.flag, self.v = binning, density, method, flag, v
        s, t = VALUATIONS[v % 3]
        self.points = _points(density, s, t)
        self.edges = edges_of(binning, v)
        self.params = self.points[p_init]
        e, form = self.edges, BINNINGS[binning][1]
        d = D.DENSITIES[density]
        kw = dict(bin_evaluation=bin_eval(density, method, "lower" if spelling == "default" else spelling), density=flag)
        if spelling == "default":  # entry point: density and parameter values omitted (kafe2's defaults)
            self.params = tuple(float(x) for x in d.base_points[0])
            self.m = HistParametricModel(len(e) - 1, (e[0], e[-1]), bin_edges=list(e), **kw)
        elif form == "range":
            self.m = HistParametricModel(len(e) - 1, (e[0], e[-1]), d.f, list(self.params), **kw)
        elif form == "inner":
            self.m = HistParametricModel(len(e) - 1, (e[0], e[-1]), d.f, list(self.params), bin_edges=list(e[1:-1]), **kw)
        else:
            self.m = HistParametricModel(len(e) - 1, (e[0], e[-1]), d.f, list(self.params), bin_edges=list(e), **kw)
        if via_file:
            self.apply(("file",))

    def apply(self, op):
        """-> None for mutators, (observable, actual, expected, tol, kind) for reads"""
        if op[0] == "file":
            self.m = _through_file(self.m, type(self.m))
        elif op[0] == "set":
            self.params = self.points[op[1]]
            self.m.parameters = list(self.params)
        elif op[0] == "rebin":
            self.edges = rebin_target(self.binning, self.v, op[1])
            self.m.rebin(list(self.edges))
        elif op[0] == "read":
            if not D.evaluable(self.density, self.params):
                return must_raise("data", lambda: [float(x) for x in self.m.data], self.params)
            act = [float(x) for x in self.m.data]
            exp, tol, kind = expected_bins(self.density, self.method, self.params, self.edges)
            return ("data", act, exp, tol, kind)
        else:
            raise ValueError(op)
        return None


def _points(density, s, t):
    """parameter points by key: 0, 1, 2 (inside the domain of the density) and "b0", "b1" (outside: the density raises)"""
    pts = dict(enumerate(D.points(density, s, t)))
    for k, p in enumerate(D.bad_points(density, s, t)):
        pts["b%d" % k] = p
    return pts


def must_raise(observable, read, params):
    """A read at parameter values for which the density cannot be evaluated: the only outcome that is consistent with 'the
    integrals for the CURRENT parameter values' is the failure of the read - whatever was read before."""
    try:
        act = read()
    except Exception as e:  # noqa: BLE001
        return (observable, type(e).__name__, None, None, "raise")
    return (observable, act, "an exception: the density cannot be evaluated for the current parameter values %r" % (tuple(params),), None, "must-raise")


def bad_ops(density):
    return [("set", "b%d" % k) for k in range(len(D.BAD_POINTS[density]))]


def fail_histories(density, tier):
    """model histories of the failed-read family: all sequences of length <= L over MODEL_OPS + {parameters = a point outside the
    domain} in which such a point is set"""
    bad = bad_ops(density)
    for ops in _seqs(MODEL_OPS + bad, depth(tier, "model")):
        if any(o in bad for o in ops):
            yield ops


def fitfail_histories(density, tier):
    """(initial data, op sequence) of the failed-read family on fit level: sequences of length <= L over FIT_OPS + {all parameters
    = outside point, first parameter = that of the outside point} in which one of the two occurs"""
    bad = [("setall", "b0"), ("setone", "b0")]
    for init in FIT_INIT:
        for ops in _seqs(FIT_OPS + bad, depth(tier, "fit")):
            if any(o in bad for o in ops):
                yield init, ops


MODEL_OPS = [("set", 0), ("set", 1), ("set", 2), ("read",), ("rebin", "RA"), ("rebin", "RB")]
MODEL_OPS_F = [("file",)]


def _through_file(obj, reader):
    """obj.to_file(path); -> reader.from_file(path)"""
    fd, path = tempfile.mkstemp(prefix="c13_", suffix=".yml")
    os.close(fd)
    try:
        obj.to_file(path)
        return reader.from_file(path)
    finally:
        os.remove(path)


def file_densities(tier):
    """densities whose objects are sent through files (one round trip costs 15 - 25 ms, as much as ten other histories)"""
    return ("mono3", "mixture") if tier == "quick" else tuple(D.GRID)


def run_history(make, ops, res=None, final=(("read",),)):
    """-> list of violations (position, observable, expected, actual, mode, detail)"""
    try:
        w = make()
    except Exception as e:  # noqa: BLE001
        return [(-1, "constructor", "no exception", "%s: %s" % (type(e).__name__, str(e)[:160]), "exception:" + type(e).__name__, None)], []
    out = []
    reads = []
    allops = list(ops) + list(final)
    for pos, op in enumerate(allops):
        op = tuple(op)
        try:
            r = w.apply(op)
        except Exception as e:  # noqa: BLE001
            out.append((pos, "op:" + op[0], "no exception", "%s: %s" % (type(e).__name__, str(e)[:160]), "exception:" + type(e).__name__, None))
            break
        if res is not None and pos < len(ops):
            res.transitions += 1
        if r is None:
            continue
        obs, act, exp, tol, kind = r[:5]
        factor = r[5] if len(r) > 5 else 1.0
        if res is not None:
            res.evaluations += 1
        if kind == "raise":  # the expected failure of a read at parameter values outside the domain of the density
            reads.append((obs, act, (), kind))
            continue
        if kind == "must-raise":
            out.append((pos, obs, exp, act, "value-for-unevaluable-parameters", None))
            break
        reads.append((obs, act, [factor * x for x in exp], kind))
        bad = compare(act, exp, tol, factor)
        if bad:
            out.append((pos, obs, [factor * x for x in exp], act, "wrong-value", dict(bin=bad[0], dev_over_tol=bad[1], oracle=kind)))
            break
    if res is not None:
        res.executions += 1
    return out, reads


# ---------------------------------------------------------------------------------------
# fit-level world

FIT_EDGES = {
    "D0": [0.0, 1.0, 2.5, 3.0],
    "D1": [-0.5, 0.25, 1.0, 2.0, 3.5],
    "D2": [0.25, 1.5, 2.0, 2.75, 3.25],
}
FIT_ENTRIES = {
    "D0": [0.25, 0.5, 1.25, 1.5, 2.0, 2.625, 2.75],
    "D1": [-0.25, 0.0, 0.5, 0.75, 1.25, 1.5, 1.75, 2.25, 2.5, 3.0, 3.25],
}
FIT_HEIGHTS = {"D2": [3, 0, 2, 4]}
# data with entries outside the bin range: name -> (edges, entries) or (edges, heights, underflow, overflow)
FIT_OUTSIDE = {
    "U0": ("D0", [-2.0, -0.125, 0.25, 0.5, 1.25, 2.0, 2.75]),  # underflow only
    "O0": ("D0", [0.25, 1.25, 1.5, 2.625, 3.0, 3.0, 3.5, 40.0]),  # overflow only, two entries exactly on the last edge
    "B1": ("D1", [-7.0, -0.75, -0.25, 0.0, 0.5, 1.25, 1.5, 2.25, 3.25, 3.5, 3.75, 4.0, 9.0]),  # both
    "B2": ("D2", [3, 0, 2, 4], 2, 5),  # manual heights with underflow and overflow
}


FIT_ENTRY_POINTS = ("Fit", "mfobj")  # next to "py" = HistFit(data, function, ...)
# the model function omitted (kafe2's default density: normal distribution, mu = sigma = 1) or given by its library name,
# through HistFit and through the dispatcher kafe2.Fit; '-': the keywords bin_evaluation / density omitted as well
FIT_ENTRY_DEFAULT = ("py0", "Fit0", "str", "Fitstr", "py0-", "Fit0-")


class FitWorld13(object):
    def __init__(self, density, method, flag, v, init, entry="py"):
        import kafe2

        self.k2 = kafe2
        self.density, self.method, self.flag, self.v = density, method, flag, v
        s, t = VALUATIONS[v % 3]
        self.points = _points(density, s, t)
        d = D.DENSITIES[density]
        self.f = d.f
        data, self.edges, self.n = self._data(init)
        kw = dict(bin_evaluation=bin_eval(density, method), density=flag)
        if entry.endswith("-"):  # ... and the keywords omitted as well: Simpson's rule, density
            assert method == "simpson" and flag is True
            kw = {}
        if entry in ("py0", "py0-"):  # the model function omitted: kafe2's default density
            self.fit = kafe2.HistFit(data, **kw)
        elif entry in ("Fit0", "Fit0-"):
            self.fit = kafe2.Fit(data, **kw)
        elif entry == "str":  # the default density under its library name
            self.fit = kafe2.HistFit(data, "normal_distribution", **kw)
        elif entry == "Fitstr":
            self.fit = kafe2.Fit(data, "normal_distribution", **kw)
        elif entry == "py":
            self.fit = kafe2.HistFit(data, d.f, bin_evaluation=bin_eval(density, method), density=flag)
        elif entry == "Fit":  # the generic dispatcher (containers only)
            self.fit = kafe2.Fit(data, d.f, bin_evaluation=bin_eval(density, method), density=flag)
        elif entry == "mfobj":  # a model function object in place of the plain function
            from kafe2.fit.histogram.model import HistModelFunction

            self.fit = kafe2.HistFit(data, HistModelFunction(d.f), bin_evaluation=bin_eval(density, method), density=flag)
        else:
            raise ValueError(entry)
        self.params = tuple(float(x) for x in D.DENSITIES[density].base_points[0])  # the function's defaults
        self.par_names = list(self.fit.parameter_names)

    def _data(self, which):
        """-> (object for HistFit, edges, number of entries)"""
        k2 = self.k2
        base = which.rstrip("p")
        if base in FIT_OUTSIDE:
            spec = FIT_OUTSIDE[base]
            e = _map(self.v, FIT_EDGES[spec[0]])
            c = k2.HistContainer(n_bins=len(e) - 1, bin_range=(e[0], e[-1]), bin_edges=list(e))
            if len(spec) == 2:
                ent = _map(self.v, spec[1])
                c.fill(list(ent))
                if not which.endswith("p"):
                    c.data  # bin the entries before the container is handed over ('p' = still pending)
                return c, e, len(ent)
            c.set_bins(list(spec[1]), underflow=spec[2], overflow=spec[3])
            return c, e, sum(spec[1]) + spec[2] + spec[3]
        e = _map(self.v, FIT_EDGES[base])
        if base in FIT_ENTRIES:
            ent = _map(self.v, FIT_ENTRIES[base])
            c = k2.HistContainer(n_bins=len(e) - 1, bin_range=(e[0], e[-1]), bin_edges=list(e))
            c.fill(list(ent))
            if not which.endswith("p"):
                c.data  # bin the entries before the container is handed over ('p' = still pending)
            return c, e, len(ent)
        h = FIT_HEIGHTS[base]
        return (np.array(h), np.array(e)), e, sum(h)

    def apply(self, op):
        f = self.fit
        if op[0] == "setall":
            self.params = self.points[op[1]]
            f.set_all_parameter_values(list(self.params))
        elif op[0] == "setone":
            new = self.points[op[1]][0]
            f.set_parameter_values(**{self.par_names[0]: new})
            self.params = (new,) + tuple(self.params[1:])
        elif op[0] == "data":
            data, self.edges, self.n = self._data(op[1])
            f.data = data
        elif op[0] == "file":
            # written and read back: the same fit (edges, entries, parameter values, density flag, method) is expected
            from kafe2.fit._base import FitBase

            self.fit = _through_file(f, self.k2.HistFit if op[1] == "hist" else FitBase)
        elif op[0] == "read" and op[1] in ("model", "density") and not D.evaluable(self.density, self.params):
            if op[1] == "model":
                return must_raise("model", lambda: [float(x) for x in f.model], self.params)
            x = np.array([0.5 * (self.edges[0] + self.edges[-1])])
            return must_raise("eval_model_function_density", lambda: [float(y) for y in f.eval_model_function_density(x)], self.params)
        elif op[0] == "read" and op[1] == "model":
            act = [float(x) for x in f.model]
            exp, tol, kind = expected_bins(self.density, self.method, self.params, self.edges)
            return ("model", act, exp, tol, kind, float(self.n) if self.flag else 1.0)
        elif op[0] == "read" and op[1] == "density":
            x = np.array([0.5 * (a + b) for a, b in zip(self.edges[:-1], self.edges[1:])] + [self.edges[0], self.edges[-1]])
            act = [float(y) for y in f.eval_model_function_density(x)]
            exp = [float(y) for y in np.ones_like(x) * self.f(x, *self.params)]
            return ("eval_model_function_density", act, exp, [1e-14 * max(abs(y), 1e-300) for y in exp], "function")
        elif op[0] == "read" and op[1] == "density-at":
            x = np.array([0.5 * (self.edges[0] + self.edges[-1])])
            p = self.points[op[2]]
            act = [float(y) for y in f.eval_model_function_density(x, model_parameters=list(p))]
            exp = [float(y) for y in np.ones_like(x) * self.f(x, *p)]
            return ("eval_model_function_density(model_parameters)", act, exp, [1e-14 * max(abs(y), 1e-300) for y in exp], "function")
        else:
            raise ValueError(op)
        return None


FIT_OPS = [("setall", 1), ("setall", 2), ("setone", 2), ("data", "D1"), ("data", "D2"), ("data", "D0p"), ("read", "model"), ("read", "density")]
FIT_FINAL = (("read", "model"), ("read", "density"), ("read", "density-at", 1), ("read", "model"))
FIT_INIT = ("D0", "D2", "D1p")
# second fit family: data with underflow / overflow entries, as initial data and as replacement data
FIT_OPS_X = [("data", "U0"), ("data", "O0p"), ("data", "B1"), ("data", "B2")]
FIT_INIT_X = ("U0", "O0", "B1p", "B2")
FIT_OPS_F = [("file", "hist"), ("file", "base")]  # to_file + HistFit.from_file / FitBase.from_file


def fitf_histories(tier):
    """(initial data, op sequence) of the file family: every in-range initial data set x every sequence of length <= 2 over
    FIT_OPS + file ops in which a file op occurs (quick tier: one of the two readers per initial data set, alternating)."""
    for k, init in enumerate(FIT_INIT):
        fops = FIT_OPS_F if tier == "thorough" else [FIT_OPS_F[k % 2]]
        for ops in _seqs(FIT_OPS + fops, 2):
            if any(o in fops for o in ops):
                yield init, ops


def modelf_histories(tier):
    """op sequences of the model-level file family: all sequences of length <= 2 over MODEL_OPS + file in which file occurs"""
    for ops in _seqs(MODEL_OPS + MODEL_OPS_F, 2):
        if any(o in MODEL_OPS_F for o in ops):
            yield ops


def fitx_histories(tier):
    """(initial data, op sequence) of the out-of-range family: every initial data set x every sequence of length <= L - 1 over
    FIT_OPS + FIT_OPS_X that is not already part of the in-range family (i.e. out-of-range data occurs at least once)."""
    L = depth(tier, "fit") - 1
    for init in FIT_INIT_X + FIT_INIT:
        for ops in _seqs(FIT_OPS + FIT_OPS_X, L):
            if init in FIT_INIT_X or any(o in FIT_OPS_X for o in ops):
                yield init, ops


# ---------------------------------------------------------------------------------------
# jobs


def depth(tier, kind):
    if kind == "model":
        return 3 if tier == "quick" else 4
    return 2 if tier == "quick" else 3


def jobs(tier, seed):
    v = seed % 3
    specs = [("order", "simpson", "normal", v, tier)]  # small job first: re-run for the determinism check
    for density in D.GRID:
        for method in METHODS:
            specs.append(("fit", method, density, v, tier))
    for method in METHODS:
        specs.append(("default", method, "normal0", v, tier))
        for density in D.GUARDED:
            specs.append(("fail", method, density, v, tier))
    for density in D.GRID:
        for method in METHODS:
            specs.append(("model", method, density, v, tier))
            if method in ORDER and not is_exact_class(density, method) and (method, density) != ("simpson", "normal"):
                specs.append(("order", method, density, v, tier))
    return specs


def bound(tier, seed):
    return (
        "model: 5 binnings x 9 densities x 7 bin_evaluation methods x density in {True,False} x ALL op sequences of length <= %d "
        "over {parameters = p0|p1|p2, read, rebin other edges, rebin refined} + final read, plus fresh models at all 3 parameter "
        "points; order: ladder %s bins for every (quadrature rule, density outside its exactness class, parameter point); fit: 9 "
        "densities x 7 methods x density flag x 3 initial data sets (container with binned entries / with pending entries / numpy "
        "histogram) x ALL op sequences of length <= %d over 8 ops + 4 final reads; fitx: the same x (4 initial data sets with "
        "underflow / overflow entries + the 3 in-range ones) x ALL op sequences of length <= %d over these 8 ops + 4 replacement data "
        "sets with underflow / overflow entries (underflow only, overflow only incl. entries on the last edge and pending, both, "
        "manual heights with underflow and overflow) in which out-of-range data occurs; fresh models also for the upper-case and "
        "capitalised spelling of every method string; entry points: kafe2.Fit(container) and HistFit(data, HistModelFunction object) x all "
        "densities x methods x flags x initial data x ALL op sequences of length <= %d; file round trip (fit.to_file + HistFit.from_file%s, "
        "HistParametricModel.to_file + from_file) as an op: densities {%s} x 6 methods (not the numpy.vectorize wrapper) x flags x "
        "(fit: 3 initial data sets; model: 5 binnings) x ALL op sequences of length <= 2 over the family's ops + the file op(s) in which a file op occurs; "
        "default density: {model function omitted, library name} x {HistFit, kafe2.Fit} x 7 methods x flags x 3 initial data sets x ALL op sequences of length <= %d "
        "(+ all keywords omitted), HistParametricModel without density / parameters x 5 binnings x ALL op sequences of length <= %d; failed reads: 2 densities that "
        "raise outside their domain (3 outside points) x 7 methods x flags x (5 binnings x ALL op sequences of length <= %d over the 6 model ops + the outside points "
        "in which one occurs + fresh models at every outside point; 3 initial data sets x ALL op sequences of length <= %d over the 8 fit ops + 2 outside assignments "
        "in which one occurs, closed by valid values + reads); valuation %d"
        % (
            depth(tier, "model"),
            "/".join(str(n) for n in LADDER),
            depth(tier, "fit"),
            depth(tier, "fit") - 1,
            depth(tier, "fit") - 1,
            " and FitBase.from_file" if tier == "thorough" else " / FitBase.from_file alternating over the initial data sets",
            ", ".join(file_densities(tier)),
            depth(tier, "fit") - 1,
            depth(tier, "fit"),
            depth(tier, "model"),
            depth(tier, "fit"),
            seed % 3,
        )
    )


def _seqs(ops, L):
    for n in range(0, L + 1):
        for s in itertools.product(ops, repeat=n):
            yield s


def _sig(kind, cfg, ops, observable, mode):
    toks = [":".join(str(x) for x in o) for o in ops]
    return "%s|%s|%s|%s|%s" % (kind, "/".join(str(c) for c in cfg), ";".join(toks), observable, mode)


def _report(res, seen, kind, cfg, make, ops, final, viol):
    pos, observable, exp, act, mode, detail = viol
    res.outcomes[(kind, observable, mode)] += 1
    pre = tuple(ops) + tuple(final)
    akey = (pre[: pos + 1] if pos >= 0 else (), observable, mode)
    if akey in seen:
        return
    seen.add(akey)
    full = [list(o) for o in pre[: pos + 1]] if pos >= 0 else []

    def violates(h):
        out, _ = run_history(make, [tuple(o) for o in h], None, final=())
        return any(x[1] == observable and x[4] == mode for x in out)

    if full and violates(full):
        full = explore.minimise(full, violates)
        out, _ = run_history(make, [tuple(o) for o in full], None, final=())
        for x in out:
            if x[1] == observable and x[4] == mode:
                exp, act, detail = x[2], x[3], x[5]
    hist = [dict(kind=kind, cfg=list(cfg))] + full
    res.violation(_sig(kind, cfg, full, observable, mode), hist, observable, exp, act, mode, extra=detail)


def run_job(spec):
    kind, method, density, v, tier = spec
    res = JobResult()
    seen = set()
    if kind == "order":
        _run_order(res, method, density, v)
    elif kind == "model":
        L = depth(tier, "model")
        for binning in BINNINGS:
            for flag in (True, False):
                # fresh models at every parameter point (+ exactness-class guards)
                for p in range(3):
                    for sp in SPELLINGS if isinstance(bin_eval(density, method), str) else SPELLINGS[:1]:
                        cfg = (binning, density, method, flag, v, p) + ((sp,) if sp != "lower" else ())
                        make = _maker("model", cfg)
                        out, reads = run_history(make, (), res)
                        res.observe((cfg, reads))
                        _book(res, "model", cfg, (), reads, out)
                        res.facts["model:spelling:" + sp] += 1
                        if out:
                            _report(res, seen, "model", cfg, make, (), (("read",),), out[0])
                        elif flag:
                            _guard_inexact(res, seen, cfg, reads)
                cfg = (binning, density, method, flag, v, 0)
                make = _maker("model", cfg)
                for ops in _seqs(MODEL_OPS, L):
                    if not ops:
                        continue
                    out, reads = run_history(make, ops, res)
                    res.observe((cfg, ops, reads))
                    _book(res, "model", cfg, ops, reads, out)
                    if out:
                        _report(res, seen, "model", cfg, make, ops, (("read",),), out[0])
                # entry point file: the model written with to_file and read back with from_file, before / after another op
                if density in file_densities(tier) and method != "vectorized":
                    for ops in modelf_histories(tier):
                        out, reads = run_history(make, ops, res)
                        res.observe((cfg, ops, reads))
                        _book(res, "model", cfg, ops, reads, out)
                        res.facts["entry:model-file:%s" % flag] += 1
                        res.facts["entry:model-file:method:" + method] += 1
                        if not out:
                            res.nontriv(("modelf", cfg, ops))
                        if out:
                            _report(res, seen, "model", cfg, make, ops, (("read",),), out[0])
        res.max_depth = L
    elif kind == "fit":
        L = depth(tier, "fit")
        for flag in (True, False):
            for init in FIT_INIT:
                cfg = (density, method, flag, v, init)
                make = _maker("fit", cfg)
                for ops in _seqs(FIT_OPS, L):
                    out, reads = run_history(make, ops, res, final=FIT_FINAL)
                    res.observe((cfg, ops, reads))
                    _book(res, "fit", cfg, ops, reads, out)
                    if out:
                        _report(res, seen, "fit", cfg, make, ops, FIT_FINAL, out[0])
            for init, ops in fitx_histories(tier):
                cfg = (density, method, flag, v, init)
                make = _maker("fit", cfg)
                out, reads = run_history(make, ops, res, final=FIT_FINAL)
                res.observe((cfg, ops, reads))
                _book(res, "fit", cfg, ops, reads, out)
                res.facts["fitx:init:" + init] += 1
                if flag and not out:
                    res.nontriv(("fitx", cfg, ops))
                for o in ops:
                    if o in FIT_OPS_X:
                        res.facts["fitx:data:" + o[1]] += 1
                if out:
                    _report(res, seen, "fit", cfg, make, ops, FIT_FINAL, out[0])
            # entry points other than HistFit(data, function): the dispatcher kafe2.Fit (containers), a HistModelFunction object
            for entry in FIT_ENTRY_POINTS:
                for init in FIT_INIT:
                    if entry == "Fit" and init.rstrip("p") in FIT_HEIGHTS:
                        continue  # numpy histogram tuple: the dispatcher does not take it for histogram data
                    cfg = (density, method, flag, v, init, entry)
                    make = _maker("fit", cfg)
                    for ops in _seqs(FIT_OPS, L - 1):
                        out, reads = run_history(make, ops, res, final=FIT_FINAL)
                        res.observe((cfg, ops, reads))
                        _book(res, "fit", cfg, ops, reads, out)
                        res.facts["entry:%s:%s" % (entry, flag)] += 1
                        if out:
                            _report(res, seen, "fit", cfg, make, ops, FIT_FINAL, out[0])
            # ... and a file: to_file + from_file as an operation (first: the fit is born from the file; later: written with
            # changed parameter values / replaced data)
            if density in file_densities(tier) and method != "vectorized":
                for init, ops in fitf_histories(tier):
                    cfg = (density, method, flag, v, init)
                    make = _maker("fit", cfg)
                    out, reads = run_history(make, ops, res, final=FIT_FINAL)
                    res.observe((cfg, ops, reads))
                    _book(res, "fit", cfg, ops, reads, out)
                    for o in ops:
                        if o in FIT_OPS_F:
                            res.facts["entry:file-%s:%s" % (o[1], flag)] += 1
                    res.facts["entry:file:init:" + init] += 1
                    res.facts["entry:file:method:" + method] += 1
                    res.facts["entry:file:" + ("first" if ops[0] in FIT_OPS_F else "later")] += 1
                    if not out:
                        res.nontriv(("fitf", cfg, ops))
                    if out:
                        _report(res, seen, "fit", cfg, make, ops, FIT_FINAL, out[0])
        res.max_depth = L
    elif kind == "default":
        _run_default(res, seen, method, density, v, tier)
    elif kind == "fail":
        _run_fail(res, seen, method, density, v, tier)
    res.sample(dict(job=list(spec), executions=res.executions, evaluations=res.evaluations), cap=1)
    return res.as_dict()


def _run_default(res, seen, method, density, v, tier):
    """the model function omitted (kafe2's default density) / given by its library name x HistFit, kafe2.Fit x keywords given /
    omitted; HistParametricModel without density and parameter values"""
    L = depth(tier, "fit")
    for flag in (True, False):
        for entry in FIT_ENTRY_DEFAULT:
            if entry.endswith("-") and not (method == "simpson" and flag):
                continue
            for init in FIT_INIT:
                if entry.startswith("Fit") and init.rstrip("p") in FIT_HEIGHTS:
                    continue  # numpy histogram tuple: the dispatcher does not take it for histogram data
                cfg = (density, method, flag, v, init, entry)
                make = _maker("fit", cfg)
                for ops in _seqs(FIT_OPS, L - 1):
                    out, reads = run_history(make, ops, res, final=FIT_FINAL)
                    res.observe((cfg, ops, reads))
                    _book(res, "fit", cfg, ops, reads, out)
                    res.facts["entry:%s:%s" % (entry, flag)] += 1
                    res.facts["entry:default:method:" + method] += 1
                    if out:
                        _report(res, seen, "fit", cfg, make, ops, FIT_FINAL, out[0])
                    else:
                        res.nontriv(("default", cfg, ops))
        for binning in BINNINGS:
            cfg = (binning, density, method, flag, v, 0, "default")
            make = _maker("model", cfg)
            for ops in _seqs(MODEL_OPS, L):
                out, reads = run_history(make, ops, res)
                res.observe((cfg, ops, reads))
                _book(res, "model", cfg, ops, reads, out)
                res.facts["entry:model-default"] += 1
                if out:
                    _report(res, seen, "model", cfg, make, ops, (("read",),), out[0])
    res.max_depth = L


def _run_fail(res, seen, method, density, v, tier):
    """parameter values outside the domain of the density (the function raises) as part of the history alphabet"""
    for flag in (True, False):
        for binning in BINNINGS:
            for p in [0] + ["b%d" % k for k in range(len(D.BAD_POINTS[density]))]:  # fresh models, also born outside the domain
                cfg = (binning, density, method, flag, v, p)
                make = _maker("model", cfg)
                final = (("read",), ("read",), ("set", 1), ("read",))
                out, reads = run_history(make, (), res, final=final)
                res.observe((cfg, reads))
                _book(res, "model", cfg, (), reads, out)
                if out:
                    _report(res, seen, "model", cfg, make, (), final, out[0])
            cfg = (binning, density, method, flag, v, 0)
            make = _maker("model", cfg)
            for ops in fail_histories(density, tier):
                out, reads = run_history(make, ops, res)
                res.observe((cfg, ops, reads))
                _book(res, "model", cfg, ops, reads, out)
                if out:
                    _report(res, seen, "model", cfg, make, ops, (("read",),), out[0])
                else:
                    res.nontriv(("fail", cfg, ops))
        final = FIT_FINAL + (("setall", 1), ("read", "model"), ("read", "density"))  # ... and valid values at the end
        for init, ops in fitfail_histories(density, tier):
            cfg = (density, method, flag, v, init)
            make = _maker("fit", cfg)
            out, reads = run_history(make, ops, res, final=final)
            res.observe((cfg, ops, reads))
            _book(res, "fit", cfg, ops, reads, out)
            if out:
                _report(res, seen, "fit", cfg, make, ops, final, out[0])
            else:
                res.nontriv(("fitfail", cfg, ops))
    res.max_depth = depth(tier, "model")


def _maker(kind, cfg):
    if kind == "model":
        binning, density, method, flag, v, p = cfg[:6]
        spelling = cfg[6] if len(cfg) > 6 else "lower"
        return lambda: ModelWorld(binning, density, method, flag, v, p, spelling)
    density, method, flag, v, init = cfg[:5]
    entry = cfg[5] if len(cfg) > 5 else "py"
    return lambda: FitWorld13(density, method, flag, v, init, entry)


def _book(res, kind, cfg, ops, reads, out):
    """coverage bookkeeping"""
    if kind == "model":
        binning, density, method, flag = cfg[:4]
    else:
        density, method, flag = cfg[:3]
        binning = "fit"
    f = res.facts
    f["%s:method:%s" % (kind, method)] += 1
    f["%s:density:%s" % (kind, density)] += 1
    f["%s:flag:%s" % (kind, flag)] += 1
    prev = None
    changed = False
    fails = 0
    for obs, act, exp, okind in reads:
        if okind == "raise":
            f["oracle:raise:" + method] += 1
            f["fail:%s:raise" % kind] += 1
            if fails:
                f["fail:%s:raise-raise" % kind] += 1
            fails += 1
            continue
        if fails and obs in ("data", "model"):
            f["fail:%s:raise-then-value" % kind] += 1
        fails = 0
        if obs in ("data", "model"):
            res.state((kind, cfg[:4], tuple(exp)))
            f["oracle:%s:%s" % (okind, method)] += 1
            if prev is not None and (len(prev) != len(exp) or any(a != b for a, b in zip(prev, exp))):
                changed = True
            prev = exp
    if changed:
        res.nontriv((kind, cfg, ops))
        f[kind + ":read-after-change"] += 1
    if not out:
        res.outcomes[(kind, binning, method, "ok", "changed" if changed else "same")] += 1


def _guard_inexact(res, seen, cfg, reads):
    """A rule must NOT be exact for the monomial one degree above its exactness class."""
    binning, density, method, flag, v, p = cfg[:6]
    deg = D.DENSITIES[density].degree
    if method not in EXACT_DEGREE or deg != EXACT_DEGREE[method] + 1:
        return
    edges = edges_of(binning, v)
    s, t = VALUATIONS[v % 3]
    params = D.points(density, s, t)[p]
    act = reads[-1][1]
    exact = D.exact_bins(density, params, edges)
    res.evaluations += 1
    res.facts["guard:inexact:" + method] += 1
    for i, (a, b) in enumerate(zip(edges[:-1], edges[1:])):
        err = abs(act[i] - exact[i])
        if not err > 0.01 * textbook_error(method, params[0], a, b):
            sig = _sig("model", cfg[:4], (), "exactness-class", "unexpectedly-exact")
            if sig not in seen:
                seen.add(sig)
                res.violation(sig, [dict(kind="model", cfg=list(cfg), guard="inexact")], "exactness-class", "error > 1%% of the textbook error term %.3e" % textbook_error(method, params[0], a, b), err, "unexpectedly-exact")
            return


def ladder_errors(method, density, params, v):
    from kafe2.fit.histogram.model import HistParametricModel

    a, b = _map(v, LADDER_RANGE)
    errs = []
    for n in LADDER:
        m = HistParametricModel(n, (a, b), D.DENSITIES[density].f, list(params), bin_evaluation=bin_eval(density, method))
        edges = [float(e) for e in m.bin_edges]
        act = [float(x) for x in m.data]
        exact = D.exact_bins(density, params, edges)
        errs.append(sum(abs(x - y) for x, y in zip(act, exact)))
    return errs


def _run_order(res, method, density, v):
    s, t = VALUATIONS[v % 3]
    for p, params in enumerate(D.points(density, s, t)):
        try:
            errs = ladder_errors(method, density, params, v)
        except Exception as e:  # noqa: BLE001
            cfg = (method, density, p, v)
            res.violation(_sig("order", cfg[:3], (), "op:ladder", "exception:" + type(e).__name__), [dict(kind="order", cfg=list(cfg))], "op:ladder", "no exception", "%s: %s" % (type(e).__name__, str(e)[:160]), "exception:" + type(e).__name__)
            res.executions += 1
            continue
        res.transitions += len(LADDER)
        res.executions += 1
        orders = [math.log(errs[i] / errs[i + 1], 2.0) if errs[i] > 0 and errs[i + 1] > 0 else float("nan") for i in range(len(errs) - 1)]
        res.observe((method, density, p, errs))
        res.state(("order", method, density, p))
        res.nontriv(("order", method, density, p))
        res.facts["order:" + method] += 1
        for o in orders:
            res.evaluations += 1
            ok = abs(o - ORDER[method]) <= T_ORDER
            res.outcomes[("order", method, "%.1f" % o)] += 1
            if not ok:
                cfg = (method, density, p, v)
                res.violation(_sig("order", cfg[:3], (), "convergence-order", "wrong-order"), [dict(kind="order", cfg=list(cfg))], "convergence-order", "%.1f +- %.1f" % (ORDER[method], T_ORDER), dict(orders=orders, errors=errs), "wrong-order")
                break


# ---------------------------------------------------------------------------------------


def replay(history):
    head = history[0]
    kind, cfg = head["kind"], head["cfg"]
    if kind == "order":
        method, density, p, v = cfg
        s, t = VALUATIONS[v % 3]
        try:
            errs = ladder_errors(method, density, D.points(density, s, t)[p], v)
        except Exception as e:  # noqa: BLE001
            return [dict(observable="op:ladder", expected="no exception", actual="%s: %s" % (type(e).__name__, str(e)[:160]), mode="exception:" + type(e).__name__)]
        orders = [math.log(errs[i] / errs[i + 1], 2.0) if errs[i] > 0 and errs[i + 1] > 0 else float("nan") for i in range(len(errs) - 1)]
        if all(abs(o - ORDER[method]) <= T_ORDER for o in orders):
            return []
        return [dict(observable="convergence-order", expected="%.1f +- %.1f" % (ORDER[method], T_ORDER), actual=dict(orders=orders, errors=errs), mode="wrong-order")]
    if head.get("guard") == "inexact":
        res = JobResult()
        make = _maker("model", tuple(cfg))
        out, reads = run_history(make, (), None)
        if out:
            return [dict(observable=o[1], expected=o[2], actual=o[3], mode=o[4]) for o in out]
        _guard_inexact(res, set(), tuple(cfg), reads)
        return [dict(observable=x["observable"], expected=x["expected"], actual=x["actual"], mode=x["mode"]) for x in res.violations]
    make = _maker(kind, tuple(cfg))
    out, _ = run_history(make, [tuple(o) for o in history[1:]], None, final=())
    return [dict(observable=o[1], expected=o[2], actual=o[3], mode=o[4], detail=o[5]) for o in out]


def triage_key(v):
    p = v["sig"].split("|")
    return (p[0], p[2], v["observable"], v["mode"])


def vacuity_guards(tot, tier):
    f = tot.facts
    for m in METHODS:
        yield "method %s read on model and fit level" % m, f.get("model:method:" + m, 0) > 0 and f.get("fit:method:" + m, 0) > 0
    for m in EXACT_DEGREE:
        yield "rule %s: exact-class reads, textbook-rule reads, inexactness guard and order ladder all exercised" % m, all(
            f.get(k, 0) > 0 for k in ("oracle:exact:" + m, "oracle:rule:" + m, "guard:inexact:" + m, "order:" + m)
        )
    yield "all densities", all(f.get("model:density:" + d, 0) > 0 for d in D.DENSITIES)
    yield "model function omitted / given by its library name, through HistFit and kafe2.Fit, both density flags, every method; keywords omitted; model without density and parameters", all(
        f.get("entry:%s:%s" % (e, fl), 0) > 0 for e in FIT_ENTRY_DEFAULT[:4] for fl in (True, False)
    ) and all(f.get("entry:%s:True" % e, 0) > 0 for e in FIT_ENTRY_DEFAULT[4:]) and all(f.get("entry:default:method:" + m, 0) > 0 for m in METHODS) and f.get(
        "entry:model-default", 0
    ) > 0
    yield "reads at parameter values outside the domain of the density: failed, failed again directly afterwards, and succeeded after valid values were set, on model and fit level, every method", all(
        f.get("fail:%s:%s" % (k, w), 0) > 0 for k in ("model", "fit") for w in ("raise", "raise-raise", "raise-then-value")
    ) and all(f.get("oracle:raise:" + m, 0) > 0 for m in METHODS)
    yield "fit data with underflow only, overflow only, both and manual heights, as initial and as replacement data", all(
        f.get("fitx:init:" + k, 0) > 0 for k in FIT_INIT_X
    ) and all(f.get("fitx:data:" + o[1], 0) > 0 for o in FIT_OPS_X)
    yield "method strings in lower / upper / capitalised spelling", all(f.get("model:spelling:" + k, 0) > 0 for k in SPELLINGS)
    yield "both density flags on fit level", f.get("fit:flag:True", 0) > 0 and f.get("fit:flag:False", 0) > 0
    yield "entry points kafe2.Fit and HistModelFunction object with both density flags", all(f.get("entry:%s:%s" % (e, fl), 0) > 0 for e in FIT_ENTRY_POINTS for fl in (True, False))
    yield "fits read back from files through HistFit.from_file and FitBase.from_file with both density flags, as first and as later op, for every initial data set and method", all(
        f.get("entry:file-%s:%s" % (r, fl), 0) > 0 for r in ("hist", "base") for fl in (True, False)
    ) and all(f.get("entry:file:" + k, 0) > 0 for k in ("first", "later")) and all(f.get("entry:file:init:" + k, 0) > 0 for k in FIT_INIT) and all(
        f.get("entry:file:method:" + m, 0) > 0 and f.get("entry:model-file:method:" + m, 0) > 0 for m in METHODS if m != "vectorized"
    )
    yield "models read back from files with both density flags", f.get("entry:model-file:True", 0) > 0 and f.get("entry:model-file:False", 0) > 0
    yield "reads after a change of parameters / edges / data with a different expected value", f.get("model:read-after-change", 0) > 0 and f.get("fit:read-after-change", 0) > 0
