"""C19 - invalid specifications are rejected loudly and leave the object unchanged.

Mode C with the *rejected call* as the deviation: base histories of valid operations up to length L on containers and fits,
one malformed call inserted at any position, followed by every read and by every single valid follow-up operation + reads.
Oracle: the call raises; all observables afterwards equal those of the same history without the call.
Constructor-level malformed specifications (reserved parameter names, Poisson data, unsorted edges, constraint matrices) must
raise.  The graph part (cycle-closing dependencies on every reachable registry state) is the Nexus registry BFS of C04.
"""
import warnings

import numpy as np

from checks import c02_total_error as c02
from kmc import explore, ref
from kmc.core import JobResult
from kmc.fitworld import FitWorld, close_scaled

PROPERTY = "C19"
RULE = (
    "executions = (object, base history of valid operations, malformed call, insertion position, follow-up operation); the call must "
    "raise and every observable afterwards (and after one further valid operation) must equal the history without the call; "
    "constructor-level malformed specifications must raise; non-trivial = the malformed call is issued on an object that already "
    "holds state (position > 0 or start state with sources)"
)
ASSUMPTIONS = [
    "any Exception counts as rejection (the statement does not fix the type)",
    "malformed variants: sizes off by +-1, one negative entry, rho in {-0.1, 1.1}, non-unit correlation diagonal, negative err_val with a correlation matrix, asymmetric / wrongly shaped constraint matrices, unknown / duplicate names, unknown axis, non-numeric limits, wrong-length set_all, Poisson-incompatible data, unsorted edges",
]


# ---------------------------------------------------------------------------------------
# malformed calls: name -> function(world) performing the call on the REAL object


def _vec(n, fill=0.2):
    return np.full(n, fill) + 0.01 * np.arange(n)


def container_bad_calls(w):
    c, n, xy = w.c, len(w.vals["y"]), w.obj.startswith("xy")
    ax = ("y",) if xy else ()
    C = np.eye(n) * 0.0 + 0.3
    np.fill_diagonal(C, 1.0)
    Cbad = C.copy()
    Cbad[1, 1] = 0.9
    neg = _vec(n)
    neg[n // 2] = -0.05
    calls = {
        "add_error:size+1": lambda: c.add_error(*ax, err_val=_vec(n + 1)),
        "add_error:size-1": lambda: c.add_error(*ax, err_val=_vec(n - 1)),
        "add_error:negative-entry": lambda: c.add_error(*ax, err_val=neg),
        "add_error:negative-relative": lambda: c.add_error(*ax, err_val=neg, relative=True),
        "add_error:rho<0": lambda: c.add_error(*ax, err_val=_vec(n), correlation=-0.1),
        "add_error:rho>1": lambda: c.add_error(*ax, err_val=_vec(n), correlation=1.1),
        "add_error:2d": lambda: c.add_error(*ax, err_val=np.ones((n, 2))),
        "add_error:length-1-relative": lambda: c.add_error(*ax, err_val=np.array([0.1]), relative=True),
        "add_error:length-1": lambda: c.add_error(*ax, err_val=np.array([0.1])),
        "add_matrix_error:size": lambda: c.add_matrix_error(*ax, err_matrix=np.eye(n + 1) * 0.04, matrix_type="cov"),
        "add_matrix_error:cor-size": lambda: c.add_matrix_error(*ax, err_matrix=np.eye(n + 1), matrix_type="cor", err_val=_vec(n + 1)),
        "add_matrix_error:cor-diag": lambda: c.add_matrix_error(*ax, err_matrix=Cbad, matrix_type="cor", err_val=_vec(n)),
        "add_matrix_error:cor-no-errval": lambda: c.add_matrix_error(*ax, err_matrix=C, matrix_type="cor"),
        "add_matrix_error:cor-negative-errval": lambda: c.add_matrix_error(*ax, err_matrix=C, matrix_type="cor", err_val=neg),
        "add_matrix_error:cov-with-errval": lambda: c.add_matrix_error(*ax, err_matrix=np.eye(n) * 0.04, matrix_type="cov", err_val=_vec(n)),
        "add_matrix_error:type": lambda: c.add_matrix_error(*ax, err_matrix=np.eye(n) * 0.04, matrix_type="covv"),
        "add_matrix_error:non-square": lambda: c.add_matrix_error(*ax, err_matrix=np.ones((n, n + 1)) * 0.04, matrix_type="cov"),
        "disable_error:unknown": lambda: c.disable_error("nope"),
        "enable_error:unknown": lambda: c.enable_error("nope"),
    }
    if w.sources:
        first = w.sources[0][0]
        calls["add_error:duplicate-name"] = lambda: c.add_error(*ax, err_val=_vec(n), name=first)
        calls["add_matrix_error:duplicate-name"] = lambda: c.add_matrix_error(*ax, err_matrix=np.eye(n) * 0.04, matrix_type="cov", name=first)
    if xy:
        calls["add_error:unknown-axis"] = lambda: c.add_error("z", err_val=_vec(n))
        calls["add_matrix_error:unknown-axis"] = lambda: c.add_matrix_error(2, err_matrix=np.eye(n) * 0.04, matrix_type="cov")
        calls["data:3xN"] = lambda: setattr(c, "data", np.ones((3, n)))
        calls["data:1d"] = lambda: setattr(c, "data", np.ones(n))
        calls["x:2d"] = lambda: setattr(c, "x", np.ones((2, n, 2)))
        calls["y:size"] = lambda: setattr(c, "y", np.ones(n + 1))
    elif w.obj == "indexed":
        calls["data:size"] = lambda: setattr(c, "data", np.ones(n + 1))
        calls["data:2d"] = lambda: setattr(c, "data", np.ones((n, 2, 2)))
    elif w.obj == "hist":
        calls["rebin:unsorted"] = lambda: c.rebin([0.0, 2.0, 1.0, 3.5, 4.5, 6.0])
        calls["fill:2d"] = lambda: c.fill(np.ones((2, 3)))
        calls["set_bins:length"] = lambda: c.set_bins(np.ones(n + 1))
        calls["set_bins:2d"] = lambda: c.set_bins(np.ones((n, 2)))
        calls["data:set"] = lambda: setattr(c, "data", np.ones(n))
    return calls


def fit_bad_calls(w):
    f, n, xy = w.fit, len(w.ref_data()[1]), w.ftype == "xy"
    ax = ("y",) if xy else ()
    C = np.full((n, n), 0.3)
    np.fill_diagonal(C, 1.0)
    Cbad = C.copy()
    Cbad[0, 0] = 1.2
    neg = _vec(n)
    neg[1] = -0.05
    p0, p1 = w.par_names[0], w.par_names[1]
    calls = {
        "add_error:size+1": lambda: f.add_error(*ax, err_val=_vec(n + 1)),
        "add_error:size-1": lambda: f.add_error(*ax, err_val=_vec(n - 1)),
        "add_error:negative-entry": lambda: f.add_error(*ax, err_val=neg),
        "add_error:negative-model": lambda: f.add_error(*ax, err_val=neg, reference="model"),
        "add_error:rho>1": lambda: f.add_error(*ax, err_val=_vec(n), correlation=1.1),
        "add_error:rho<0-model": lambda: f.add_error(*ax, err_val=_vec(n), correlation=-0.1, reference="model"),
        "add_error:reference": lambda: f.add_error(*ax, err_val=_vec(n), reference="both"),
        "add_matrix_error:size": lambda: f.add_matrix_error(*ax, err_matrix=np.eye(n - 1) * 0.04, matrix_type="cov"),
        "add_matrix_error:cor-diag": lambda: f.add_matrix_error(*ax, err_matrix=Cbad, matrix_type="cor", err_val=_vec(n)),
        "add_matrix_error:cor-negative-errval": lambda: f.add_matrix_error(*ax, err_matrix=C, matrix_type="cor", err_val=neg),
        "add_matrix_error:rel-model": lambda: f.add_matrix_error(*ax, err_matrix=np.eye(n) * 0.01, matrix_type="cov", relative=True, reference="model"),
        "disable_error:unknown": lambda: f.disable_error("nope"),
        "enable_error:unknown": lambda: f.enable_error("nope"),
        "add_parameter_constraint:unknown": lambda: f.add_parameter_constraint("nope", 1.0, 0.1),
        "add_matrix_parameter_constraint:unknown": lambda: f.add_matrix_parameter_constraint([p0, "nope"], [1.0, 2.0], [[0.1, 0.0], [0.0, 0.1]]),
        "add_matrix_parameter_constraint:asymmetric": lambda: f.add_matrix_parameter_constraint([p0, p1], [1.0, 2.0], [[0.1, 0.02], [0.0, 0.1]]),
        "add_matrix_parameter_constraint:shape": lambda: f.add_matrix_parameter_constraint([p0, p1], [1.0, 2.0], [[0.1, 0.0, 0.0], [0.0, 0.1, 0.0], [0.0, 0.0, 0.1]]),
        "add_matrix_parameter_constraint:shape-1d": lambda: f.add_matrix_parameter_constraint([p0, p1], [1.0, 2.0], [0.1, 0.1]),
        "add_matrix_parameter_constraint:shape-row": lambda: f.add_matrix_parameter_constraint([p0, p1], [1.0, 2.0], [[0.1, 0.1]]),
        "add_matrix_parameter_constraint:shape-column": lambda: f.add_matrix_parameter_constraint([p0, p1], [1.0, 2.0], [[0.1], [0.1]]),
        "add_matrix_parameter_constraint:shape-scalar": lambda: f.add_matrix_parameter_constraint([p0, p1], [1.0, 2.0], 0.1),
        "add_matrix_parameter_constraint:shape-3d": lambda: f.add_matrix_parameter_constraint([p0, p1], [1.0, 2.0], [[[0.1], [0.0]], [[0.0], [0.1]]]),
        "add_matrix_parameter_constraint:values-2d": lambda: f.add_matrix_parameter_constraint([p0, p1], [[1.0, 2.0]], [[0.1, 0.0], [0.0, 0.1]]),
        "add_matrix_parameter_constraint:unc-length": lambda: f.add_matrix_parameter_constraint([p0, p1], [1.0, 2.0], [[1.0, 0.2], [0.2, 1.0]], matrix_type="cor", uncertainties=[0.1, 0.2, 0.3]),
        "add_matrix_error:shape-1d": lambda: f.add_matrix_error(*ax, err_matrix=np.ones(n) * 0.04, matrix_type="cov"),
        "add_matrix_error:shape-row": lambda: f.add_matrix_error(*ax, err_matrix=np.ones((1, n)) * 0.04, matrix_type="cov"),
        "add_matrix_error:shape-column": lambda: f.add_matrix_error(*ax, err_matrix=np.ones((n, 1)) * 0.04, matrix_type="cov"),
        "add_matrix_error:shape-scalar": lambda: f.add_matrix_error(*ax, err_matrix=0.04, matrix_type="cov"),
        "add_matrix_error:cor-errval-length": lambda: f.add_matrix_error(*ax, err_matrix=C, matrix_type="cor", err_val=_vec(n + 1)),
        "add_matrix_parameter_constraint:lengths": lambda: f.add_matrix_parameter_constraint([p0, p1], [1.0], [[0.1]]),
        "add_matrix_parameter_constraint:cor-diag": lambda: f.add_matrix_parameter_constraint([p0, p1], [1.0, 2.0], [[1.0, 0.2], [0.2, 0.9]], matrix_type="cor", uncertainties=[0.1, 0.2]),
        "add_matrix_parameter_constraint:cor-no-unc": lambda: f.add_matrix_parameter_constraint([p0, p1], [1.0, 2.0], [[1.0, 0.2], [0.2, 1.0]], matrix_type="cor"),
        "add_matrix_parameter_constraint:cov-with-unc": lambda: f.add_matrix_parameter_constraint([p0, p1], [1.0, 2.0], [[0.1, 0.0], [0.0, 0.1]], matrix_type="cov", uncertainties=[0.1, 0.2]),
        "add_matrix_parameter_constraint:type": lambda: f.add_matrix_parameter_constraint([p0, p1], [1.0, 2.0], [[0.1, 0.0], [0.0, 0.1]], matrix_type="xx"),
        "set_parameter_values:unknown": lambda: f.set_parameter_values(**{p0: 1.7, "nope": 2.0}),
        "set_all_parameter_values:length": lambda: f.set_all_parameter_values([1.0] * (len(w.par_names) + 1)),
        "fix_parameter:unknown": lambda: f.fix_parameter("nope"),
        "fix_parameter:unknown-value": lambda: f.fix_parameter("nope", 1.0),
        "release_parameter:unknown": lambda: f.release_parameter("nope"),
        "limit_parameter:unknown": lambda: f.limit_parameter("nope", 0.0, 1.0),
        "limit_parameter:none": lambda: f.limit_parameter(p0),
        "limit_parameter:non-numeric": lambda: f.limit_parameter(p0, "a", 3.0),
        "unlimit_parameter:unknown": lambda: f.unlimit_parameter("nope"),
        "dynamic_error_algorithm:unknown": lambda: setattr(f, "dynamic_error_algorithm", "linear"),
    }
    if xy:
        calls["add_error:unknown-axis"] = lambda: f.add_error("z", err_val=_vec(n))
    if w.sources:
        first = list(w.sources)[0]
        calls["add_error:duplicate-name"] = lambda: f.add_error(*ax, err_val=_vec(n), name=first)
    if w.poisson:
        x, d = w.ref_data()
        bad = np.array(d, dtype=float)
        bad[1] = -1.0
        bad2 = np.array(d, dtype=float)
        bad2[2] += 0.5
        if xy:
            calls["data:negative"] = lambda: setattr(f, "data", [x, bad])
            calls["data:non-integer"] = lambda: setattr(f, "data", [x, bad2])
        elif w.ftype == "indexed":
            calls["data:negative"] = lambda: setattr(f, "data", bad)
            calls["data:non-integer"] = lambda: setattr(f, "data", bad2)
    if w.ftype == "indexed":
        calls["data:wrong-container"] = lambda: setattr(f, "data", w.k2.XYContainer([1.0, 2.0], [1.0, 2.0]))
    return calls


# ---------------------------------------------------------------------------------------
# engines

CONT_OBJS = ["indexed", "xy", "hist"]
FIT_CFGS = [("xy", "chi2", "expo"), ("indexed", "chi2", "idx2"), ("hist", "chi2", "normal"), ("xy", "nll", "lin"), ("indexed", "nll", "idx2")]
FIT_OBS = ["cost_function_value", "total_cov_mat", "total_error", "model", "ndf", "parameter_values", "goodness_of_fit", "data", "result_dict"]


def cont_base_ops(w, kinds):
    return [op for op in w.mutators(kinds, 2)]


def fit_base_ops(w):
    ops = []
    n = len(w.sources)
    if n < 2:
        for k in ("y-abs", "y-rel", "y-rel-model"):
            ops.append(("add", k, "e%d" % n))
    for name, (k, en) in w.sources.items():
        if en and w.n_enabled() > 1:
            ops.append(("dis", name))
    if not w.cons:
        ops.append(("con", "simple"))
    if not w.fixed:
        ops.append(("set", "P1"))
        ops.append(("fix", w.par_names[0]))
    if w.par_names[1] not in w.limits:
        ops.append(("lim", w.par_names[1], -5.0, 9.0))
    return ops


def fit_followups(w):
    ops = [("set", {w.par_names[1]: w.pv[w.par_names[1]] * 1.1 + 0.05})] if w.par_names[1] not in w.fixed else []
    ops.append(("add", "y-abs-rho", "z9"))
    if not w.poisson and (w.ftype != "hist") and (w.n_enabled() > 0 or w.cost_id != "chi2"):
        ops.append(("fit",))
    return ops


def observe_fit(w):
    return {o: w.observe(o) for o in FIT_OBS}


def observe_cont(w):
    return {r: w.read(r) for r in w.reads()}


def same(a, b):
    if isinstance(a, np.ndarray) or isinstance(b, np.ndarray):
        if a is None or b is None or isinstance(a, tuple) or isinstance(b, tuple):
            return False
        return a.shape == b.shape and bool(np.all((a == b) | (np.isnan(a) & np.isnan(b))))
    return close_scaled(a, b, rtol=1e-12)


def run_cont(obj, v, base, pos, bad_name, follow):
    """-> list of raw violations"""
    out = []
    res = []
    for with_bad in (True, False):
        w = c02.CWorld(obj, v)
        for op in base[:pos]:
            w.apply(op)
        if with_bad:
            call = container_bad_calls(w).get(bad_name)
            if call is None:
                return None
            with warnings.catch_warnings():
                warnings.simplefilter("ignore")
                try:
                    call()
                    out.append(("reject:" + bad_name, "an exception", "no exception", "not-rejected"))
                except Exception:  # noqa: BLE001
                    pass
        try:
            for op in base[pos:]:
                w.apply(op)
            if follow is not None:
                w.apply(follow)
            res.append(observe_cont(w))
        except Exception as e:  # noqa: BLE001
            res.append({"__exc__": ("EXC", type(e).__name__)})
    a, b = res
    for k in b:
        if k not in a or not same(a.get(k), b[k]):
            out.append(("after:" + k, _l(b[k]), _l(a.get(k)), "state-changed"))
            break
    return out


def run_fit(cfg, v, base, pos, bad_name, follow):
    out = []
    res = []
    ftype, cost, model = cfg
    for with_bad in (True, False):
        w = FitWorld(ftype, cost, model=model, v=v, n=6 if ftype != "hist" else 5)
        for op in base[:pos]:
            w.apply(op)
        if with_bad:
            call = fit_bad_calls(w).get(bad_name)
            if call is None:
                return None
            with warnings.catch_warnings():
                warnings.simplefilter("ignore")
                try:
                    call()
                    out.append(("reject:" + bad_name, "an exception", "no exception", "not-rejected"))
                except Exception:  # noqa: BLE001
                    pass
        try:
            for op in base[pos:]:
                w.apply(op)
            if follow is not None:
                w.apply(follow)
            res.append(observe_fit(w))
        except Exception as e:  # noqa: BLE001
            res.append({"__exc__": ("EXC", type(e).__name__ + ": " + str(e)[:100])})
    a, b = res
    has_fit = follow is not None and follow[0] == "fit"
    for k in b:
        ok = (k in a) and (close_scaled(a[k], b[k], rtol=1e-12) if not has_fit else close_scaled(a[k], b[k], rtol=5e-3))
        if not ok:
            out.append(("after:" + k, b[k], a.get(k), "state-changed"))
            break
    return out


def _l(x):
    return x.tolist() if isinstance(x, np.ndarray) else x


# ---------------------------------------------------------------------------------------
# constructor-level specifications


def constructor_cases():
    import kafe2
    from kafe2.core.constraint import GaussianMatrixParameterConstraint

    cases = []
    x = [1.0, 2.0, 3.0, 4.0]
    y = [2.0, 4.0, 5.0, 8.0]
    for cls, name in ((kafe2.XYFit, "XYFit"), (kafe2.IndexedFit, "IndexedFit"), (kafe2.HistFit, "HistFit")):
        for reserved in sorted(cls.RESERVED_NODE_NAMES):
            if not reserved.isidentifier():
                continue
            if cls is kafe2.XYFit:
                src = "def model(x, a, %s):\n    return a * x\n" % reserved
                mk = lambda fn, cls=cls: cls([x, y], fn)  # noqa: E731
            elif cls is kafe2.IndexedFit:
                src = "def model(a, %s):\n    return a * np.ones(4)\n" % reserved
                mk = lambda fn, cls=cls: cls(y, fn)  # noqa: E731
            else:
                src = "def model(x, a, %s):\n    return a + 0 * x\n" % reserved
                mk = lambda fn, cls=cls: cls(kafe2.HistContainer(n_bins=2, bin_range=(0, 2), fill_data=[0.5, 1.5]), fn)  # noqa: E731
            ns = {"np": np}
            exec(src, ns)
            cases.append(("%s:reserved:%s" % (name, reserved), (lambda mk=mk, fn=ns["model"]: mk(fn))))
    cases += [
        ("XYFit:poisson-negative", lambda: kafe2.XYFit([x, [2.0, -1.0, 3.0, 4.0]], cost_function="nll")),
        ("XYFit:poisson-non-integer", lambda: kafe2.XYFit([x, [2.0, 1.5, 3.0, 4.0]], cost_function="nll")),
        ("IndexedFit:poisson-non-integer", lambda: kafe2.IndexedFit([2.0, 1.5, 3.0], lambda a=1.0, b=1.0: a * np.ones(3) + b, cost_function="nllr")),
        ("HistContainer:unsorted-edges", lambda: kafe2.HistContainer(n_bins=3, bin_range=(0, 3), bin_edges=[0.0, 2.0, 1.0, 3.0])),
        ("HistContainer:edges-vs-range", lambda: kafe2.HistContainer(n_bins=3, bin_range=(0, 4), bin_edges=[0.0, 1.0, 2.0, 3.0])),
        ("HistContainer:nothing", lambda: kafe2.HistContainer()),
        ("XYContainer:sizes", lambda: kafe2.XYContainer([1.0, 2.0, 3.0], [1.0, 2.0])),
        ("XYFit:unknown-cost", lambda: kafe2.XYFit([x, y], cost_function="chi3")),
        ("XYFit:unknown-algorithm", lambda: kafe2.XYFit([x, y], dynamic_error_algorithm="both")),
        ("Constraint:asymmetric", lambda: GaussianMatrixParameterConstraint([0, 1], [1.0, 2.0], [[0.1, 0.02], [0.0, 0.1]])),
        ("Constraint:shape", lambda: GaussianMatrixParameterConstraint([0, 1], [1.0, 2.0], np.eye(3))),
        ("Constraint:shape-1d", lambda: GaussianMatrixParameterConstraint([0, 1], [1.0, 2.0], [0.1, 0.1])),
        ("Constraint:shape-row", lambda: GaussianMatrixParameterConstraint([0, 1], [1.0, 2.0], [[0.1, 0.1]])),
        ("Constraint:shape-column", lambda: GaussianMatrixParameterConstraint([0, 1], [1.0, 2.0], [[0.1], [0.1]])),
        ("Constraint:shape-scalar", lambda: GaussianMatrixParameterConstraint([0, 1], [1.0, 2.0], 0.1)),
        ("Constraint:indices-length", lambda: GaussianMatrixParameterConstraint([0, 1, 2], [1.0, 2.0], [[0.1, 0.0], [0.0, 0.1]])),
        ("MatrixGaussianError:shape-1d", lambda: __import__("kafe2.core.error", fromlist=["x"]).MatrixGaussianError([0.1, 0.2], "cov")),
        ("MatrixGaussianError:non-square", lambda: __import__("kafe2.core.error", fromlist=["x"]).MatrixGaussianError([[0.1, 0.0, 0.0], [0.0, 0.1, 0.0]], "cov")),
        ("Constraint:cor-diag", lambda: GaussianMatrixParameterConstraint([0, 1], [1.0, 2.0], [[1.0, 0.1], [0.1, 1.1]], matrix_type="cor", uncertainties=[0.1, 0.1])),
        ("Constraint:cor>1", lambda: GaussianMatrixParameterConstraint([0, 1], [1.0, 2.0], [[1.0, 1.2], [1.2, 1.0]], matrix_type="cor", uncertainties=[0.1, 0.1])),
        ("SimpleGaussianError:rho", lambda: __import__("kafe2.core.error", fromlist=["x"]).SimpleGaussianError([0.1, 0.2], 1.5)),
        ("SimpleGaussianError:negative", lambda: __import__("kafe2.core.error", fromlist=["x"]).SimpleGaussianError([0.1, -0.2], 0.0)),
    ]
    return cases


# ---------------------------------------------------------------------------------------
# jobs


def jobs(tier, seed):
    v = seed % 3
    specs = [("ctor", None, v, tier, 0), ("graph", None, v, tier, 0)]
    for obj in CONT_OBJS:
        for sh in range(3):
            specs.append(("cont", obj, v, tier, sh))
    for i, cfg in enumerate(FIT_CFGS):
        for sh in range(6):
            specs.append(("fit", i, v, tier, sh))
    return specs


def bound(tier, seed):
    return "containers (indexed, xy, histogram) and fits (xy/indexed/hist chi2, xy/indexed Poisson): base histories of length <= %d, every malformed call (17-24 per container, 34-40 per fit) at every position, followed by reads and by each of 3 valid follow-up operations; ~100 constructor-level malformed specifications incl. every reserved parameter name; Nexus registry BFS with every cycle-closing dependency (depth 4)" % (
        1 if tier == "quick" else 2
    )


def _bases(make, ops_fn, L):
    out = [()]

    def rec(prefix):
        if len(prefix) >= L:
            return
        w = make()
        for op in prefix:
            w.apply(op)
        for op in ops_fn(w):
            out.append(prefix + (op,))
            rec(prefix + (op,))

    rec(())
    return out


def run_job(spec):
    kind, arg, v, tier, shard = spec
    res = JobResult()
    L = 1 if tier == "quick" else 2
    if kind == "ctor":
        for name, fn in constructor_cases():
            with warnings.catch_warnings():
                warnings.simplefilter("ignore")
                try:
                    fn()
                    raised = None
                except Exception as e:  # noqa: BLE001
                    raised = type(e).__name__
            res.executions += 1
            res.evaluations += 1
            res.state(name)
            res.nontriv(name)
            res.observe((name, raised))
            res.outcomes[("ctor", name.split(":")[1] if "reserved" in name else name, str(raised))] += 1
            if raised is None:
                res.violation("ctor|" + name, [dict(kind="ctor", name=name)], "reject:" + name, "an exception", "no exception", "not-rejected")
        res.sample(dict(kind="constructor-level", cases=len(constructor_cases())))
        return res.as_dict()
    if kind == "graph":
        from checks.c04_registry import RegistryWorld
        from checks import c04_nexus

        gspec = ("nexus", "registry", None, None, 4 if tier == "quick" else 5, None)
        tagged = c04_nexus._Tagger(res, gspec, lambda: RegistryWorld())
        explore.bfs(tagged.make, tagged, max_depth=gspec[4], max_states=400000)
        for vv in res.violations:
            vv["history"] = [dict(kind="graph")] + vv["history"]
        res.sample(dict(kind="graph", note="Nexus registry BFS with every cycle-closing add_dependency", states=len(res.state_hashes)))
        return res.as_dict()
    if kind == "cont":
        obj = arg
        kinds = c02.QUICK_KINDS[obj][:3]
        make = lambda: c02.CWorld(obj, v)  # noqa: E731
        bases = _bases(make, lambda w: cont_base_ops(w, kinds), L + 1)
        names = sorted(set(n for b in bases[:40] for n in container_bad_calls(_replayed(make, b))))
        follow_ops = [None, ("add", kinds[0], "z9"), ("add", kinds[1], "z8")]
        work = [(b, pos, n, f) for b in bases for pos in range(len(b) + 1) for n in names for f in follow_ops]
        work = [wk for i, wk in enumerate(work) if i % 3 == shard]
        for base, pos, n, f in work:
            raw = run_cont(obj, v, base, pos, n, f)
            if raw is None:
                continue
            _account(res, "cont:" + obj, base, pos, n, f, raw, dict(kind="cont", obj=obj, v=v))
        res.sample(dict(kind="container", obj=obj, bases=len(bases), malformed=names[:5], work=len(work)))
        return res.as_dict()
    cfg = FIT_CFGS[arg]
    make = lambda: FitWorld(cfg[0], cfg[1], model=cfg[2], v=v, n=6 if cfg[0] != "hist" else 5)  # noqa: E731
    bases = _bases(make, fit_base_ops, L)
    names = sorted(set(n for b in bases[:30] for n in fit_bad_calls(_replayed(make, b))))
    work = []
    for b in bases:
        w = _replayed(make, b)
        fos = [None] + fit_followups(w)
        for pos in range(len(b) + 1):
            for n in names:
                for f in fos:
                    work.append((b, pos, n, f))
    work = [wk for i, wk in enumerate(work) if i % 6 == shard]
    for base, pos, n, f in work:
        try:
            raw = run_fit(cfg, v, base, pos, n, f)
        except Exception as e:  # noqa: BLE001
            raw = [("harness", "no exception", "%s: %s" % (type(e).__name__, str(e)[:120]), "exception:" + type(e).__name__)]
        if raw is None:
            continue
        _account(res, "fit:%s/%s" % (cfg[0], cfg[1]), base, pos, n, f, raw, dict(kind="fit", cfg=list(cfg), v=v))
    res.sample(dict(kind="fit", cfg=list(cfg), bases=len(bases), malformed=len(names), work=len(work)))
    return res.as_dict()


def _replayed(make, base):
    w = make()
    for op in base:
        w.apply(op)
    return w


def _account(res, tag, base, pos, n, f, raw, head):
    res.executions += 2
    res.transitions += 2 * (len(base) + (1 if f else 0)) + 1
    res.evaluations += 1 + 8
    key = (tag, base, pos, n, f)
    res.state(repr(key))
    if pos > 0:
        res.nontriv(repr(key))
    res.observe((repr(key), len(raw)))
    res.outcomes[(tag, n.split(":")[0], "ok" if not raw else raw[0][3])] += 1
    res.facts["bad:" + n] += 1
    for o, e, a, m in raw:
        hist = [dict(head, bad=n, pos=pos, follow=_j(f))] + [_j(op) for op in base]
        sig = "%s|%s|%s@%d|%s" % (tag, ";".join(_t(op) for op in base), n, pos, _t(f) if f else "-")
        res.violation(sig, hist, o, e, a, m)


def _t(op):
    return ":".join(str(x) for x in op[:2]) if op else "-"


def _j(op):
    if op is None:
        return None
    return [dict(x) if isinstance(x, dict) else x for x in op]


def _tup(op):
    return None if op is None else tuple(tuple(x) if isinstance(x, list) else x for x in op)


def replay(history):
    h = history[0]
    if h.get("kind") == "ctor":
        for name, fn in constructor_cases():
            if name == h["name"]:
                try:
                    with warnings.catch_warnings():
                        warnings.simplefilter("ignore")
                        fn()
                except Exception:  # noqa: BLE001
                    return []
                return [dict(observable="reject:" + name, expected="an exception", actual="no exception", mode="not-rejected")]
        return []
    if h.get("kind") == "graph":
        from checks import c04_nexus

        return c04_nexus.replay(history[1:])
    base = tuple(_tup(o) for o in history[1:])
    if h["kind"] == "cont":
        raw = run_cont(h["obj"], h["v"], base, h["pos"], h["bad"], _tup(h["follow"]))
    else:
        raw = run_fit(tuple(h["cfg"]), h["v"], base, h["pos"], h["bad"], _tup(h["follow"]))
    return [dict(observable=o, expected=e, actual=a, mode=m) for o, e, a, m in (raw or [])]


def triage_key(v):
    f = v["sig"].split("|")
    if f[0] == "ctor":
        return ("ctor", f[1].split(":")[0] + ":" + f[1].split(":")[1], v["mode"])
    if len(f) < 3:
        return (f[0], v["observable"], v["mode"])
    return (f[0], f[2].split("@")[0], v["observable"].split(":")[0], v["mode"])


def vacuity_guards(tot, tier):
    yield "more than 40 distinct malformed calls issued", sum(1 for k in tot.facts if k.startswith("bad:")) > 40
    yield "constructor cases evaluated", any(isinstance(k, tuple) and k[0] == "ctor" for k in tot.outcomes)
    yield "cyclic dependencies rejected in the graph engine", tot.facts.get("dep:cyclic", 0) > 0
