"""C01 - the cost value is the documented -2 log-likelihood of exactly the declared inputs.

Mode D (grammar product): fit type x cost identifier x ordered source lists x disable/enable x constraints x
parameter points, each executed on the real API and compared with the dense reference (kmc.ref).
"""
import itertools

import numpy as np

from kmc import ref
from kmc.core import JobResult
from kmc.fitworld import FitWorld, canon, close_scaled

PROPERTY = "C01"
RULE = (
    "configurations = (fit type, model, cost identifier, ordered list of declared sources, disabled subset, constraints); "
    "each is built on the real API and the cost / total covariance / total error / model are read at the default point, "
    "after set_parameter_values to two displaced points, and compared with the dense numpy reference; a configuration is "
    "non-trivial when at least one enabled source or constraint contributes to the reference cost"
)
ASSUMPTIONS = [
    "error-needing costs are only evaluated with at least one enabled source and a positive definite total (the property excludes degenerate totals)",
    "x-uncertainties are projected with the documented central difference (step 0.01 sigma_x)",
    "histogram models use the exact antiderivative so that the reference integral is exact",
]

XY_KINDS_QUICK = ["y-abs", "y-abs-rho", "y-rel", "y-rel-model", "y-cov", "y-cor", "y-cov-rel", "x-abs", "x-rel", "x-cov", "y-abs-model", "x-abs-model"]
XY_KINDS_ALL = list(ref.KINDS)
IDX_KINDS = [k for k in ref.KINDS if k.startswith("y-")]
IDX_KINDS_QUICK = ["y-abs", "y-abs-rho", "y-rel", "y-rel-model", "y-cov", "y-cor-rel", "y-abs-model"]
HIST_KINDS = ["y-abs", "y-abs-rho", "y-rel", "y-rel-model", "y-cov", "y-cor", "y-abs-model"]

CANON = {
    "xy": ["chi2:nodet", "chi2:axes_y", "chi2", "chi2_fast", "chi2_pointwise", "chi2_no_errors", "chi2_covariance", "nll-gaussian", "nllr-gaussian", "nll", "nllr-poisson", "gauss_approximation", "gauss_approximation_pointwise"],
    "indexed": ["chi2:nodet", "chi2", "chi2_fast", "chi2_pointwise", "chi2_no_errors", "chi2_covariance", "nll-gaussian", "nllr-gaussian", "nll", "nllr-poisson", "gauss_approximation", "gauss_approximation_covariance_fast", "gauss_approximation_pointwise"],
    "hist": ["chi2:nodet", "chi2", "chi2_fast", "chi2_pointwise", "nll-gaussian", "nll", "nllr", "gauss_approximation", "gauss_approximation_pointwise"],
    "unbinned": ["nll"],
}
CONS = [(), ("simple",), ("simple-rel",), ("matrix-cov",), ("matrix-cor",), ("matrix-cov-rel",), ("simple", "matrix-cor")]


def all_ids(ftype):
    if ftype == "xy":
        from kafe2.fit.xy.cost import STRING_TO_COST_FUNCTION as T
    elif ftype == "unbinned":
        from kafe2.fit.unbinned.cost import STRING_TO_COST_FUNCTION as T
    else:
        from kafe2.fit._base.cost import STRING_TO_COST_FUNCTION as T
    ids = sorted(T)
    if ftype in ("xy", "indexed", "hist"):
        ids.append("chi2:nodet")  # cost function object built with add_determinant_cost=False
    if ftype == "xy":
        ids.append("chi2:axes_y")  # cost function object built with axes_to_use="y"
    return ids


def source_lists(kinds, maxlen):
    out = []
    for L in range(1, maxlen + 1):
        for combo in itertools.permutations(kinds, L):
            out.append(combo)
    return out


def jobs(tier, seed):
    v = seed % 3
    vals = [v] if tier == "quick" else [0, 1, 2]
    specs = []
    for vv in vals:
        for ftype in ("xy", "indexed", "hist", "unbinned"):
            models = {"xy": ["lin", "expo"], "indexed": ["idx2"], "hist": ["normal"], "unbinned": ["normal"]}[ftype]
            ids = all_ids(ftype)
            for cid in ids:
                for model in models:
                    specs.append((ftype, model, cid, vv, tier))
    return specs


def bound(tier, seed):
    return "all cost identifiers of all four fit types; ordered source lists of length <= %d over the kind alphabet (full for canonical identifiers, singletons for aliases); one disabled source; 7 constraint sets; 3 parameter points; valuation(s) %s" % (
        2 if tier == "quick" else 3,
        (seed % 3) if tier == "quick" else "0,1,2",
    )


def _plans(ftype, cid, tier):
    """-> list of (source list, disabled index or None, constraint tuple)"""
    fam, var = ref.cost_family(cid) if ftype != "unbinned" else ("nll", "unbinned")
    canonical = cid in CANON[ftype]
    uses_sources = not (fam in ("nll", "nllr") and var in ("poisson", "unbinned")) and not (fam == "chi2" and var == "none")
    if ftype == "xy":
        kinds = XY_KINDS_QUICK if tier == "quick" else XY_KINDS_ALL
    elif ftype == "indexed":
        kinds = IDX_KINDS_QUICK if tier == "quick" else IDX_KINDS
    elif ftype == "hist":
        kinds = HIST_KINDS
    else:
        kinds = []
    plans = []
    if not uses_sources or not kinds:
        # sources do not enter these likelihoods: constraints x points only (plus one declared source that must not matter)
        for c in CONS:
            plans.append(((), None, c))
            if c:
                plans.append(((), None, c, True))
        if kinds and fam == "chi2":
            plans.append((("y-abs",), None, ()))
        return plans
    maxlen = 2 if (tier == "quick" or not canonical) else 3
    if not canonical:
        lists = [(k,) for k in kinds[:4]] + [(kinds[0], kinds[-1])]
    else:
        lists = source_lists(kinds, 2)
        if maxlen == 3:
            core = [k for k in kinds if k in ("y-abs", "y-rel-model", "y-cov", "x-abs", "y-rel", "x-abs-model", "y-abs-rho")]
            lists += [c for c in itertools.permutations(core, 3)]
    for sl in lists:
        plans.append((sl, None, ()))
        if canonical and len(sl) >= 2:
            plans.append((sl, len(sl) - 1, ()))
            plans.append((sl, 0, ()))
        if canonical and len(sl) <= 2:
            # a source disabled and enabled again contributes exactly as if it had never been disabled (with a cost read in between)
            plans.append((sl, ("cycle", 0), ()))
            if len(sl) == 2:
                plans.append((sl, ("cycle", 1), ()))
    if cid == "chi2":
        plans.append(((), None, ()))  # documented fallback: chi2 without any source is the plain sum of squares
        plans.append(((), None, ("simple",)))
    firsts = [(kinds[0],), (kinds[1],)] + ([("y-rel-model",)] if "y-rel-model" in kinds else [])
    for sl in firsts:
        for c in CONS[1:]:
            plans.append((sl, None, c))
            if sl == firsts[0]:
                plans.append((sl, None, c, True))
    return plans


def _cost_cov(cid):
    """the covariance the cost function is documented to use: the xy cost object built with axes_to_use='y' takes the y sources only"""
    return "y_total" if cid == "chi2:axes_y" else "total"


def _pd(M):
    try:
        w = np.linalg.eigvalsh(M)
        return w[0] > 1e-10 * max(1.0, w[-1]) and w[-1] / w[0] < 1e7
    except Exception:  # noqa: BLE001
        return False


def run_one(res, ftype, model, cid, v, plan, collect=None):
    sl, dis, cons = plan[:3]
    preread = len(plan) > 3 and plan[3]
    ops = [("add", k, "e%d" % i) for i, k in enumerate(sl)]
    if isinstance(dis, tuple):
        ops += [("dis", "e%d" % dis[1]), ("read", "cost_function_value"), ("en", "e%d" % dis[1])]
    elif dis is not None:
        ops.append(("dis", "e%d" % dis))
    if preread:
        # the cost is read once before the constraints are declared: no declared constraint may be ignored afterwards
        ops.append(("read", "cost_function_value"))
    ops += [("con", c) for c in cons]
    hist = [dict(ftype=ftype, model=model, cost=cid, v=v)]
    try:
        w = FitWorld(ftype, cid, model=model, v=v)
    except Exception as e:  # noqa: BLE001
        res.executions += 1
        return [_viol(res, ftype, model, cid, hist, "op:construct", "no exception", "%s: %s" % (type(e).__name__, str(e)[:150]), "exception:" + type(e).__name__)]
    try:
        for op in ops:
            hist.append(list(op))
            if op[0] == "read":
                w.observe(op[1])
            else:
                w.apply(op)
            res.transitions += 1
    except Exception as e:  # noqa: BLE001
        res.executions += 1
        return [_viol(res, ftype, model, cid, hist, "op:" + op[0], "no exception", "%s: %s" % (type(e).__name__, str(e)[:150]), "exception:" + type(e).__name__)]
    viol = []
    for pid in ("P0", "P1", "P2"):
        if pid != "P0":
            op = ("set", pid)
            hist.append(list(op))
            try:
                w.apply(op)
            except Exception as e:  # noqa: BLE001
                viol.append(_viol(res, ftype, model, cid, hist, "op:set", "no exception", type(e).__name__, "exception:" + type(e).__name__))
                break
            res.transitions += 1
        # well-posedness according to the reference
        needs = ftype != "unbinned" and ref.needs_sources(cid) and not w.implicit_no_errors
        covs = w.ref_covs() if ftype != "unbinned" else None
        m = w.ref_model()
        fam, var = ref.cost_family(cid) if ftype != "unbinned" else ("nll", "u")
        if needs and (w.n_enabled() == 0 or not _pd(covs[_cost_cov(cid)])):
            continue
        if fam == "ga" and not _pd(covs["total"] + np.diag(m)):
            continue
        if (fam in ("nll", "nllr", "ga") and var != "gauss") and np.any(np.asarray(m) <= 0):
            continue
        checks = [("cost_function_value", w.ref_cost())]
        if ftype != "unbinned":
            checks.append(("model", canon(m)))
            if w.n_enabled() > 0:
                checks.append(("total_cov_mat", canon(covs["total"])))
                checks.append(("total_error", canon(np.sqrt(np.diag(covs["total"])))))
        for obs, exp in checks:
            act = w.observe(obs)
            res.evaluations += 1
            res.observe((ftype, cid, model, sl, dis, cons, preread, pid, obs, act if not isinstance(act, float) else round(act, 9)))
            ok = close_scaled(act, exp, rtol=1e-9)
            res.outcomes[(ftype, ref.cost_family(cid)[0] if ftype != "unbinned" else "nll-unbinned", obs, "ok" if ok else "MISMATCH")] += 1
            if not ok:
                mode = "wrong-value" if not isinstance(act, tuple) else "exception:" + act[1]
                viol.append(_viol(res, ftype, model, cid, hist, obs, exp, act, mode))
        res.state((ftype, model, cid, sl, dis, cons, preread, pid, v))
        if w.n_enabled() > 0 or cons:
            res.nontriv((ftype, model, cid, sl, dis, cons, preread, pid, v))
    res.executions += 1
    if not viol and ftype != "unbinned":
        viol += _post_fit_phase(res, w, ftype, model, cid, hist, sl, dis, cons)
    return viol


def _post_fit_phase(res, w, ftype, model, cid, hist, sl, dis, cons):
    """do_fit() must not change WHICH function is reported: the cost at the fitted point (and after declaring one more,
    correlated, source) still is the documented likelihood of the declared inputs."""
    fam, var = ref.cost_family(cid)
    out = []
    if w.n_enabled() == 0 and ref.needs_sources(cid) and not w.implicit_no_errors:
        return out
    if w.has_model_sources() and fam != "chi2":
        return out  # keep the fitted problems simple: likelihood fits with parameter-dependent errors are covered in C06
    steps = [("fit",)]
    if fam in ("chi2", "ga") or var == "gauss":
        steps.append(("add", "y-abs-rho", "z9"))
    for op in steps:
        hist.append(list(op))
        try:
            w.apply(op)
        except Exception as e:  # noqa: BLE001
            if op[0] == "fit":
                return out  # a fit that cannot run (ill-posed configuration of the product) is not this property's business
            out.append(_viol(res, ftype, model, cid, hist, "op:" + op[0], "no exception", type(e).__name__, "exception:" + type(e).__name__))
            return out
        res.transitions += 1
        pv = np.array(list(w.pv.values()), dtype=float)
        if not np.all(np.isfinite(pv)):
            return out
        covs = w.ref_covs()
        m = np.asarray(w.ref_model(), dtype=float)
        if ref.needs_sources(cid) and not w.implicit_no_errors and not _pd(covs[_cost_cov(cid)]):
            return out
        if fam == "ga" and not _pd(covs["total"] + np.diag(m)):
            return out
        if (fam in ("nll", "nllr", "ga") and var != "gauss") and np.any(m <= 0):
            return out
        exp = w.ref_cost()
        if not np.isfinite(exp):
            return out
        act = w.observe("cost_function_value")
        res.evaluations += 1
        ok = close_scaled(act, exp, rtol=1e-9)
        res.outcomes[(ftype, fam, "cost-after-" + op[0], "ok" if ok else "MISMATCH")] += 1
        res.facts["post-fit:" + ftype] += 1
        if not ok:
            out.append(_viol(res, ftype, model, cid, hist, "cost_function_value", exp, act, "wrong-value" if not isinstance(act, tuple) else "exception:" + act[1]))
            return out
    return out


def _viol(res, ftype, model, cid, hist, obs, exp, act, mode):
    ops = ";".join(":".join(str(x) for x in h[:2]) if h[0] in ("add", "con", "set", "read") else ":".join(str(x) for x in h) for h in hist[1:])
    sig = "%s|%s|%s|%s" % (ftype, cid, model, ops)
    return res.violation(sig, hist, obs, exp, act, mode)


def run_job(spec):
    ftype, model, cid, v, tier = spec
    res = JobResult()
    plans = _plans(ftype, cid, tier)
    for plan in plans:
        run_one(res, ftype, model, cid, v, plan)
    res.sample(dict(fit=ftype, model=model, cost=cid, valuation=v, plans=len(plans), example=[list(plans[0][0]), plans[0][1], list(plans[0][2])]))
    res.facts["ids:" + ftype] += 1
    return res.as_dict()


def replay(history):
    head = history[0]
    try:
        w = FitWorld(head["ftype"], head["cost"], model=head["model"], v=head["v"])
    except Exception as e:  # noqa: BLE001
        return [dict(observable="op:construct", expected="no exception", actual=type(e).__name__, mode="exception:" + type(e).__name__)]
    res = JobResult()
    out = []
    for op in history[1:]:
        op = tuple(op)
        try:
            if op[0] == "read":
                w.observe(op[1])
                continue
            w.apply(op)
        except Exception as e:  # noqa: BLE001
            return [dict(observable="op:" + op[0], expected="no exception", actual=type(e).__name__, mode="exception:" + type(e).__name__)]
    exp = w.ref_cost()
    for obs, e in (("cost_function_value", exp),):
        act = w.observe(obs)
        if not close_scaled(act, e, rtol=1e-9):
            out.append(dict(observable=obs, expected=e, actual=act, mode="wrong-value"))
    if head["ftype"] != "unbinned":
        covs = w.ref_covs()
        for obs, e in (("model", canon(w.ref_model())), ("total_cov_mat", canon(covs["total"])), ("total_error", canon(np.sqrt(np.diag(covs["total"]))))):
            if obs != "model" and w.n_enabled() == 0:
                continue
            act = w.observe(obs)
            if not close_scaled(act, e, rtol=1e-9):
                out.append(dict(observable=obs, expected=e, actual=act, mode="wrong-value"))
    return out


def vacuity_guards(tot, tier):
    yield "all four fit types explored", all(tot.facts.get("ids:" + t, 0) > 0 for t in ("xy", "indexed", "hist", "unbinned"))
    yield "more than 10 outcome classes", len(tot.outcomes) > 10


def triage_key(v):
    f = v["sig"].split("|")
    fam = ref.cost_family(f[1]) if f[0] != "unbinned" else ("nll", "u")
    return (f[0], fam, v["observable"], v["mode"], "rel-model" if "rel-model" in v["sig"] else "")
