#!/venv/bin/python
"""Regenerates MANIFEST.json from the table below (kept in one place so it always validates)."""
import json, os, sys
HERE = os.path.dirname(os.path.abspath(__file__))
CHECKS = json.load(open(os.path.join(HERE, "manifest_checks.json")))
props = [json.loads(l)["id"] for l in open(os.path.join(HERE, "properties.jsonl"))]
doc = {
    "version": 1,
    "setup_cmd": "cd /verif && /venv/bin/python -m compileall -q kmc checks >/dev/null; /venv/bin/python -c \"import json; json.load(open('known_findings.json'))\"",
    "hooks": {
        "guard": "KAFE2_VERIF",
        "enable": "none needed: checks import /repo's working tree directly (PYTHONPATH=/repo); no hook commits exist",
        "baseline_off_cmd": "cd /repo && /venv/bin/python -m pytest -ra -q -p no:cacheprovider --timeout=900 --continue-on-collection-errors",
        "source_commits": [],
        "add_only": True,
    },
    "engines": [
        {"name": "kmc", "path": "/verif/kmc", "serves_properties": [c["property_id"] for c in CHECKS["checks"]],
         "kind_free_text": "hand-written explicit-state explorer for Python: replay-from-scratch BFS with structural-fingerprint state merging, deviation-bounded history enumeration, exhaustive grammar products; reference models in numpy; runs on the real kafe2 objects"}
    ],
    "checks": [],
    "not_applicable": [],
    "notes": CHECKS.get("notes", ""),
}
claimed = set()
for c in CHECKS["checks"]:
    pid = c["property_id"]
    claimed.add(pid)
    doc["checks"].append({
        "property_id": pid,
        "quick_cmd": "./check %s --tier quick" % pid,
        "thorough_cmd": "./check %s --tier thorough" % pid,
        "evidence_file": "/verif/evidence/%s.json" % pid,
        "replay_cmd_template": "./check %s --replay {path}" % pid,
        "engine": "kmc",
        "level_claimed": {"category": "model_checking", "text": c["text"], "design_ref": c.get("design_ref", "DESIGN.md section 4, " + pid)},
        "level_note": c["note"],
        "technique": c["technique"],
    })
for pid in props:
    if pid not in claimed:
        doc["not_applicable"].append({"property_id": pid, "reason": CHECKS["pending"].get(pid, "check not built yet in this round (bounded exhaustive formulation planned in DESIGN.md section 4)")})
json.dump(doc, open(os.path.join(HERE, "MANIFEST.json"), "w"), indent=1)
import jsonschema
jsonschema.validate(doc, json.load(open("/root/.vp/MANIFEST.schema.json")))
print("MANIFEST ok: %d checks, %d not claimed" % (len(doc["checks"]), len(doc["not_applicable"])))
