#!/venv/bin/python
"""tools/triage.py <ID> [tier] [seed] : run all jobs of a check, group violations (development aid)."""
import sys, os, time, collections, importlib, warnings
sys.path.insert(0, '/verif'); sys.path.insert(0, os.environ.get('KAFE2_SRC', '/repo'))
warnings.simplefilter('ignore')
from kmc import core, cli
mod = importlib.import_module(cli.find_module(sys.argv[1]))
tier = sys.argv[2] if len(sys.argv) > 2 else 'quick'
seed = int(sys.argv[3]) if len(sys.argv) > 3 else 0
t = time.time()
specs = mod.jobs(tier, seed)
if os.environ.get('JOBFILTER'):
    specs = [s for s in specs if os.environ['JOBFILTER'] in repr(s)]
res = core.run_jobs(mod.__name__, specs)
tot = core.merge(res)
print('jobs', len(specs), 'exec', tot.executions, 'evals', tot.evaluations, 'viol', len(tot.violations), 'states', len(tot.state_hashes), 'nontriv', len(tot.nontrivial), '%.1fs' % (time.time() - t))
groups = collections.OrderedDict()
keyf = getattr(mod, 'triage_key', lambda v: (v['sig'].split('|')[0], v['sig'].split('|')[1] if '|' in v['sig'] else '', v['observable'], v['mode']))
for v in tot.violations:
    groups.setdefault(keyf(v), []).append(v)
for k, vs in groups.items():
    vs.sort(key=lambda v: len(v['sig']))
    print(len(vs), k)
    print('     sig', vs[0]['sig'])
    print('     exp', str(vs[0]['expected'])[:160])
    print('     act', str(vs[0]['actual'])[:160])
