#!/venv/bin/python
"""tools/seed_eval.py <ID> [k...] : confirm a sub-agent's seeded change (demo passes on the clean tree, fails with the change,
repository tests unchanged) in the scratch worktree /tmp/mutrun, run the quick check(s) against it (KAFE2_SRC=/tmp/mutrun, /repo is
not touched), and file it under /verif/seeded/<ID>-<k>/ with the outcome in meta.json."""
import json, os, shutil, subprocess, sys, time

WT = os.environ.get('WT', '/tmp/mutrun')   # one scratch worktree per concurrent lane
pid = sys.argv[1]
ks = sys.argv[2:] or ['1', '2']
also = os.environ.get('ALSO', '').split()

def sh(cmd, **kw):
    return subprocess.run(cmd, shell=True, stdout=subprocess.PIPE, stderr=subprocess.STDOUT, text=True, **kw)

head = os.environ.get('HEADREV') or sh('git -C /repo rev-parse HEAD').stdout.strip()   # HEADREV: evaluate a change written for an earlier commit there
sh('git -C %s checkout -q --detach %s' % (WT, head))
sh('git -C %s checkout -- .' % WT)
for k in ks:
    src = os.environ.get('SRC', '/tmp/mut/out') + '/%s' % pid
    patch, demo, metaf = '%s/mutant%s.diff' % (src, k), '%s/demo%s.py' % (src, k), '%s/meta%s.json' % (src, k)
    if not os.path.exists(patch):   # the sub-agent's scratch files are gone: use the copies filed under /verif/seeded
        filed = '/verif/seeded/%s-%s' % (pid, k)
        patch, demo, metaf = filed + '/patch.diff', filed + '/demo.py', filed + '/meta.json'
    if not os.path.exists(patch):
        print(pid, k, 'no patch'); continue
    meta = json.load(open(metaf)) if os.path.exists(metaf) else {}
    env = 'PYTHONPATH=%s PYTHONDONTWRITEBYTECODE=1 MPLBACKEND=Agg' % WT
    d0 = sh('cd /tmp && %s timeout 600 /venv/bin/python %s' % (env, demo)).returncode
    a = sh('git -C %s apply %s' % (WT, patch))
    if a.returncode:
        print(pid, k, 'PATCH DOES NOT APPLY to current HEAD:', a.stdout[:300]); continue
    try:
        d1 = sh('cd /tmp && %s timeout 600 /venv/bin/python %s' % (env, demo)).returncode
        prev = '/verif/seeded/%s-%s/meta.json' % (pid, k)
        if os.environ.get('SKIPTESTS') and os.path.exists(prev):   # re-evaluation after strengthening: suite result already on file
            t = json.load(open(prev))['confirmed']['test_suite_with_change']
        else:
          t = sh('cd %s && timeout 1500 /venv/bin/python -m pytest -q -p no:cacheprovider --timeout=900 2>&1 | tail -1' % WT).stdout.strip()
        checks = {}
        for p in [pid] + also:
            t0 = time.time()
            r = sh('cd /verif && KAFE2_SRC=%s timeout 2400 ./check %s --tier quick' % (WT, p))
            nv = sum(1 for l in r.stdout.splitlines() if l.startswith('VIOLATION'))
            checks[p] = dict(exit=r.returncode, violation_lines=nv, wall_s=round(time.time() - t0, 1), first_sig=[l.strip() for l in r.stdout.splitlines() if l.startswith('  sig=')][:2])
    finally:
        sh('git -C %s checkout -- .' % WT)
        sh('cd /verif && git checkout -- evidence; rm -rf /verif/replays/%s' % pid) if not os.environ.get('KEEP') else None
    ok = d0 == 0 and d1 != 0 and '841 passed' in t and '1 failed' in t
    print(pid, k, 'demo clean/changed: %s/%s' % (d0, d1), '| tests:', t[:60], '| confirmed' if ok else '| NOT CONFIRMED', '|', {p: (c['exit'], c['violation_lines']) for p, c in checks.items()}, flush=True)
    if ok:
        out = '/verif/seeded/%s-%s' % (pid, k)
        os.makedirs(out, exist_ok=True)
        [shutil.copy(a, b) for a, b in ((patch, out + '/patch.diff'), (demo, out + '/demo.py')) if os.path.abspath(a) != os.path.abspath(b)]
        meta.update(property=pid, confirmed=dict(repo_head=head, demo_on_clean_tree=d0, demo_with_change=d1, test_suite_with_change=t,
                    ran='tools/seed_eval.py %s %s (scratch worktree /tmp/mutrun, checks with KAFE2_SRC)' % (pid, k)), checks_quick=checks,
                    detected={p: bool(c['exit'] == 1 and c['violation_lines'] > 0) for p, c in checks.items()})
        json.dump(meta, open(out + '/meta.json', 'w'), indent=1, sort_keys=True)
