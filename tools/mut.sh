#!/bin/bash
# usage: tools/mut.sh <patch.diff | -R:<commit>> <ID> [<ID>...]   -- applies a change to /repo, runs the quick checks, reverts
set -u
P="$1"; shift
cd /repo || exit 2
if [ -n "$(git status --porcelain --untracked-files=no)" ]; then echo "repo dirty"; exit 2; fi
if [[ "$P" == -R:* ]]; then git show "${P#-R:}" | git apply -R || exit 2; else git apply "$P" || exit 2; fi
for id in "$@"; do
  out=$(cd /verif && timeout 1800 ./check "$id" --tier "${TIER:-quick}" 2>&1); rc=$?
  nv=$(echo "$out" | grep -c '^VIOLATION')
  echo "== $P $id rc=$rc violations=$nv"
  echo "$out" | grep -A2 '^VIOLATION' | head -${SHOW:-8}
  echo "$out" | tail -1
done
cd /repo && git checkout -- . 
cd /verif && git checkout -- evidence 2>/dev/null
