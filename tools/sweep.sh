#!/bin/bash
# tools/sweep.sh <seed>... : run every quick check for each seed, print one line per check (exit code, wall)
cd /verif
for seed in "$@"; do
  for id in C01 C02 C03 C04 C05 C06 C07 C08 C09 C10 C11 C12 C13 C14 C15 C16 C17 C18 C19; do
    t0=$(date +%s)
    out=$(VERIF_SEED=$seed timeout 3600 ./check $id --tier quick 2>&1); rc=$?
    t1=$(date +%s)
    nv=$(echo "$out" | grep -c '^VIOLATION'); nw=$(echo "$out" | grep -c '^WARN'); nh=$(echo "$out" | grep -c 'HARNESS')
    echo "seed=$seed $id rc=$rc violations=$nv warn=$nw harness=$nh wall=$((t1-t0))s"
    if [ $rc -ne 0 ]; then echo "$out" | grep -A4 '^VIOLATION\|HARNESS' | head -20; fi
  done
done
