#!/venv/bin/python
"""tools/fixcommit.py : split the working-tree changes of /repo into separate 'fix:' commits.
FIXES = [(message, [(file, old, new), ...]), ...]; each is applied on top of HEAD in order; at the end the tree
must equal the previous working tree (checked)."""
import subprocess, sys, json
spec = json.load(open(sys.argv[1]))
def sh(*a): return subprocess.check_output(a, cwd='/repo').decode()
want = sh('git', 'diff')
sh('git', 'stash')
try:
    for msg, reps in spec:
        for f, old, new in reps:
            p = '/repo/' + f
            s = open(p).read()
            assert s.count(old) == 1, (msg, f, s.count(old))
            open(p, 'w').write(s.replace(old, new))
        sh('git', 'commit', '-qam', msg)
        print('committed', sh('git', 'log', '--oneline', '-1').strip())
finally:
    pass
sh('git', 'stash', 'pop') if False else None
# compare: tree at HEAD must equal stashed tree
diff = sh('git', 'diff', 'stash@{0}', 'HEAD')
if diff.strip():
    print('WARNING: result differs from the working tree that was stashed:\n', diff[:2000])
else:
    print('tree identical to previous working tree; dropping stash'); sh('git', 'stash', 'drop')
