#!/venv/bin/python
import json, sys
p = '/verif/known_findings.json'
d = json.load(open(p))
e = json.loads(sys.stdin.read())
es = e if isinstance(e, list) else [e]
ids = {f['id'] for f in d['findings']}
for x in es:
    if x['id'] in ids:
        d['findings'] = [x if f['id'] == x['id'] else f for f in d['findings']]
    else:
        d['findings'].append(x)
json.dump(d, open(p, 'w'), indent=1)
print(len(d['findings']), 'findings')
