#!/venv/bin/python
"""tools/run_seeded.py [ids...] : for every seeded change under /verif/seeded/<name>/ (patch.diff, demo.py, meta.json)
apply it to /repo, run the quick check(s) of the property it breaks (meta['property'], plus meta.get('also', [])), record whether a
VIOLATION was reported, and revert /repo.  Writes /verif/seeded/RESULTS.json."""
import json, os, subprocess, sys, glob, time

ROOT = '/verif/seeded'
names = sys.argv[1:] or sorted(d for d in os.listdir(ROOT) if os.path.isdir(os.path.join(ROOT, d)))
res_path = os.path.join(ROOT, 'RESULTS.json')
results = json.load(open(res_path)) if os.path.exists(res_path) else {}

def sh(cmd, **kw):
    return subprocess.run(cmd, shell=True, stdout=subprocess.PIPE, stderr=subprocess.STDOUT, text=True, **kw)

assert not sh('git -C /repo status --porcelain --untracked-files=no').stdout.strip(), 'repo dirty'
for n in names:
    d = os.path.join(ROOT, n)
    meta = json.load(open(os.path.join(d, 'meta.json')))
    props = [meta['property']] + meta.get('also', [])
    r = sh('git -C /repo apply %s/patch.diff' % d)
    if r.returncode:
        print(n, 'PATCH DOES NOT APPLY', r.stdout[:200]); results[n] = dict(error='patch does not apply'); continue
    try:
        entry = {}
        for p in props:
            t = time.time()
            r = sh('cd /verif && timeout 1800 ./check %s --tier %s' % (p, os.environ.get('TIER', 'quick')))
            nviol = sum(1 for l in r.stdout.splitlines() if l.startswith('VIOLATION'))
            entry[p] = dict(exit=r.returncode, violations=nviol, wall=round(time.time() - t, 1), first=[l for l in r.stdout.splitlines() if l.startswith('  sig=')][:2])
            print(n, p, 'exit', r.returncode, 'violations', nviol, '%.0fs' % (time.time() - t), flush=True)
        results[n] = entry
    finally:
        sh('git -C /repo checkout -- .')
        sh('cd /verif && git checkout -- evidence')
    json.dump(results, open(res_path, 'w'), indent=1, sort_keys=True)
