#!/bin/bash
# tools/memwatch.sh <ID> [tier] : run one check and report the peak total resident memory of its worker processes (development aid)
ID=$1; TIER=${2:-quick}
cd /verif
( timeout 7200 ./check $ID --tier $TIER > /tmp/memwatch_$ID.log 2>&1; echo "exit $?" >> /tmp/memwatch_$ID.log ) &
PEAK=0; T0=$(date +%s)
while kill -0 $! 2>/dev/null; do
  S=$(ps -eo rss,args | grep "kmc.cli $ID " | grep -v grep | awk '{s+=$1} END {print int(s/1024)}')
  [ "${S:-0}" -gt "$PEAK" ] && PEAK=$S
  sleep 2
done
echo "$ID $TIER peak_total_rss_MB=$PEAK wall=$(( $(date +%s) - T0 ))s $(tail -2 /tmp/memwatch_$ID.log | tr '\n' ' ' | cut -c1-200)"
