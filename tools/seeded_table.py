#!/usr/bin/env python3
"""tools/seeded_table.py [min_k [max_k]] : markdown table of the seeded changes filed under /verif/seeded (for DESIGN.md section 8)."""
import glob, json, os, sys
mink = int(sys.argv[1]) if len(sys.argv) > 1 else 1
maxk = int(sys.argv[2]) if len(sys.argv) > 2 else 99
print("| id | file | change | needs to manifest | quick check(s) run -> detected |")
print("|---|---|---|---|---|")
for d in sorted(glob.glob("/verif/seeded/C*-*")):
    k = int(d.rsplit("-", 1)[1])
    if k < mink or k > maxk:
        continue
    m = json.load(open(d + "/meta.json"))
    det = m.get("detected", {})
    cell = ", ".join("%s%s" % (p, "" if ok else " (missed)") for p, ok in sorted(det.items()))
    def cut(s, n=160):
        s = " ".join(str(s).split()).replace("|", "/")
        return s[:n]
    print("| %s | `%s` | %s | %s | %s |" % (os.path.basename(d), m.get("file", "?"), cut(m.get("summary", m.get("change", ""))), cut(m.get("needs", ""), 140), cell))
